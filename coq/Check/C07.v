(* C07 correspondence: cases as printed by harness/c07. *)
From Verif Require Export Lib.Base Model.C07_Strategies Model.C07_Spec.
From Coq Require Import QArith.
Open Scope N_scope.

Record observed := mk_obs {
  o_res : result;          (* what the strategy returned *)
  o_time : N;              (* fake nanoseconds between the call and the return *)
  o_calls : list N         (* how often each provider was called, in provider order *)
}.

Record case := mk_case {
  c_id : N;
  c_strat : strategy;
  c_params : params;
  c_provs : list prov;
  c_obs : observed
}.

Definition result_eqb (a b : result) : bool :=
  match a, b with
  | RVal x, RVal y => x =? y
  | RNil, RNil | RErr, RErr | RHang, RHang | RPanic, RPanic => true
  | _, _ => false
  end.
Definition outcome_eqb := prod_eqb result_eqb N.eqb.

(* well-formedness of a printed case (true by construction of the harness; checked so that the
   theorem [agree c = true -> P_b c = true] needs no side condition): equal ids carry equal
   contents, and every content has the type the strategy's interface fixes *)
Definition raw_eqb (a b : raw) : bool :=
  match a, b with
  | RAtt n1 t1 s1 so1 ta1 r1, RAtt n2 t2 s2 so2 ta2 r2 =>
      Bool.eqb n1 n2 && Bool.eqb t1 t2 && (s1 =? s2) && (so1 =? so2) && (ta1 =? ta2) && (r1 =? r2)
  | RAgg n1 s1 l1, RAgg n2 s2 l2 => Bool.eqb n1 n2 && (s1 =? s2) && (l1 =? l2)
  | RProp v1 f1 c1 e1, RProp v2 f2 c2 e2 => (v1 =? v2) && (f1 =? f2) && (c1 =? c2) && (e1 =? e2)
  | RContrib n1 s1, RContrib n2 s2 => Bool.eqb n1 n2 && (s1 =? s2)
  | RRoot r1, RRoot r2 => r1 =? r2
  | ROpaque n1, ROpaque n2 => Bool.eqb n1 n2
  | _, _ => false
  end.

Definition resp_of (p : prov) : option value := match pv_beh p with BRespond v => Some v | _ => None end.

Definition ids_okb (ps : list prov) : bool :=
  forallb (fun p1 => forallb (fun p2 =>
    match resp_of p1, resp_of p2 with
    | Some v1, Some v2 => negb (v_id v1 =? v_id v2) || raw_eqb (v_raw v1) (v_raw v2)
    | _, _ => true
    end) ps) ps.

Definition typedb (st : strategy) (ps : list prov) : bool :=
  forallb (fun p => match resp_of p with Some v => raw_family st (v_raw v) | None => true end) ps.

Definition wf_case (c : case) : bool := ids_okb (c_provs c) && typedb (c_strat c) (c_provs c).

(* model = implementation: the observed (result, instant of return) is one of the model's
   outcomes over the orders of simultaneous events and of the Go map iteration; every provider
   was called exactly once *)
Definition agree (c : case) : bool :=
  wf_case c &&
  (memb outcome_eqb (o_res (c_obs c), o_time (c_obs c)) (outcomes (c_strat c) (c_params c) (c_provs c))
   && list_eqb N.eqb (o_calls (c_obs c)) (map (fun _ => 1) (c_provs c))).

(* ------------------------------------------------------------------------------------------- *)
(* The property on the OBSERVED output (the model's loops are not consulted).

   Validity rules as the property states them. *)
Definition spec_valid (st : strategy) (pr : params) (r : raw) : bool :=
  match st, r with
  | (AttBest | AttMajority), RAtt nil_data nil_target _ _ target _ =>
      negb nil_data && negb nil_target && (target =? p_slot pr / p_spe pr)   (* target epoch = the slot's epoch *)
  | PropBest, RProp ver fee _ _ =>
      if (ver =? 1) || (ver =? 2) then true                 (* no execution payload before bellatrix *)
      else (3 <=? ver) && (ver <=? 5) && (fee =? 1)          (* fee recipient present and not zero *)
  | AggBest, RAgg nil_data _ _ => negb nil_data
  | ContribBest, RContrib nil_data _ => negb nil_data
  | _, _ => true
  end.

(* (instant, content) of every answer a node gives; an answer later than the hard timeout from a
   node that honours its context is never given *)
Definition answers (pr : params) (ps : list prov) : list (N * value) :=
  flat_map (fun p => match pv_beh p with
                     | BRespond v => if (pv_time p <=? p_timeout pr) || pv_deaf p then [(pv_time p, v)] else []
                     | _ => []
                     end) ps.

Definition count_if {A} (f : A -> bool) (l : list A) : N := N.of_nat (length (filter f l)).

Definition P_b (c : case) : bool :=
  let st := c_strat c in let pr := c_params c in
  let T := p_timeout pr in let S := T / 2 in
  let ot := o_time (c_obs c) in
  let all := answers pr (c_provs c) in
  let ok := filter (fun tv => spec_valid st pr (v_raw (snd tv))) all in     (* acceptable answers *)
  let sc := fun v : value => score_of st pr (v_raw v) in
  let cnt_le := fun id t => count_if (fun tv => (v_id (snd tv) =? id) && (fst tv <=? t)) ok in
  let cnt_lt := fun id t => count_if (fun tv => (v_id (snd tv) =? id) && (fst tv <? t)) ok in
  let slot_of_id := fun id => match find (fun tv => v_id (snd tv) =? id) ok with
                              | Some tv => vslot pr (snd tv) | None => 0 end in
  let soft_rule := if existsb (fun tv => fst tv <? S) ok then ot <=? S else true in
  (* returns within its configured timeout; every node was asked, once *)
  (ot <=? T) && list_eqb N.eqb (o_calls (c_obs c)) (map (fun _ => 1) (c_provs c)) &&
  match template_of st, o_res (c_obs c) with
  | TBest, RVal id =>
      (* an acceptable answer, given no later than the return, that no acceptable answer given
         before the return outscores; and answers present at the soft timeout end the wait *)
      existsb (fun tv => (v_id (snd tv) =? id) && (fst tv <=? ot)
                         && forallb (fun tu => negb (fst tu <? ot) || negb (sgt (sc (snd tu)) (sc (snd tv)))) ok) ok
      && soft_rule
  | TBest, RErr => forallb (fun tv => negb (fst tv <? T)) ok     (* only when nothing acceptable came in time *)
  | (TMajAtt | TMajRoot) as tp, RVal id =>
      let thr := match tp with TMajAtt => p_threshold pr | _ => 0 end in
      let n := cnt_le id ot in
      (1 <=? n) && (thr <=? n)                                  (* never used below the threshold *)
      && forallb (fun tu => let id' := v_id (snd tu) in
                            (cnt_lt id' ot <=? n)               (* most frequently reported *)
                            && (if cnt_lt id' ot =? n then slot_of_id id' <=? slot_of_id id else true)) ok
      (* ... and not merely so far: a value used before the strategy's decision point (block root:
         the soft timeout; attestation data: the hard timeout, its soft timeout decides nothing) is
         the most frequently reported of ALL the acceptable answers given within the timeout --
         stopping early is allowed only once the later answers cannot change the choice *)
      && (if maj_final tp T ot
          then forallb (fun tu => let id' := v_id (snd tu) in
                                  (id' =? id)
                                  || ((cnt_lt id' T <=? n)
                                      && (if cnt_lt id' T =? n then slot_of_id id' <=? slot_of_id id else true))) ok
          else true)
      && match tp with TMajRoot => soft_rule | _ => true end
  | (TMajAtt | TMajRoot) as tp, RErr =>
      let thr := match tp with TMajAtt => p_threshold pr | _ => 0 end in
      (* used whenever the threshold was reached in time *)
      forallb (fun tu => cnt_lt (v_id (snd tu)) T <? N.max 1 thr) ok
  | TFirst, RVal id =>
      existsb (fun tv => (v_id (snd tv) =? id) && negb (is_nil (v_raw (snd tv))) && (fst tv =? ot)) all
      && forallb (fun tu => negb (fst tu <? ot)) all
  | TFirst, RNil =>
      existsb (fun tv => is_nil (v_raw (snd tv)) && (fst tv =? ot)) all
      && forallb (fun tu => negb (fst tu <? ot)) all
  | TFirst, RErr => forallb (fun tv => negb (fst tv <? T)) all
  | _, _ => false
  end.

(* ------------------------------------------------------------------------------------------- *)
(* The same property as a proposition over the nodes ([gives], [gives_ok], [cnt] are in
   Model/C07_Spec.v).  Proofs/C07_Check.v: [P_b c = true -> P c] when equal ids carry equal
   contents (P_b means what it should), and [agree c = true -> P_b c = true]. *)
Definition P (c : case) : Prop :=
  let st := c_strat c in let pr := c_params c in let ps := c_provs c in
  let T := p_timeout pr in let ot := o_time (c_obs c) in
  let soft := forall p1 v1, In p1 ps -> gives_ok st pr p1 v1 -> pv_time p1 < T / 2 -> ot <= T / 2 in
  ot <= T /\ o_calls (c_obs c) = map (fun _ => 1) ps /\
  match template_of st, o_res (c_obs c) with
  | TBest, RVal id =>
      (exists p0 v, In p0 ps /\ gives_ok st pr p0 v /\ v_id v = id /\ pv_time p0 <= ot
         /\ forall p1 v1, In p1 ps -> gives_ok st pr p1 v1 -> pv_time p1 < ot ->
                          sgt (vscore st pr v1) (vscore st pr v) = false)
      /\ soft
  | TBest, RErr => forall p1 v1, In p1 ps -> gives_ok st pr p1 v1 -> T <= pv_time p1
  | (TMajAtt | TMajRoot) as tp, RVal id =>
      (exists p0 v, In p0 ps /\ gives_ok st pr p0 v /\ v_id v = id /\ pv_time p0 <= ot
         /\ (1 <= cnt st pr ps (fun x => (x <=? ot)%N) id)%Z
         /\ (maj_thr st pr <= cnt st pr ps (fun x => (x <=? ot)%N) id)%Z
         /\ (forall p1 v1, In p1 ps -> gives_ok st pr p1 v1 ->
              (cnt st pr ps (fun x => (x <? ot)%N) (v_id v1) <= cnt st pr ps (fun x => (x <=? ot)%N) id)%Z
              /\ (cnt st pr ps (fun x => (x <? ot)%N) (v_id v1) = cnt st pr ps (fun x => (x <=? ot)%N) id
                  -> vslot pr v1 <= vslot pr v))
         /\ (maj_final tp T ot = true ->
             forall p1 v1, In p1 ps -> gives_ok st pr p1 v1 -> v_id v1 <> id ->
              (cnt st pr ps (fun x => (x <? T)%N) (v_id v1) <= cnt st pr ps (fun x => (x <=? ot)%N) id)%Z
              /\ (cnt st pr ps (fun x => (x <? T)%N) (v_id v1) = cnt st pr ps (fun x => (x <=? ot)%N) id
                  -> vslot pr v1 <= vslot pr v)))
      /\ (tp = TMajRoot -> soft)
  | (TMajAtt | TMajRoot), RErr =>
      forall p1 v1, In p1 ps -> gives_ok st pr p1 v1 ->
                    (cnt st pr ps (fun x => (x <? T)%N) (v_id v1) < Z.max 1 (maj_thr st pr))%Z
  | TFirst, RVal id =>
      (exists p0 v, In p0 ps /\ gives pr p0 v /\ v_id v = id /\ is_nil (v_raw v) = false /\ pv_time p0 = ot)
      /\ forall p1 v1, In p1 ps -> gives pr p1 v1 -> ot <= pv_time p1
  | TFirst, RNil =>
      (exists p0 v, In p0 ps /\ gives pr p0 v /\ is_nil (v_raw v) = true /\ pv_time p0 = ot)
      /\ forall p1 v1, In p1 ps -> gives pr p1 v1 -> ot <= pv_time p1
  | TFirst, RErr => forall p1 v1, In p1 ps -> gives pr p1 v1 -> T <= pv_time p1
  | _, _ => False
  end.

Definition mismatches (cs : list case) : list N := failing_ids c_id agree cs.
Definition violations (cs : list case) : list N := failing_ids c_id P_b cs.
