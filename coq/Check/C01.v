(* C01 correspondence: cases as printed by harness/c01 (format: Check.C01_Case). *)
From Verif Require Export Lib.Base Model.C01_Attester Model.C01_Ties Check.C01_Case.

(* The property evaluated on the OBSERVED calls alone (the model is not consulted):
   - over the whole history no (validator, epoch) is handed to the signer twice
     (epoch = epoch of the slot the signature is requested for);
   - every signing request carries the slot of the duty of the call of Attest it came from, a
     target epoch equal to the epoch of that slot and a source epoch not above the target;
   - a signing request is made only by a call whose beacon node returned data that has the duty's
     slot, target = epoch(slot) and source <= target (anything else must be refused before the
     signer is asked), and only for validators of that call's duty. *)
Definition signreq_ok (spe : N) (rs : list run) (q : signreq) : bool :=
  match nth_error rs (sr_run q) with
  | None => false
  | Some r =>
      let d := r_duty r in
      (sr_slot q =? d_slot d) && (sr_tgt q =? epoch_of spe (d_slot d)) && (sr_src q <=? sr_tgt q) &&
      match s_fetch (r_script r) with Some a => data_ok spe d a | None => false end &&
      forallb (fun p => memb N.eqb (fst p) (d_vals d)) (sr_pairs q)
  end.

Definition P_b (c : case) : bool :=
  nodupb (prod_eqb N.eqb N.eqb) (sign_list (c_spe c) (c_trace c)) &&
  forallb (fun ev => match ev with SignReq q => signreq_ok (c_spe c) (c_runs c) q | Submit _ _ => true end) (c_trace c).

(* Correspondence.  A history whose wake-up instants are all distinct has one outcome, computed by
   [C01_Case.agree].  When calls wake up at the same instant the harness interleaves them inside the
   code wherever the code calls out of itself (harness/attenv/yield.go); the observed outcome must then
   be one of the outcomes of the interleavings of the tied segments ([outcomes], Model/C01_Ties.v; each
   is the outcome of a schedule: C01_tied_outcomes_are_histories). *)
Definition observed_is (c : case) (st : state) : bool :=
  negb (g_panic st) &&
  list_eqb event_eqb (g_trace st) (c_trace c) &&
  list_eqb result_eqb (model_results (g_trace st) 0 (c_runs c)) (c_results c) &&
  list_eqb (prod_eqb N.eqb (list_eqb N.eqb)) (norm_att (g_att st)) (c_final c).

Definition has_ties (c : case) : bool := negb (nodupb N.eqb (map fst (wake_times 0 (c_times c)))).

Definition agree_tied (c : case) : bool :=
  existsb (fun o => observed_is c (fst o)) (outcomes (c_spe c) (c_runs c) (wake_times 0 (c_times c))).

(* Racing histories (harness/attenv/racing.go): all calls released together on real threads, every
   environment call returning at once (all latencies zero: the marker), all for one epoch, valid data,
   every validator with an account, nothing failing.  The interleaving is neither chosen nor known and the
   interleavings of whole calls are too many to enumerate, so the comparison is with what EVERY schedule
   of the model yields for such a history: each validator of the duties is signed for exactly once, the
   attested map ends as that epoch with exactly those validators, and the calls return together as many
   attestations as there are validators. *)
Definition is_racing (c : case) : bool :=
  match c_times c with [] => false | _ => forallb (fun t => tm_fetch t =? 0) (c_times c) end.

Fixpoint dedup (l : list N) : list N :=
  match l with [] => [] | x :: l' => if memb N.eqb x l' then dedup l' else x :: dedup l' end.

Definition agree_racing (c : case) : bool :=
  let vals := sort_by (fun x : N => x) (dedup (flat_map (fun r => d_vals (r_duty r)) (c_runs c))) in
  match c_runs c with
  | [] => false
  | r0 :: _ =>
      let e := epoch_of (c_spe c) (d_slot (r_duty r0)) in
      forallb (fun r => (epoch_of (c_spe c) (d_slot (r_duty r)) =? e) &&
                        match s_fetch (r_script r) with Some a => data_ok (c_spe c) (r_duty r) a | None => false end) (c_runs c) &&
      list_eqb N.eqb (sort_by (fun x : N => x) (map fst (sign_list (c_spe c) (c_trace c)))) vals &&
      forallb (fun p => snd p =? e) (sign_list (c_spe c) (c_trace c)) &&
      list_eqb (prod_eqb N.eqb (list_eqb N.eqb)) (c_final c) [(e, vals)] &&
      (fold_right (fun r a => match r with ROk n => n + a | RErr => a end) 0 (c_results c) =? N.of_nat (length vals))
  end.

Definition agree (c : case) : bool :=
  if is_racing c then agree_racing c else if has_ties c then agree_tied c else C01_Case.agree c.

Definition mismatches (cs : list case) : list N := failing_ids c_id agree cs.
Definition violations (cs : list case) : list N := failing_ids c_id P_b cs.
