(* C14 correspondence: cases as printed by harness/c14. *)
From Verif Require Export Lib.Base Model.C14_Subscriptions Model.C14_Spec Model.C14_Reorg Model.C14_Start.

(* What the harness observed for one operation.  Every list is sorted by the harness: a payload by
   (slot, committee, validator), the stored info and the jobs by (slot, committee). *)
Inductive obs :=
| ObsSub (calls : list (list subscription)) (stored : option (list sub))
| ObsAtt (jobs : list (job * option (N * N * N * N)))
    (* each aggregation job in the scheduler's table with the duty handed to Aggregate when its
       function runs, and what the real Aggregate then asked for and submitted:
       (slot requested, data root requested, aggregator index, selection proof) *)
| ObsHead (infos : list (N * list sub)) (len : N)
    (* after a head event: the stored information of every epoch a subscribe of the history named
       (sorted by epoch, each sorted as in ObsSub), and len(subscriptionInfos) *)
| ObsPanic.

Record case := {
  c_id : N;
  c_pr : params;
  c_ops : list op;
  c_obs : list obs
}.

(* ------------------------------------------------------------------------------------------- *)
(* equality tests *)

Definition sub_eqb (a b : sub) : bool :=
  (s_val a =? s_val b) && (s_slot a =? s_slot b) && (s_comm a =? s_comm b) && (s_len a =? s_len b) &&
  (s_cas a =? s_cas b) && (s_pos a =? s_pos b) && Bool.eqb (s_agg a) (s_agg b) && (s_sig a =? s_sig b).
Definition subscription_eqb (a b : subscription) : bool :=
  (p_val a =? p_val b) && (p_slot a =? p_slot b) && (p_comm a =? p_comm b) && (p_cas a =? p_cas b) &&
  Bool.eqb (p_agg a) (p_agg b).
Definition job_eqb (a b : job) : bool :=
  (j_slot a =? j_slot b) && (j_comm a =? j_comm b) && (j_time a =? j_time b) && (j_dslot a =? j_dslot b) &&
  (j_root a =? j_root b) && (j_val a =? j_val b) && (j_sig a =? j_sig b).
Definition quad_eqb (a b : N * N * N * N) : bool :=
  let '(a1, a2, a3, a4) := a in let '(b1, b2, b3, b4) := b in
  (a1 =? b1) && (a2 =? b2) && (a3 =? b3) && (a4 =? b4).

Definition pair_key (s c : N) : N := s * two64 + c.
Definition sort_subs := sort_by (fun e => pair_key (s_slot e) (s_comm e)).
Definition sort_payload := sort_by (fun p => pair_key (p_slot p) (p_comm p)).
Definition sort_jobs := sort_by (fun j => pair_key (j_slot j) (j_comm j)).

(* ------------------------------------------------------------------------------------------- *)
(* agree: the model's outputs, canonically sorted, are what was observed *)

Definition out_agrees (m : out) (o : obs) : bool :=
  match m, o with
  | OutSub calls stored, ObsSub calls' stored' =>
      list_eqb (list_eqb subscription_eqb) (map sort_payload calls) calls' &&
      option_eqb (list_eqb sub_eqb) (option_map sort_subs stored) stored'
  | OutAtt jobs, ObsAtt jobs' =>
      list_eqb job_eqb (sort_jobs jobs) (map fst jobs') &&
      forallb (fun jo => option_eqb quad_eqb (snd jo) (Some (aggregate_out (fst jo)))) jobs'
  | OutHead infos, ObsHead infos' len =>
      let sorted := sort_by fst infos in
      list_eqb N.eqb (map fst sorted) (map fst infos') &&
      list_eqb (list_eqb sub_eqb) (map (fun kv => sort_subs (snd kv)) sorted) (map snd infos') &&
      (N.of_nat (length infos) =? len)
  | _, _ => false
  end.

Fixpoint outs_agree (ms : list out) (os : list obs) : bool :=
  match ms, os with
  | [], [] => true
  | m :: ms', o :: os' => out_agrees m o && outs_agree ms' os'
  | _, _ => false
  end.

Definition agree (c : case) : bool := outs_agree (snd (run (c_pr c) init (c_ops c))) (c_obs c).

(* ------------------------------------------------------------------------------------------- *)
(* P_b: the property evaluated on the input and the OBSERVED outputs only.  Neither the model's
   selection arithmetic nor its overwrite rule is used: the selection rule is the specification's
   [spec_is_aggregator] on the digest the harness computed itself. *)

Definition pair_eqb := prod_eqb N.eqb N.eqb.
(* dkey, jkey, selected: Model.C14_Spec *)

Fixpoint nodupb {A} (eqb : A -> A -> bool) (l : list A) : bool :=
  match l with
  | [] => true
  | x :: l' => negb (memb eqb x l') && nodupb eqb l'
  end.

(* the beacon node's answer is self-consistent: duties of one slot agree on committees_at_slot,
   duties of one committee agree on its length *)
Definition consistent (ds : list duty) : bool :=
  forallb (fun a => forallb (fun b =>
    if d_slot a =? d_slot b
    then (d_cas a =? d_cas b) && (if d_comm a =? d_comm b then d_len a =? d_len b else true)
    else true) ds) ds.


(* Subscribe: the union of the submitted payloads is exactly one subscription per (slot, committee)
   with a duty in a slot after [cur] (whose slot could be signed), whatever else the epoch holds;
   each names a validator with that duty, that duty's committees_at_slot, and is_aggregator = the
   specification's rule on that validator's slot signature; a committee with a selected validator
   is subscribed as aggregator. *)
Definition P_sub (tgt cur : N) (no_accounts duties_fail : bool) (sign_fail : list N) (ds : list duty)
           (calls : list (list subscription)) : bool :=
  let entries := concat calls in
  let keys := map (fun p => (p_slot p, p_comm p)) entries in
  let exp := if no_accounts || duties_fail then []
             else filter (fun d => (cur <? d_slot d) && sign_ok_of sign_fail (d_slot d)) ds in
  let cons := consistent ds in
  nodupb pair_eqb keys &&
  forallb (fun k => memb pair_eqb k (map dkey exp)) keys &&
  forallb (fun d => memb pair_eqb (dkey d) keys) exp &&
  forallb (fun p => existsb (fun d =>
             (d_val d =? p_val p) && pair_eqb (dkey d) (p_slot p, p_comm p) &&
             (negb cons || ((p_cas p =? d_cas d) && Bool.eqb (p_agg p) (selected tgt d)))) exp) entries &&
  (negb cons ||
   forallb (fun p => implb (existsb (fun d => pair_eqb (dkey d) (p_slot p, p_comm p) && selected tgt d) exp)
                           (p_agg p)) entries).

(* the latest effective subscription per epoch, from the inputs alone *)
Definition known := list (N * (list N * list duty)).
Fixpoint known_get (ep : N) (k : known) : option (list N * list duty) :=
  match k with
  | [] => None
  | (e, v) :: k' => if e =? ep then Some v else known_get ep k'
  end.
Definition known_set (ep : N) (v : list N * list duty) (k : known) : known :=
  (ep, v) :: filter (fun x => negb (fst x =? ep)) k.


(* AttestAndScheduleAggregate: nothing already scheduled is lost or changed; every job carries into
   Aggregate exactly the duty it was scheduled with; every new job is for a committee of an
   attestation just produced, not in the past, at StartOfSlot + delay, for a validator of ours that
   has that duty, is selected by the specification's rule, with that validator's own slot
   signature and the attestation's data root; and every attested committee with a selected
   validator gets a job. *)
Definition P_att (pr : params) (kn_all kn : known) (prev : list job) (dslot cur : N) (attest_fail : bool)
           (no_acct : list N) (atts : list att) (jobs : list (job * option (N * N * N * N))) : bool :=
  (* [kn_all]: the latest subscribe of every epoch, whatever head events followed -- what may
     justify a new job; [kn]: the same without the epochs that head events were entitled to drop
     -- what must lead to a job *)
  let js := map fst jobs in
  let sub_may := if attest_fail then None else known_get (dslot / spe pr) kn_all in
  let sub := if attest_fail then None else known_get (dslot / spe pr) kn in
  forallb (fun j => memb job_eqb j js) prev &&
  nodupb pair_eqb (map jkey js) &&
  forallb (fun jo => option_eqb quad_eqb (snd jo)
                       (Some (j_dslot (fst jo), j_root (fst jo), j_val (fst jo), j_sig (fst jo)))) jobs &&
  forallb (fun j =>
    memb pair_eqb (jkey j) (map jkey prev) ||
    match sub_may with
    | None => false
    | Some (sign_fail, ds) =>
        existsb (fun a => pair_eqb (a_slot a, a_comm a) (jkey j) && (a_root a =? j_root j)) atts &&
        (cur <=? j_slot j) &&
        (j_time j =? j_slot j * slot_ms pr + delay_ms pr) &&
        (j_dslot j =? j_slot j) &&
        sign_ok_of sign_fail (j_slot j) &&
        acct_ok_of no_acct (j_val j) &&
        existsb (fun d => (d_val d =? j_val j) && pair_eqb (dkey d) (jkey j) && (d_sig d =? j_sig j) &&
                          (negb (consistent ds) || selected (agg_target pr) d)) ds
    end) js &&
  match sub with
  | None => true
  | Some (sign_fail, ds) =>
      negb (consistent ds) ||
      forallb (fun a =>
        let sel := filter (fun d => pair_eqb (dkey d) (a_slot a, a_comm a) && selected (agg_target pr) d) ds in
        implb ((cur <=? a_slot a) && sign_ok_of sign_fail (a_slot a) &&
               negb (match sel with [] => true | _ => false end) &&
               forallb (fun d => acct_ok_of no_acct (d_val d)) sel)
              (memb pair_eqb (a_slot a, a_comm a) (map jkey js))) atts
  end.

(* HandleHeadEvent: what the aggregation step will need survives.  The specification's reading of
   "old": the information of an epoch may go only once the head is two or more epochs later (plain
   arithmetic on naturals: nothing is old during epochs 0 and 1); a head that is not of the current
   slot changes nothing.  [P_head]: every epoch with information that is not old in this sense is
   still held afterwards. *)
Definition old_epoch (ep hepoch : N) : bool := ep + 1 <? hepoch.
Definition known_prune (hepoch : N) (kn : known) : known :=
  filter (fun x => negb (old_epoch (fst x) hepoch)) kn.
Definition head_effective (hslot cur : N) : bool := hslot =? cur.
Definition P_head (pr : params) (kn : known) (hslot cur : N) (infos : list (N * list sub)) : bool :=
  forallb (fun x => implb (negb (head_effective hslot cur && old_epoch (fst x) (hslot / spe pr)))
                          (memb N.eqb (fst x) (map fst infos))) kn.

Fixpoint spec_ok (pr : params) (kn_all kn : known) (prev : list job) (ops : list op) (os : list obs) : bool :=
  match ops, os with
  | [], [] => true
  | OSub ep cur no_accounts duties_fail sign_fail ds :: ops', ObsSub calls _ :: os' =>
      P_sub (agg_target pr) cur no_accounts duties_fail sign_fail ds calls &&
      let upd k := if no_accounts then known_set ep ([], []) k
                   else if duties_fail then k
                   else known_set ep (sign_fail, ds) k in
      spec_ok pr (upd kn_all) (upd kn) prev ops' os'
  | OAtt dslot cur attest_fail no_acct atts :: ops', ObsAtt jobs :: os' =>
      P_att pr kn_all kn prev dslot cur attest_fail no_acct atts jobs &&
      spec_ok pr kn_all kn (map fst jobs) ops' os'
  | OHead hslot cur :: ops', ObsHead infos _ :: os' =>
      P_head pr kn hslot cur infos &&
      let kn' := if head_effective hslot cur then known_prune (hslot / spe pr) kn else kn in
      spec_ok pr kn_all kn' prev ops' os'
  | _, _ => false
  end.

Definition P_b (c : case) : bool := spec_ok (c_pr c) [] [] [] (c_ops c) (c_obs c).

Definition mismatches (cs : list case) : list N := failing_ids c_id agree cs.
Definition violations (cs : list case) : list N := failing_ids c_id P_b cs.
