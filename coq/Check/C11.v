(* C11 correspondence: cases as printed by harness/c11. *)
From Verif Require Export Lib.Base Model.C11_Registrations Model.C11_Delivery Model.C11_Accounts.

Record case := {
  c_id : N;
  c_eops : list eop;      (* the history: for every registration round and every preparation the current epoch
                             and the accounts provider's table (every account it knows -- first those the
                             implementation visited, in that order -- with its activation / exit epochs) *)
  c_timing : list timing; (* how long each relay / beacon node takes in each operation (the mocks behave like real
                             clients: a request is abandoned when its context is cancelled first); the caller's
                             context lives ([t_ctx = None]) *)
  c_outs : list out       (* what the implementation did, op by op: signing requests, what ARRIVED at each relay
                             (by ascending address) and at each beacon node *)
}.

(* compact printing of a timing with a living context *)
Definition T (relays : list (N * N)) (nodes : list N) : timing :=
  {| t_ctx := None; t_relays := relays; t_nodes := nodes |}.

(* compact printing of the usual shapes (the harness falls back to the constructors otherwise):
   a registration whose signature is over its own message, and a signing request *)
Definition R (f g p t a : N) : sreg :=
  Build_sreg (Build_content f g p) t (Build_sig a (Build_content f g p) t).
Definition Q (a f g p t : N) (ok : bool) : sigreq := Build_sigreq a (Build_content f g p) t ok.

(* ------------------------------------------------------------------------------------------- *)
(* agree: the model's outputs are the observed ones. *)

Definition relaymap_eqb : relaymap -> relaymap -> bool :=
  list_eqb (prod_eqb N.eqb (list_eqb sreg_eqb)).

Definition out_eqb (a b : out) : bool :=
  match a, b with
  | OutRound e1 q1 r1 n1, OutRound e2 q2 r2 n2 =>
      Bool.eqb e1 e2 && list_eqb sigreq_eqb q1 q2 && relaymap_eqb r1 r2
      && list_eqb (option_eqb (list_eqb sreg_eqb)) n1 n2
  | OutForward r1, OutForward r2 => relaymap_eqb r1 r2
  | OutPrepare e1 n1, OutPrepare e2 n2 =>
      Bool.eqb e1 e2 && list_eqb (option_eqb (list_eqb (prod_eqb N.eqb N.eqb))) n1 n2
  | _, _ => false
  end.

Definition agree (c : case) : bool :=
  list_eqb out_eqb (snd (run_epochs init (c_eops c) (c_timing c))) (c_outs c).

(* ------------------------------------------------------------------------------------------- *)
(* P_b: the property on the OBSERVED outputs alone.  It does not look at the timing: the caller's
   context lives, so whatever the latencies and whoever fails first, everything has to arrive
   (the mocks record a request only when it arrives).  The only things carried along the history
   are computed from the inputs and from the observed signing requests:
     [lastsig] : public key -> (content, stamp) of the last successful signing request seen;
     [cmust] / [cmay] : the public keys of the last round that did its work.
   WHICH validators a round is about is part of the property ("every validator that is about to be
   active"): the accounts provider's table says from which epoch on each account validates and until
   which one, and the round runs at a given epoch.  [must] = the accounts that are validating at the
   NEXT epoch (active now and still then, or activating then): every one of them has to be served.
   [may] = every account the provider knows: nothing may be signed or sent for anybody else, but a
   tree that also serves, say, a validator on its last epoch does not break the property, so
   soundness is judged against [may] and completeness against [must]. *)

Definition about_to_be_active (epoch : N) (w : N * N) : bool :=
  (fst w <=? epoch + 1) && ((snd w =? 0) || (epoch + 1 <? snd w)).

Fixpoint spec_must (epoch : N) (vals : list validator) (wins : list (N * N)) : list validator :=
  match vals with
  | [] => []
  | v :: vals' =>
      if about_to_be_active epoch (hd (0, 0) wins) then v :: spec_must epoch vals' (tl wins)
      else spec_must epoch vals' (tl wins)
  end.

Definition spec_content (v : validator) (rc : rcfg) : content :=
  {| ct_fee := rc_fee rc; ct_gas := rc_gas rc; ct_pub := v_pub v |}.

Definition spec_relays (v : validator) : list rcfg :=
  match v_res v with Some res => rs_relays res | None => [] end.

Definition spec_reached (ks : list (N * rkind)) (addr : N) : bool :=
  match kind_of ks addr with ROk | RErr => true | _ => false end.

(* the registration names the validator's key, and its signature was made by the validator's
   account over exactly the message (content and timestamp) it accompanies *)
Definition wf_for (v : validator) (sr : sreg) : bool :=
  (ct_pub (sr_content sr) =? v_pub v)
  && (sg_acct (sr_sig sr) =? v_acct v)
  && content_eqb (sg_content (sr_sig sr)) (sr_content sr)
  && (sg_stamp (sr_sig sr) =? sr_stamp sr).

Fixpoint last_of (m : list (N * (content * N))) (p : N) : option (content * N) :=
  match m with
  | [] => None
  | (p', x) :: m' => if p' =? p then Some x else last_of m' p
  end.

(* where a registration may come from: signed in this round at the round's time, or the
   validator's most recent successful signing before the round (reuse) *)
Definition provenance (now : N) (reqs : list sigreq) (lastsig : list (N * (content * N))) (v : validator) (sr : sreg) : bool :=
  if sr_stamp sr =? now then
    existsb (fun q => q_ok q && (q_acct q =? v_acct v) && content_eqb (q_content q) (sr_content sr)
                      && (q_stamp q =? now)) reqs
  else
    (sr_stamp sr <? now)
    && match last_of lastsig (v_pub v) with
       | Some (c, t) => content_eqb c (sr_content sr) && (t =? sr_stamp sr)
       | None => false
       end.

Definition count {A} (f : A -> bool) (l : list A) : nat := length (filter f l).

Definition regs_at (m : relaymap) (addr : N) : list sreg :=
  match find (fun e => fst e =? addr) m with Some e => snd e | None => [] end.

(* registrations for validator v with content c received over all relays *)
Definition received_total (m : relaymap) (v : validator) (c : content) : nat :=
  fold_right (fun e n => (count (fun sr => content_eqb (sr_content sr) c && wf_for v sr) (snd e) + n)%nat) 0%nat m.

Definition positions (ks : list (N * rkind)) (v : validator) (c : content) : nat :=
  count (fun rc => content_eqb (spec_content v rc) c && spec_reached ks (rc_addr rc)) (spec_relays v).

Definition positions_at (v : validator) (c : content) (addr : N) : nat :=
  count (fun rc => content_eqb (spec_content v rc) c && (rc_addr rc =? addr)) (spec_relays v).

Definition failed_reqs (reqs : list sigreq) (v : validator) (c : content) : nat :=
  count (fun q => negb (q_ok q) && (q_acct q =? v_acct v) && content_eqb (q_content q) c) reqs.

(* the k-th signing request of an account fails only if the signer made it fail ([v_sign], an input
   of the round; missing = the signer signs): a request that fails for any other reason -- abandoned
   because something else failed -- is nobody's excuse *)
Fixpoint outcomes_ok (signs oks : list bool) : bool :=
  match oks with
  | [] => true
  | o :: oks' => Bool.eqb o (hd true signs) && outcomes_ok (tl signs) oks'
  end.

Definition active_with (r : round_in) (vals : list validator) : bool :=
  if r_api r then r_cfg r
  else negb (r_acct_err r) && r_cfg r && match vals with [] => false | _ => true end.

Definition all_none {A} (l : list (option A)) : bool :=
  forallb (fun x => match x with None => true | Some _ => false end) l.

(* a round that does not do its work: nothing may be signed or sent; the API call reports the
   missing configuration *)
Definition idle_ok (r : round_in)
           (err : bool) (reqs : list sigreq) (relays : relaymap) (nodes : list (option (list sreg))) : bool :=
    Bool.eqb err (r_api r && negb (r_cfg r))
    && match reqs with [] => true | _ => false end
    && match relays with [] => true | _ => false end
    && all_none nodes && (length nodes =? length (r_nodes r))%nat.

(* a round that does its work for the validators [must], and perhaps for more of [may] *)
Definition work_ok (lastsig : list (N * (content * N))) (r : round_in) (must may : list validator)
           (err : bool) (reqs : list sigreq) (relays : relaymap) (nodes : list (option (list sreg))) : bool :=
  let now := r_now r in
    negb err
    (* P1: only what the settings say is ever signed, by that validator's account, at this time *)
    && forallb (fun q =>
         (q_stamp q =? now)
         && existsb (fun v => (q_acct q =? v_acct v)
                              && existsb (fun rc => content_eqb (q_content q) (spec_content v rc)) (spec_relays v)) may)
       reqs
    && forallb (fun v => outcomes_ok (v_sign v) (map q_ok (filter (fun q => q_acct q =? v_acct v) reqs))) may
    (* P2: everything a relay is sent is a validator's registration for that relay, well signed,
       fresh or a legitimate reuse; no relay is sent more than its share; unreachable relays see nothing *)
    && forallb (fun e =>
         spec_reached (r_relays r) (fst e)
         && forallb (fun sr =>
              existsb (fun v =>
                wf_for v sr
                && existsb (fun rc => (rc_addr rc =? fst e) && content_eqb (sr_content sr) (spec_content v rc)) (spec_relays v)
                && provenance now reqs lastsig v sr
                && (count (fun sr' => content_eqb (sr_content sr') (sr_content sr) && wf_for v sr') (snd e)
                    <=? positions_at v (sr_content sr) (fst e))%nat)
              may)
            (snd e))
       relays
    (* P3: every validator's registration reaches every reachable relay of its settings, whatever
       happened to the others: what is missing is covered by failed signing requests for exactly
       that validator and content *)
    && forallb (fun v =>
         forallb (fun rc =>
           let c := spec_content v rc in
           (positions (r_relays r) v c <=? received_total relays v c + failed_reqs reqs v c)%nat)
           (spec_relays v))
       must
    (* P4: every secondary beacon node is called, all with the same list: the first relay's
       registration of each validator *)
    && (length nodes =? length (r_nodes r))%nat
    && match nodes with
       | [] => true
       | n0 :: _ =>
           forallb (fun n => option_eqb (list_eqb sreg_eqb) n n0) nodes
           && let l := match n0 with Some l => l | None => [] end in
              forallb (fun sr =>
                existsb (fun v =>
                  wf_for v sr
                  && match spec_relays v with
                     | rc :: _ => content_eqb (sr_content sr) (spec_content v rc)
                     | [] => false
                     end
                  && provenance now reqs lastsig v sr) may) l
              && forallb (fun v =>
                   match spec_relays v with
                   | [] => true
                   | rc :: _ =>
                       let c := spec_content v rc in
                       existsb (fun sr => content_eqb (sr_content sr) c && wf_for v sr) l
                       || (0 <? failed_reqs reqs v c)%nat
                   end) must
              && match n0, l with Some _, [] => false | _, _ => true end
       end.

Definition round_ok (lastsig : list (N * (content * N))) (r : round_in) (must may : list validator)
           (err : bool) (reqs : list sigreq) (relays : relaymap) (nodes : list (option (list sreg))) : bool :=
  if active_with r must then work_ok lastsig r must may err reqs relays nodes
  else idle_ok r err reqs relays nodes
       || (active_with r may && work_ok lastsig r [] may err reqs relays nodes).

Fixpoint note_signings (lastsig : list (N * (content * N))) (reqs : list sigreq) : list (N * (content * N)) :=
  match reqs with
  | [] => lastsig
  | q :: reqs' =>
      note_signings (if q_ok q then (ct_pub (q_content q), (q_content q, q_stamp q)) :: lastsig else lastsig) reqs'
  end.

(* [cmust]: the keys that certainly are controlled (registrations naming them are never forwarded);
   [cmay]: the keys that may be (everybody else's registration has to be forwarded) *)
Definition forward_ok (cmust cmay : list N) (f : forward_in) (relays : relaymap) : bool :=
  let targets (ctrl : list N) (sr : sreg) : list N :=
    let pub := ct_pub (sr_content sr) in
    if memb N.eqb pub ctrl then []
    else if f_cfg f then match lookup_resolve (f_resolve f) pub with Some l => l | None => [] end
    else [] in
  (* only registrations of validators not controlled by Vouch, unchanged, to relays of their settings *)
  forallb (fun e =>
    spec_reached (f_relays f) (fst e)
    && forallb (fun sr => existsb (fun sr' => sreg_eqb sr sr' && memb N.eqb (fst e) (targets cmust sr')) (f_incoming f)) (snd e))
    relays
  (* and every one of them reaches every reachable relay of its settings *)
  && forallb (fun sr =>
       forallb (fun a => negb (spec_reached (f_relays f) a) || existsb (sreg_eqb sr) (regs_at relays a)) (targets cmay sr))
       (f_incoming f).

Definition spec_fee (p : prepare_in) (v : validator) : option N :=
  if p_cfg p then match v_res v with Some res => Some (rs_fee res) | None => None end
  else Some (p_fallback p).

Definition prepare_ok (p : prepare_in) (must may : list validator) (err : bool) (nodes : list (option (list (N * N)))) : bool :=
  let work :=
    negb err
    && forallb (fun n =>
         match n with
         | None => false          (* every configured beacon node is called *)
         | Some l =>
             (* an entry for every validator that is about to be active, with its resolved fee recipient *)
             forallb (fun v => match spec_fee p v with
                               | Some fee => existsb (fun e => (fst e =? v_index v) && (snd e =? fee)) l
                               | None => true
                               end) must
             (* and entries for validators of the provider only, with theirs *)
             && forallb (fun e => existsb (fun v => (fst e =? v_index v)
                                                    && option_eqb N.eqb (spec_fee p v) (Some (snd e))) may) l
             && (length l <=? length may)%nat
         end) nodes in
  (length nodes =? length (p_nodes p))%nat
  && if p_acct_err p then err && all_none nodes
     else match must with
          | [] => (negb err && all_none nodes) || (match may with [] => false | _ => true end && work)
          | _ => work
          end.

(* the controlled set after a round: the accounts of the round if it did its work *)
Definition ctrl_must_after (r : round_in) (must may : list validator) (cmust : list N) : list N :=
  if active_with r must then map v_pub must else if active_with r may then [] else cmust.
Definition ctrl_may_after (r : round_in) (must may : list validator) (cmay : list N) : list N :=
  if active_with r must then map v_pub may else if active_with r may then cmay ++ map v_pub may else cmay.

Fixpoint spec_ok (lastsig : list (N * (content * N))) (cmust cmay : list N) (eops : list eop) (outs : list out) : bool :=
  match eops, outs with
  | [], [] => true
  | EJob e wins r :: eops', OutRound err reqs relays nodes :: outs' =>
      let may := r_vals r in
      let must := if r_api r then may else spec_must e may wins in
      round_ok lastsig r must may err reqs relays nodes
      && spec_ok (note_signings lastsig reqs) (ctrl_must_after r must may cmust) (ctrl_may_after r must may cmay) eops' outs'
  | EOp (ORound r) :: eops', OutRound err reqs relays nodes :: outs' =>
      let vals := r_vals r in
      round_ok lastsig r vals vals err reqs relays nodes
      && spec_ok (note_signings lastsig reqs) (ctrl_must_after r vals vals cmust) (ctrl_may_after r vals vals cmay) eops' outs'
  | EOp (OForward f) :: eops', OutForward relays :: outs' =>
      forward_ok cmust cmay f relays && spec_ok lastsig cmust cmay eops' outs'
  | EPrep e wins p :: eops', OutPrepare err nodes :: outs' =>
      prepare_ok p (spec_must e (p_vals p) wins) (p_vals p) err nodes && spec_ok lastsig cmust cmay eops' outs'
  | EOp (OPrepare p) :: eops', OutPrepare err nodes :: outs' =>
      prepare_ok p (p_vals p) (p_vals p) err nodes && spec_ok lastsig cmust cmay eops' outs'
  | _, _ => false
  end.

Definition P_b (c : case) : bool := spec_ok [] [] [] (c_eops c) (c_outs c).

Definition mismatches (cs : list case) : list N := failing_ids c_id agree cs.
Definition violations (cs : list case) : list N := failing_ids c_id P_b cs.
