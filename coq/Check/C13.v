(* C13 correspondence: cases as printed by harness/c13. *)
From Verif Require Export Lib.Base Lib.RegexM Model.C13_Accounts Model.C13_During.
From Coq Require Export String Ascii.
Open Scope N_scope.

(* abbreviations used by the printed cases *)
Definition FF : N := 18446744073709551615.
Definition Dot : re := Cls [(0, 9); (11, 1114111)].      (* . : any character but newline *)
Definition AnyC : re := Cls [(0, 1114111)].

(* Large installations are printed by ranges: accounts k = first .. first+count-1 of one wallet,
   named prefix ++ decimal k; their validators with consecutive indices and one lifecycle; runs
   of consecutive ids / (index, id) pairs in what was offered and in what was observed.  These
   are plain list abbreviations, evaluated before anything is compared. *)
Fixpoint range_from (n : nat) (first : N) : list N :=
  match n with O => [] | S n' => first :: range_from n' (first + 1) end.
Definition range_N (first count : N) : list N := range_from (N.to_nat count) first.

Fixpoint dec_digits (fuel : nat) (n : N) (acc : string) : string :=
  match fuel with
  | O => acc
  | S f => let acc' := String (ascii_of_N (48 + n mod 10)) acc in
           if n <? 10 then acc' else dec_digits f (n / 10) acc'
  end.
Definition dec (n : N) : string := dec_digits 20 n EmptyString.

Definition range_accounts (wallet prefix : string) (first count : N) (locked : bool) : list account :=
  map (fun k => Build_account k wallet (prefix ++ dec k) locked) (range_N first count).
Definition range_vals (first count idx0 elig act exit wd : N) (slashed : bool) (bal : N) : list val :=
  map (fun k => Build_val k (idx0 + (k - first)) elig act exit wd slashed bal) (range_N first count).
Definition range_pairs (idx0 id0 count : N) : list (N * N) :=
  map (fun j => (idx0 + j, id0 + j)) (range_N 0 count).

Record case := {
  c_id : N;
  c_cfg : config;
  (* the parse oracle: every part text the managers may hand to regexp, as parsed standalone by
     Go's regexp/syntax (None: does not compile; Some l: its top-level alternatives) *)
  c_parse : list (string * option (list re));
  c_ops : list op;
  c_outs : list out;                  (* what the implementation did, operation by operation *)
  (* queries issued from inside a refresh (by the signer / store / node fakes, while the manager
     waits for them), each with what it was answered *)
  c_during : list (dquery * dobs)
}.

Definition lookup_parse (tbl : list (string * option (list re))) (s : string) : option (list re) :=
  match find (fun p => String.eqb (fst p) s) tbl with
  | Some (_, r) => r
  | None => None
  end.

Definition pair_eqb := prod_eqb N.eqb N.eqb.
Definition out_eqb (a b : out) : bool :=
  match a, b with
  | OProbe x, OProbe y => list_eqb N.eqb x y
  | OQuery x, OQuery y => list_eqb pair_eqb x y
  | OCtorErr, OCtorErr => true
  | ODead, ODead => true
  | _, _ => false
  end.

Definition agree_main (c : case) : bool :=
  list_eqb out_eqb (run (lookup_parse (c_parse c)) (c_cfg c) (c_ops c)) (c_outs c).

(* a query that landed in a refresh was answered as the model allows at that point *)
Definition pairs_eqb := list_eqb pair_eqb.
Definition during_agree (c : case) (p : dquery * dobs) : bool :=
  let allowed := during_answers (lookup_parse (c_parse c)) (c_cfg c) (c_ops c) (fst p) in
  match snd p with
  | DNone => isnil (allowed false)
  | DAnswer blocked l => memb pairs_eqb l (allowed blocked)
  end.

Definition agree (c : case) : bool :=
  agree_main c && forallb (during_agree c) (c_during c).

(* ---------------------------------------------------------------------------------------------
   The property on the OBSERVED outputs (the model is not consulted; only the string helpers, the
   matcher -- which is the semantics of "matches" -- and the node mock's answer rule are shared).

   Names.  A specifier means: wallet part / account part, each with one optional leading ^ and
   trailing $ removed, the account part defaulting to .* ; a name wallet/account is covered when
   the WHOLE name matches (wallet part)/(account part), alternatives grouped.  Because the two
   managers read corner forms differently ("W/" , anchors kept in the wallet part), the observed
   set is checked against a band:
     hi (nothing outside may be used): offered now and covered by some specifier (or in a wallet
        literally named by a wallet-only specifier: W, W/ or W/.* -- "all accounts in W", which
        dirk's short circuit extends to names with a line feed that `.` does not match);
     lo (everything inside must be used): offered now, unlockable, and covered by a plain
        specifier (no anchor characters, at most one "/", non-empty account part when there is
        a "/") whose wallet part is literally the wallet's name.
   Retention: the remote signer's list is never wiped by a refresh that yields nothing. *)
Section Spec.
  Variable parse : string -> option (list re).
  Variable cfg : config.

  Definition spec_parts (raw : string) : option (string * string * bool) :=  (* wallet, account, wallet-only *)
    match split_slash raw with
    | [] => None
    | p0 :: rest =>
        if String.eqb p0 ""%string then None else
        match rest with
        | [] => Some (strip_anchors p0, any_text, true)
        | x :: _ => if String.eqb x ""%string then Some (strip_anchors p0, any_text, true)
                    else Some (strip_anchors p0, strip_anchors x, String.eqb (strip_anchors x) any_text)
        end
    end.

  Definition covers_hi (raw : string) (a : account) : bool :=
    match spec_parts raw with
    | None => false
    | Some (w, ac, wallet_only) =>
        match parse w, parse ac with
        | Some ws, Some accs =>
            full_match (Seq (alts ws) (Seq slash (alts accs))) (codes (full_name a))
            || (wallet_only && String.eqb w (a_wallet a))
        | _, _ => false
        end
    end.

  Definition covers_lo (raw : string) (a : account) : bool :=
    negb (has_char "^"%char raw) && negb (has_char "$"%char raw) &&
    match split_slash raw with
    | [p0] | [p0; _] =>
        match spec_parts raw with
        | Some (w, ac, wallet_only) =>
            negb (wallet_only && has_char "/"%char raw) &&
            String.eqb w (a_wallet a) &&
            match parse w, parse ac with
            | Some ws, Some accs => full_match (Seq (alts ws) (Seq slash (alts accs))) (codes (full_name a))
            | _, _ => false
            end
        | None => false
        end
    | _ => false
    end.

  Definition hi_set (offered : list N) : list N :=
    map a_id (filter (fun a => mem_N (a_id a) offered && existsb (fun raw => covers_hi raw a) (c_paths cfg))
                     (c_universe cfg)).
  Definition lo_set (offered : list N) : list N :=
    map a_id (filter (fun a => mem_N (a_id a) offered && negb (a_locked a) &&
                               existsb (fun raw => covers_lo raw a) (c_paths cfg))
                     (c_universe cfg)).

  Definition subset (l1 l2 : list N) : bool := forallb (fun x => mem_N x l2) l1.

  Definition probe_ok (old : list N) (offered : list N) (l : list N) : bool :=
    let lo := lo_set offered in
    let hi := hi_set offered in
    let replaced := subset lo l && subset l hi in
    let retained := isnil lo && list_eqb N.eqb l old in
    match c_mgr cfg with
    | Dirk => (replaced && negb (isnil l && negb (isnil old))) || (retained && negb (isnil old))
    | Wallet => replaced || retained
    end.

  (* the validator set: a refresh during which the node failed (for every request, or for every
     request naming a key that is among the known accounts' keys) or answered nothing never
     replaces what is known: no validator known before it disappears *)
  Definition vals_after (old : list val) (known : list N) (vo : vout) : list val :=
    match node_reply vo known with
    | None => old
    | Some [] => old
    | Some got => got
    end.

  (* validating = active and not slashed at e; sync = activated and withdrawal not done *)
  Definition spec_validating (v : val) (e : N) : bool :=
    (v_act v <=? e) && (e <? v_exit v) && negb (v_slashed v).
  Definition spec_sync (v : val) (e : N) : bool :=
    (v_act v <=? e) &&
    negb (negb (v_exit v =? c_far cfg) && (v_exit v <=? e) && (v_wd v <=? e) && (v_bal v =? 0)).
  (* outside the theorems' hypotheses (epoch below FAR_FUTURE; slashed validators have an exit
     epoch) either answer is accepted *)
  Definition ambiguous (sync : bool) (v : val) (e : N) : bool :=
    (c_far cfg <=? e) || (negb sync && v_slashed v && (v_exit v =? c_far cfg)).

  Definition mem_pair (p : N * N) (l : list (N * N)) : bool := memb pair_eqb p l.

  Definition query_ok (known : list N) (vals : list val) (sync : bool) (e : N) (idx : option (list N))
             (obs : list (N * N)) : bool :=
    let cand := filter (fun v => mem_N (v_pk v) known &&
                                 match idx with Some l => mem_N (v_index v) l | None => true end) vals in
    let want v := if sync then spec_sync v e else spec_validating v e in
    let lo := map (fun v => (v_index v, v_pk v)) (filter (fun v => want v && negb (ambiguous sync v e)) cand) in
    let hi := map (fun v => (v_index v, v_pk v)) (filter (fun v => want v || ambiguous sync v e) cand) in
    forallb (fun p => mem_pair p obs) lo && forallb (fun p => mem_pair p hi) obs &&
    list_eqb pair_eqb (sort_by fst obs) obs &&
    (List.length obs <=? List.length hi)%nat.

  Fixpoint spec_ok (known : list N) (vals : list val) (ops : list op) (outs : list out) : bool :=
    match ops, outs with
    | [], [] => true
    | Refresh offered vo :: ops', OProbe l :: outs' =>
        probe_ok known offered l &&
        let vals' := match c_mgr cfg with
                     | Dirk => if isnil l then vals else vals_after vals l vo
                     | Wallet => vals_after vals l vo
                     end in
        spec_ok l vals' ops' outs'
    | Query sync e idx :: ops', OQuery obs :: outs' =>
        query_ok known vals sync e idx obs && spec_ok known vals ops' outs'
    | _, _ => false
    end.

  (* Queries landing in a refresh.  The (known accounts, validator store) pairs the
     specification tracks: before each operation, and after the last one. *)
  Fixpoint spec_states (known : list N) (vals : list val) (ops : list op) (outs : list out)
    : list (list N * list val) :=
    (known, vals) ::
    match ops, outs with
    | Refresh offered vo :: ops', OProbe l :: outs' =>
        let vals' := match c_mgr cfg with
                     | Dirk => if isnil l then vals else vals_after vals l vo
                     | Wallet => vals_after vals l vo
                     end in
        spec_states l vals' ops' outs'
    | Query _ _ _ :: ops', OQuery _ :: outs' => spec_states known vals ops' outs'
    | _, _ => []
    end.

  (* a query that lands in a refresh is answered from the old or the new account store and the
     old or the new validator store; one that returns only after the refresh, from the new ones *)
  Definition during_ok (ops : list op) (sts : list (list N * list val)) (p : dquery * dobs) : bool :=
    let d := fst p in
    match snd p with
    | DNone => true
    | DAnswer blocked obs =>
        match nth_error ops (dq_at d), nth_error sts (dq_at d), nth_error sts (S (dq_at d)) with
        | Some (Refresh _ _), Some (k0, v0), Some (k1, v1) =>
            let ok k v := query_ok k v (dq_sync d) (dq_epoch d) (dq_idx d) obs in
            ok k1 v1 || (negb blocked && (ok k0 v0 || ok k1 v0 || ok k0 v1))
        | _, _, _ => false
        end
    end.

  Definition during_run (ops : list op) (outs : list out) (ds : list (dquery * dobs)) : bool :=
    match outs with
    | OCtorErr :: _ => forallb (fun p => match snd p with DNone => true | _ => false end) ds
    | _ => forallb (during_ok ops (spec_states [] [] ops outs)) ds
    end.

  Definition spec_run (ops : list op) (outs : list out) : bool :=
    match outs with
    | OCtorErr :: rest =>
        match c_mgr cfg, ops with
        | Wallet, Refresh offered vo :: ops' =>
            (* the constructor may give up only if the node failed a request it may have made *)
            match vo with VErr => true | VOk _ => false | VFailOn pk _ => mem_N pk (hi_set offered) end &&
            (List.length ops' =? List.length rest)%nat && forallb (fun x => match x with ODead => true | _ => false end) rest
        | _, _ => false
        end
    | _ => spec_ok [] [] ops outs
    end.
End Spec.

Definition P_b_main (c : case) : bool :=
  spec_run (lookup_parse (c_parse c)) (c_cfg c) (c_ops c) (c_outs c).

Definition P_b (c : case) : bool :=
  P_b_main c && during_run (c_cfg c) (c_ops c) (c_outs c) (c_during c).

Definition mismatches (cs : list case) : list N := failing_ids c_id agree cs.
Definition violations (cs : list case) : list N := failing_ids c_id P_b cs.
