(* C05 correspondence: cases as printed by harness/c05. *)
From Verif Require Export Lib.Base Model.C05_Proposer.

Record case := {
  c_id : N;
  c_cfg : config;
  c_env : env;                      (* the scripted answers *)
  c_lat : lats;                     (* how long each provider takes to give its answer *)
  c_duty : duty;                    (* the duty before Prepare *)
  c_prepare : bool;                 (* Prepare was called (otherwise the duty was filled in by hand) *)
  (* observed *)
  c_prep_events : list event;       (* what Prepare asked the environment, in order *)
  c_prep_ok : bool;                 (* Prepare returned nil *)
  c_post_account : option N;        (* the account the duty carries when it is handed to Propose *)
  c_post_randao : N;                (* the RANDAO reveal it carries then *)
  c_cut : cuts;                     (* which answers the providers were seen to cut short with the context's error *)
  c_times : list N;                 (* the instant of each request of [o_events c_obs] *)
  c_live : list bool;               (* ... and whether the context it came with was still alive *)
  c_t0 : N;                         (* the instant the last of these answers was given *)
  c_obs : result;                   (* what Propose asked the environment and what it submitted; the times of
                                       the relay calls, of the submission and [o_ret] in ms after [c_t0];
                                       [o_ret]: the instant Propose returned or, if it submitted, handed the
                                       block to the submitter *)
  c_ret : N;                        (* the instant Propose returned *)
  c_sub_cut : bool                  (* the submitter was seen to cut the submission short with the context's error *)
}.

(* ------------------------------------------------------------------------------------------- *)
(* decidable equalities *)

Definition bool_eqb (a b : bool) : bool := if a then b else negb b.
Definition is_nil {A} (l : list A) : bool := match l with [] => true | _ => false end.
Definition is_some {A} (o : option A) : bool := match o with Some _ => true | None => false end.

Definition hdr_eqb (a b : hdr) : bool :=
  (h_slot a =? h_slot b) && (h_proposer a =? h_proposer b) && (h_parent a =? h_parent b)
  && (h_state a =? h_state b) && (h_body a =? h_body b).

Definition sblock_eqb (a b : sblock) : bool :=
  option_eqb hdr_eqb (sb_hdr a) (sb_hdr b) && (sb_sig a =? sb_sig b) && (sb_blobs a =? sb_blobs b).

Definition conts_eqb : list (N * sblock) -> list (N * sblock) -> bool :=
  list_eqb (prod_eqb N.eqb sblock_eqb).

Definition sproposal_eqb (a b : sproposal) : bool :=
  (sp_version a =? sp_version b) && bool_eqb (sp_blinded a) (sp_blinded b) && conts_eqb (sp_conts a) (sp_conts b).

Definition ureq_eqb (a b : ureq) : bool :=
  (u_version a =? u_version b) && conts_eqb (u_conts a) (u_conts b).

Definition npair_eqb := prod_eqb N.eqb N.eqb.

Definition event_eqb (a b : event) : bool :=
  match a, b with
  | EAccounts e l, EAccounts e' l' => (e =? e') && list_eqb N.eqb l l'
  | EDomain t e, EDomain t' e' => (t =? t') && (e =? e')
  | ESignRandao a e d, ESignRandao a' e' d' => (a =? a') && (e =? e') && npair_eqb d d'
  | EGraffiti s v, EGraffiti s' v' => (s =? s') && (v =? v')
  | EAuction s h p, EAuction s' h' p' => (s =? s') && (h =? h') && (p =? p')
  | EProposal s r g b, EProposal s' r' g' b' => (s =? s') && (r =? r') && (g =? g') && (b =? b')
  | ESignBlock a s p pa st bo d, ESignBlock a' s' p' pa' st' bo' d' =>
      (a =? a') && (s =? s') && (p =? p') && (pa =? pa') && (st =? st') && (bo =? bo') && npair_eqb d d'
  | _, _ => false
  end.

Definition events_eqb := list_eqb event_eqb.

Definition result_eqb (a b : result) : bool :=
  bool_eqb (o_panic a) (o_panic b)
  && events_eqb (o_events a) (o_events b)
  && list_eqb (list_eqb (prod_eqb N.eqb ureq_eqb)) (o_unblind a) (o_unblind b)
  && option_eqb (prod_eqb N.eqb sproposal_eqb) (o_submit a) (o_submit b)
  && (o_ret a =? o_ret b).

(* ------------------------------------------------------------------------------------------- *)
(* agree: the model run on the case's input does what the implementation was seen to do *)

(* the relay plans as the model builds them on the answers [e] (for the tie test only) *)
Definition plans_of (cf : config) (e : env) : list (list call) :=
  match auction_results e with
  | Some (winners, all) =>
      let cands := candidates cf winners all in
      plans_from (e_deadline e) cands 0 (e_relays e)
  | None => []
  end.

(* nothing is decided by Go's scheduler: no answer of a step is due at the instant the context ends, no
   other relay's call returns at the instant of the first delivery, neither that nor the last relay's
   giving up coincides with the end of the context *)
Definition tie_free_t (cf : config) (e : env) (l : lats) (m : timed) : bool :=
  let e1 := apply_cuts e (t_cuts m) (e_deadline e - t_t0 m) in
  negb (steps_tie e l)
  && (* relay goroutines: only where the model has relays asked at all *)
     (is_nil (concat (o_unblind (t_res m))) || tie_free (e_deadline e1) (plans_of cf e1))
  && match o_submit (t_res m) with
     | Some (s, _) => negb (step_tie (e_deadline e) (s + t_t0 m) (l_submit l))
     | None => true
     end.

Definition case_model (c : case) : timed :=
  propose_t (c_cfg c) (c_env c) (c_lat c) (duty_after (c_cfg c) (c_env c) (c_duty c) (c_prepare c)).

Definition case_tie_free (c : case) : bool := tie_free_t (c_cfg c) (c_env c) (c_lat c) (case_model c).

Definition timed_eqb (m : timed) (c : case) : bool :=
  result_eqb (t_res m) (c_obs c)
  && list_eqb N.eqb (t_times m) (c_times c)
  && list_eqb bool_eqb (t_live m) (c_live c)
  && (t_t0 m =? c_t0 c)
  && (t_ret m =? c_ret c)
  && bool_eqb (t_sub_cut m) (c_sub_cut c).

Definition agree (c : case) : bool :=
  let '((pevs, pok), _) := run (c_cfg c) (c_env c) (c_duty c) (c_prepare c) in
  let D := duty_after (c_cfg c) (c_env c) (c_duty c) (c_prepare c) in
  events_eqb pevs (c_prep_events c)
  && bool_eqb pok (c_prep_ok c)
  && option_eqb N.eqb (d_account D) (c_post_account c)
  && (d_randao D =? c_post_randao c)
  && (* an answer due at the very end of the context, two relay goroutines acting at one fake instant:
        Go's scheduler decides, the model does not; the generator avoids it, and such a case is left
        to P_b *)
     (negb (case_tie_free c) || timed_eqb (case_model c) c).

(* ------------------------------------------------------------------------------------------- *)
(* P_b: the property itself on the input and the OBSERVED behaviour; the model's [prepare], [propose]
   and relay time line are not consulted (only the data types and the per-version container table). *)

(* the account the accounts provider holds for the duty's validator *)
Definition provided_account (c : case) : option N :=
  match e_accounts (c_env c) with
  | AccOk m => lookup_account (d_validator (c_duty c)) m
  | AccErr => None
  end.

(* the account the duty carries into Propose: the one it had, unless Prepare got a (one-entry)
   answer from the accounts provider, which then replaces it *)
Definition duty_account (c : case) : option N :=
  if c_prepare c then
    match e_accounts (c_env c) with
    | AccOk m => if Nat.eqb (length m) 1 then lookup_account (d_validator (c_duty c)) m else d_account (c_duty c)
    | AccErr => d_account (c_duty c)
    end
  else d_account (c_duty c).

Definition duty_epoch (c : case) : N := d_slot (c_duty c) / c_spe (c_cfg c).

(* 1. RANDAO reveal and block signature are asked only for the duty's validator (its account) and slot *)
Definition randao_event_ok (c : case) (ev : event) : bool :=
  match ev with
  | ESignRandao a e d =>
      option_eqb N.eqb (Some a) (provided_account c) && (e =? duty_epoch c)
      && npair_eqb d (DOMAIN_RANDAO, duty_epoch c)
  | ESignBlock _ _ _ _ _ _ _ => false           (* Prepare signs no block *)
  | EAccounts ep l => (ep =? duty_epoch c) && list_eqb N.eqb l [d_validator (c_duty c)]
                                                (* the account is fetched for the duty's epoch and validator *)
  | EDomain t ep => (t =? DOMAIN_RANDAO) && (ep =? duty_epoch c)
  | _ => false                                  (* Prepare asks nothing else *)
  end.

Definition obtained_block (c : case) : option hdr :=
  match e_proposal (c_env c) with POk p => p_block p | PErr => None end.

(* 2. a block signature is asked only for the duty's slot and validator, over the obtained block's
      own roots, and that block is a block of the duty's slot *)
Definition block_event_ok (c : case) (ev : event) : bool :=
  match ev with
  | ESignBlock a s p pa st bo d =>
      option_eqb N.eqb (Some a) (duty_account c)
      && (s =? d_slot (c_duty c)) && (p =? d_validator (c_duty c))
      && npair_eqb d (DOMAIN_BEACON_PROPOSER, duty_epoch c)
      && match obtained_block c with
         | Some h => (h_slot h =? d_slot (c_duty c)) && (pa =? h_parent h) && (st =? h_state h) && (bo =? h_body h)
         | None => false
         end
  | ESignRandao _ _ _ => false                  (* Propose signs no RANDAO reveal *)
  | EDomain t ep => (t =? DOMAIN_BEACON_PROPOSER) && (ep =? duty_epoch c)
  | EGraffiti s v => (s =? d_slot (c_duty c)) && (v =? d_validator (c_duty c))
  | EAuction s _ pk => (s =? d_slot (c_duty c)) && option_eqb N.eqb (Some pk) (duty_account c)
  | EProposal s _ _ _ => s =? d_slot (c_duty c)
  | EAccounts _ _ => false
  end.

Definition count_events (f : event -> bool) (l : list event) : nat := length (filter f l).
Definition ev_sign_block (ev : event) : bool := match ev with ESignBlock _ _ _ _ _ _ _ => true | _ => false end.
Definition ev_sign_randao (ev : event) : bool := match ev with ESignRandao _ _ _ => true | _ => false end.
Definition ev_proposal (ev : event) : bool := match ev with EProposal _ _ _ _ => true | _ => false end.

(* the signed block vouch must hold once the signer answered: the obtained block, that signature *)
Definition expected_signed (c : case) : option sproposal :=
  match e_proposal (c_env c), e_sig_block (c_env c) with
  | POk p, Some sig =>
      match p_block p, signed_container (p_version p) (p_blinded p) with
      | Some h, Some code =>
          Some {| sp_version := p_version p; sp_blinded := p_blinded p;
                  sp_conts := [(code, {| sb_hdr := Some h; sb_sig := sig; sb_blobs := signed_blobs p |})] |}
      | _, _ => None
      end
  | _, _ => None
  end.

Definition proposal_blinded (c : case) : bool :=
  match e_proposal (c_env c) with POk p => p_blinded p | PErr => false end.

(* the answer the k-th call to a relay gets (the mock's rule) *)
Definition scripted (r : relay) (k : nat) : uout :=
  match nth_error (r_script r) k with Some (_, o) => o | None => UErr end.
Definition scripted_lat (r : relay) (k : nat) : N :=
  match nth_error (r_script r) k with Some (l, _) => l | None => 0 end.

Fixpoint indexed {A} (i : nat) (l : list A) : list (nat * A) :=
  match l with [] => [] | x :: l' => (i, x) :: indexed (S i) l' end.

(* the relays vouch may ask: those that returned the winning bid, or all of them *)
Definition allowed_relays (c : case) : list nat :=
  match e_auction (c_env c) with
  | AOk winners all => if Nat.eqb (length winners) 0 || c_unblind_all (c_cfg c) then all else winners
  | _ => []
  end.

(* 4. every relay request is precisely the signed blinded block; only allowed relays are asked, at
      most three times each *)
Definition unblind_calls_ok (c : case) : bool :=
  let obs := c_obs c in
  Nat.eqb (length (o_unblind obs)) (length (e_relays (c_env c)))
  && forallb (fun ic =>
       let '(i, calls) := ic in
       is_nil calls
       || (existsb (Nat.eqb i) (allowed_relays c)
           && match nth_error (e_relays (c_env c)) i with Some r => r_can r | None => false end
           && Nat.leb (length calls) 3
           && proposal_blinded c
           && Nat.eqb (count_events ev_sign_block (o_events obs)) 1
           && match expected_signed c with
              | Some sp =>
                  (* every call, also a retry made after the submission (the requests are built
                     before the relay goroutines start) *)
                  forallb (fun call => ureq_eqb (snd call) (unblind_request sp)) calls
              | None => false
              end))
     (indexed 0 (o_unblind obs)).

(* a call that was made, answered with a full block no later than [t] *)
Definition delivered_by (c : case) (t : N) (b : sblock) : bool :=
  existsb (fun ic =>
    let '(i, calls) := ic in
    match nth_error (e_relays (c_env c)) i with
    | None => false
    | Some r =>
        existsb (fun kc =>
          let '(k, call) := kc in
          match response (snd call) (scripted r k) with
          | Some b' => sblock_eqb b b' && (fst call + scripted_lat r k <=? t)
          | None => false
          end) (indexed 0 calls)
    end) (indexed 0 (o_unblind (c_obs c))).

(* 3 / 4. what is submitted *)
Definition submit_ok (c : case) : bool :=
  match o_submit (c_obs c) with
  | None => true
  | Some (t, sp) =>
      Nat.eqb (count_events ev_sign_block (o_events (c_obs c))) 1
      && match expected_signed c with
         | None => false
         | Some signed =>
             if proposal_blinded c then
               (* the full block returned by a relay that was sent the signed blinded block *)
               (sp_version sp =? sp_version signed) && negb (sp_blinded sp)
               && match sp_conts sp, full_container (sp_version signed) with
                  | [(code, b)], Some fc => (code =? fc) && delivered_by c t b
                  | _, _ => false
                  end
             else
               (* exactly the obtained block with the signature the signer gave *)
               sproposal_eqb sp signed && is_nil (concat (o_unblind (c_obs c)))
         end
  end.

(* 5. nothing is submitted if no relay returns a block *)
Definition some_call_answered (c : case) : bool :=
  existsb (fun ic =>
    let '(i, calls) := ic in
    match nth_error (e_relays (c_env c)) i with
    | None => false
    | Some r => existsb (fun kc => is_ok (scripted r (fst kc))) (indexed 0 calls)
    end) (indexed 0 (o_unblind (c_obs c))).

Definition no_relay_no_submit_b (c : case) : bool :=
  negb (proposal_blinded c) || some_call_answered c || negb (is_some (o_submit (c_obs c))).

(* 5b. ... and a full block that a relay DID return in time is submitted, without waiting for the other
       relays: for every call that was seen made and whose scripted answer is a full block handed back
       at [f], before the end of the context, something is submitted no later than [f] -- whatever the
       other relays are doing then (still inside their call, hanging until the context ends, failing,
       slow to give up).  With 4 (what is submitted was delivered by then) the submission is the
       earliest full block, at the instant it came back.
       No exception for another relay's call returning without a block at the very instant [f]: a
       relay that has a block always hands it over (before the repair of unblindProposal every
       returning call probed a semaphore with TryAcquire/Release, and the call that brought the
       block could find it held by the other's probe and leave without handing the block over:
       about 1 run in 2500-6000 of corpus/C05/block_and_failure_return_together.json). *)
Definition call_returns (deadline : N) (r : relay) (k : nat) (st : N) : N :=
  match scripted r k with
  | UHang => N.max st deadline + scripted_lat r k
  | _ => st + scripted_lat r k
  end.

(* every call seen made: (the instant it returned, its answer was a full block) *)
Definition returned_calls (c : case) : list (N * bool) :=
  flat_map (fun ic : nat * list (N * ureq) =>
    let '(i, calls) := ic in
    match nth_error (e_relays (c_env c)) i with
    | None => []
    | Some r => map (fun kc : nat * (N * ureq) =>
                       (call_returns (e_deadline (c_env c)) r (fst kc) (fst (snd kc)), is_ok (scripted r (fst kc))))
                    (indexed 0 calls)
    end) (indexed 0 (o_unblind (c_obs c))).

Definition submitted_by (c : case) (f : N) : bool :=
  match o_submit (c_obs c) with Some (t, _) => t <=? f | None => false end.

Definition unblinds_to (c : case) : bool :=
  match e_proposal (c_env c) with
  | POk p => p_blinded p && is_some (full_container (p_version p))
  | PErr => false
  end.

Definition first_block_submitted (c : case) : bool :=
  negb (unblinds_to c)
  || forallb (fun fb : N * bool =>
       let '(f, ok) := fb in
       negb ok || negb (f <? e_deadline (c_env c)) || submitted_by c f)
     (returned_calls c).

(* 1b. a duty whose Prepare succeeded carries, when it is handed to Propose, the account the provider
       holds for ITS validator and the reveal that account gave when asked for ITS epoch -- whatever
       other duties the same service handled before or in between *)
Definition prepared_duty_own (c : case) : bool :=
  negb (c_prepare c && c_prep_ok c)
  || (is_some (c_post_account c)
      && option_eqb N.eqb (c_post_account c) (provided_account c)
      && option_eqb N.eqb (Some (c_post_randao c)) (e_sig_randao (c_env c))).

(* the RANDAO reveal the duty carries into Propose: the one it had, unless Prepare succeeded *)
Definition randao_of (c : case) : N :=
  if c_prepare c && c_prep_ok c
  then match e_sig_randao (c_env c) with Some s => s | None => 0 end
  else d_randao (c_duty c).

(* the duty as Propose sees it is complete *)
Definition duty_ready (c : case) : bool := is_some (duty_account c).

(* 6. graffiti and auction failures do not skip the proposal: the beacon node is asked for a block
      of the duty's slot, with the graffiti obtained or none; and a good local block is signed and
      submitted whatever graffiti lookup and auction did *)
Definition degrades_ok (c : case) : bool :=
  let evs := o_events (c_obs c) in
  negb (duty_ready c && negb (randao_of c =? 0))
  || (existsb (event_eqb (EProposal (d_slot (c_duty c)) (randao_of c) (graffiti_value (c_env c)) (c_boost (c_cfg c)))) evs
      && Nat.eqb (count_events ev_proposal evs) 1
      && match e_proposal (c_env c) with
         | POk p =>
             negb (negb (p_blinded p) && known_version (p_version p) && p_body_present p
                   && match p_block p with Some h => h_slot h =? d_slot (c_duty c) | None => false end
                   && e_dom_block (c_env c) && match e_sig_block (c_env c) with Some _ => true | None => false end)
             || match o_submit (c_obs c) with Some _ => true | None => false end
         | PErr => true
         end).

(* 7. a proposal for another slot (or none at all) is refused before anything is signed *)
Definition other_slot_refused (c : case) : bool :=
  match obtained_block c with
  | Some h => (h_slot h =? d_slot (c_duty c))
  | None => false
  end
  || (Nat.eqb (count_events ev_sign_block (o_events (c_obs c))) 0
      && is_nil (concat (o_unblind (c_obs c)))
      && match o_submit (c_obs c) with None => true | Some _ => false end).

(* an incomplete duty asks nothing of anybody *)
Definition unready_silent (c : case) : bool :=
  (duty_ready c && negb (randao_of c =? 0))
  || (is_nil (o_events (c_obs c)) && is_nil (concat (o_unblind (c_obs c)))
      && match o_submit (c_obs c) with None => true | Some _ => false end).

Definition P_core (c : case) : bool :=
  negb (o_panic (c_obs c))
  && forallb (randao_event_ok c) (c_prep_events c)
  && Nat.leb (count_events ev_sign_randao (c_prep_events c)) 1
  && forallb (block_event_ok c) (o_events (c_obs c))
  && Nat.leb (count_events ev_sign_block (o_events (c_obs c))) 1
  && unblind_calls_ok c
  && submit_ok c
  && no_relay_no_submit_b c
  && degrades_ok c
  && other_slot_refused c
  && unready_silent c
  && prepared_duty_own c
  && first_block_submitted c.

(* ------------------------------------------------------------------------------------------- *)
(* Time.  The clauses above are evaluated on the answers the providers were SEEN to give ([actual]: a
   scripted answer that the provider cut short with the context's error is that error), and with the
   relay calls and the submission timed from the instant the last sequential answer was given. *)
Definition actual (c : case) : case :=
  {| c_id := c_id c; c_cfg := c_cfg c;
     c_env := apply_cuts (c_env c) (c_cut c) (e_deadline (c_env c) - c_t0 c);
     c_lat := zero_lats; c_duty := c_duty c; c_prepare := c_prepare c;
     c_prep_events := c_prep_events c; c_prep_ok := c_prep_ok c;
     c_post_account := c_post_account c; c_post_randao := c_post_randao c;
     c_cut := no_cuts; c_times := []; c_live := []; c_t0 := 0;
     c_obs := c_obs c; c_ret := 0; c_sub_cut := false |}.

(* 6b. every request Propose makes before the deadline of the context it was given comes with a context
       that is still alive: a step that failed or was slow (graffiti lookup, auction) takes nothing but
       its own time from the steps after it *)
Fixpoint live_ok (D : N) (ts : list N) (lv : list bool) : bool :=
  match ts, lv with
  | t :: ts', b :: lv' => (negb (t <? D) || b) && live_ok D ts' lv'
  | [], [] => true
  | _, _ => false
  end.

(* 6c. when the scripted time line up to the signature fits into the context Propose was given, the
       beacon node, the domain provider and the account are left the time to give their answers --
       however long the graffiti provider and the auctioneer took, and whether or not they were left
       theirs: slow graffiti or a slow auction degrades, it does not skip the proposal *)
Definition in_budget_not_cut (c : case) : bool :=
  negb (budget (c_env c) (c_lat c) <? e_deadline (c_env c))
  || negb (x_proposal (c_cut c) || x_domain (c_cut c) || x_sign (c_cut c)).

(* 6d. and the submitter is left the time the context has: a block handed to it at [s] whose
       submission takes [l_submit] is cut short only if that is past the deadline *)
Definition submit_not_cut (c : case) : bool :=
  match o_submit (c_obs c) with
  | Some (s, _) => negb (c_sub_cut c) || negb (s + c_t0 c + l_submit (c_lat c) <? e_deadline (c_env c))
  | None => negb (c_sub_cut c)
  end.

Definition P_b (c : case) : bool :=
  P_core (actual c)
  && live_ok (e_deadline (c_env c)) (c_times c) (c_live c)
  && Nat.eqb (length (c_times c)) (length (o_events (c_obs c)))
  && in_budget_not_cut c
  && submit_not_cut c.

Definition mismatches (cs : list case) : list N := failing_ids c_id agree cs.
Definition violations (cs : list case) : list N := failing_ids c_id P_b cs.
