(* C03 correspondence: cases as printed by harness/c03. *)
From Verif Require Export Lib.Base Model.C03_ChainTime Model.C03_Controller Model.C03_Spec Model.C03_Delay.
Open Scope N_scope.

(* The altairDetails shadowing defect was repaired in the repository ("fix:" commit); the model is
   instantiated without it.  (With [true] the model reproduces the pinned tree.) *)
Definition shadowed : bool := false.

(* ------------------------------------------------------------------------------------------- *)
(* Chain-time cases: what the real chaintime service answered. *)
Record tprobe := {
  tp_now : Z; tp_slot : N; tp_epoch : N;          (* time.Now(), CurrentSlot(), CurrentEpoch() *)
  tp_start : Z; tp_next : Z;                      (* StartOfSlot(slot), StartOfSlot(slot+1) *)
  tp_slot_epoch : N;                              (* SlotToEpoch(slot) *)
  tp_first : N; tp_first_next : N;                (* FirstSlotOfEpoch(epoch), FirstSlotOfEpoch(epoch+1) *)
  tp_epoch_start : Z                              (* StartOfEpoch(epoch) *)
}.
Record tslot := { ts_slot : N; ts_start : Z; ts_epoch : N }.
Record tepoch := { te_epoch : N; te_start : Z; te_first : N; te_genesis : Z }.

Inductive body :=
| BTime (p : ctparams) (probes : list tprobe) (slots : list tslot) (epochs : list tepoch)
| BSecs (samples : list (Z * Z))
| BHist (c : config) (init : option (bool * N)) (ops : list op) (snaps : list (option table))
        (att_log prop_log : list (N * payload)) (reorg : N * N * N) (wf : bool)
| BMerge (ds : list fduty) (out : option (list mduty))
(* a history in which the node answers some duties requests late (Model/C03_Delay.v): every op with
   the delay (if any) of one of its requests; observed besides the tables: the chain time's
   current slot after each op, and for each op the jobs the scheduler accepted, each with the
   current slot at that moment *)
| BHistD (c : config) (init : option (bool * N)) (dops : list dop) (snaps : list (option table))
         (clocks : list N) (setups : list (list (jname * N)))
         (att_log prop_log : list (N * payload)) (reorg : N * N * N).

Record case := { c_id : N; c_body : body }.

(* ------------------------------------------------------------------------------------------- *)
(* equality tests *)
Definition triple_eqb (a b : N * N * N) : bool :=
  let '(a1, a2, a3) := a in let '(b1, b2, b3) := b in (a1 =? b1) && (a2 =? b2) && (a3 =? b3).
Definition pay_eqb := list_eqb triple_eqb.
Definition job_eqb (a b : job) : bool :=
  jname_eqb (j_name a) (j_name b) && (j_time a =? j_time b)%Z && pay_eqb (j_pay a) (j_pay b).
(* a proposal job carries ONE of the slot's candidates (goroutine race when a node names two) *)
Definition job_matches (model obs : job) : bool :=
  jname_eqb (j_name model) (j_name obs) && (j_time model =? j_time obs)%Z &&
  match j_name model, j_pay obs with
  | JProp _, [v] => memb triple_eqb v (j_pay model)
  | JProp _, _ => false
  | _, _ => pay_eqb (j_pay model) (j_pay obs)
  end.

Definition jname_key (n : jname) : N :=
  match n with
  | JAtt s => s | JProp s => two64 + s | JEarly s => 2 * two64 + s | JPrep e => 3 * two64 + e | JSync s => 4 * two64 + s
  end.
Definition canon (t : table) : table := sort_by (fun j => jname_key (j_name j)) t.

Fixpoint list_match {A B} (f : A -> B -> bool) (l1 : list A) (l2 : list B) : bool :=
  match l1, l2 with
  | [], [] => true
  | x :: l1', y :: l2' => f x y && list_match f l1' l2'
  | _, _ => false
  end.

Definition log_matches (is_prop : bool) (model obs : N * payload) : bool :=
  (fst model =? fst obs) &&
  if is_prop then match snd obs with [v] => memb triple_eqb v (snd model) | _ => false end
  else pay_eqb (snd model) (snd obs).

(* observed snapshots: None = unchanged since the previous op *)
Fixpoint expand (prev : table) (snaps : list (option table)) : list table :=
  match snaps with
  | [] => []
  | None :: r => prev :: expand prev r
  | Some t :: r => t :: expand t r
  end.

(* ------------------------------------------------------------------------------------------- *)
(* agree: the model predicts everything that was observed. *)

Definition agree_time (p : ctparams) (probes : list tprobe) (slots : list tslot) (epochs : list tepoch) : bool :=
  forallb (fun pr =>
    (current_slot p (tp_now pr) =? tp_slot pr) && (current_epoch p (tp_now pr) =? tp_epoch pr) &&
    (start_of_slot p (tp_slot pr) =? tp_start pr)%Z && (start_of_slot p (add64 (tp_slot pr) 1) =? tp_next pr)%Z &&
    (slot_to_epoch p (tp_slot pr) =? tp_slot_epoch pr) &&
    (first_slot_of_epoch p (tp_epoch pr) =? tp_first pr) &&
    (first_slot_of_epoch p (add64 (tp_epoch pr) 1) =? tp_first_next pr) &&
    (start_of_epoch p (tp_epoch pr) =? tp_epoch_start pr)%Z) probes &&
  forallb (fun s => (start_of_slot p (ts_slot s) =? ts_start s)%Z && (slot_to_epoch p (ts_slot s) =? ts_epoch s)) slots &&
  forallb (fun e => (start_of_epoch p (te_epoch e) =? te_start e)%Z && (first_slot_of_epoch p (te_epoch e) =? te_first e) &&
                    (ct_genesis p =? te_genesis e)%Z) epochs.

Definition mduty_eqb (a b : mduty) : bool :=
  (md_slot a =? md_slot b) && (md_cas a =? md_cas b) && list_eqb N.eqb (md_vals a) (md_vals b) &&
  list_eqb N.eqb (md_comms a) (md_comms b) && list_eqb N.eqb (md_vcis a) (md_vcis b).

(* committee sizes are compared through the lookup the attester uses (CommitteeSize) *)
Definition clens_agree (model : mduty) (obs : mduty) : bool :=
  forallb (fun kv => option_eqb N.eqb (clen_lookup (md_clens model) (fst kv)) (Some (snd kv))) (md_clens obs).

Definition init_of (c : config) (init : option (bool * N)) : state :=
  match init with
  | Some (h, ae) => init_state h ae
  | None => init_state false 0
  end.

Definition agree_hist (c : config) (init : option (bool * N)) (ops : list op) (snaps : list (option table))
           (att_log prop_log : list (N * payload)) (reorg : N * N * N) : bool :=
  let sts := trace shadowed c (init_of c init) ops in
  let final := run shadowed c (init_of c init) ops in
  list_match (fun st obs => list_match job_matches (canon (st_jobs st)) (canon obs)) sts (expand [] snaps) &&
  list_match (log_matches false) (st_att_log final) att_log &&
  list_match (log_matches true) (st_prop_log final) prop_log &&
  let '(le, pr, cr) := reorg in
  (st_last_epoch final =? le) && (st_prev_root final =? pr) && (st_cur_root final =? cr).

Definition agree_hist_d (c : config) (init : option (bool * N)) (dops : list dop) (snaps : list (option table))
           (clocks : list N) (att_log prop_log : list (N * payload)) (reorg : N * N * N) : bool :=
  let sts := trace_d shadowed c (init_of c init) dops in
  let final := run_d shadowed c (init_of c init) dops in
  list_match (fun st obs => list_match job_matches (canon (st_jobs st)) (canon obs)) sts (expand [] snaps) &&
  list_eqb N.eqb (map st_cur sts) clocks &&
  list_match (log_matches false) (st_att_log final) att_log &&
  list_match (log_matches true) (st_prop_log final) prop_log &&
  let '(le, pr, cr) := reorg in
  (st_last_epoch final =? le) && (st_prev_root final =? pr) && (st_cur_root final =? cr).

Definition agree (cs : case) : bool :=
  match c_body cs with
  | BHistD c init dops snaps clocks _ al pl reorg => agree_hist_d c init dops snaps clocks al pl reorg
  | BTime p probes slots epochs => agree_time p probes slots epochs
  | BSecs samples => forallb (fun s => (seconds_f64_trunc (fst s) =? snd s)%Z) samples
  | BHist c init ops snaps al pl reorg wf =>
      agree_hist c init ops snaps al pl reorg &&
      (* a history the harness declares well-formed lies inside the discipline of the
         "no slot twice" theorem (Model/C03_Spec.v hist_ok_b), so that the theorem speaks about it *)
      (if wf then (0 <? ct_spe (c_ct c)) && bounded_b c 0 && hist_ok_b shadowed c 0 (init_of c init) ops else true)
  | BMerge ds (Some out) =>
      list_match (fun m o => mduty_eqb m o && clens_agree m o) (merge_duties ds) out
  | BMerge ds None => false
  end.

(* ------------------------------------------------------------------------------------------- *)
(* P_b: the property evaluated on the observed outputs alone. *)

(* Chain time.  Inside the domain of the theorems (whole-second slots, no int64/uint64 overflow at
   the probed slot) the observed conversions must agree with one another. *)
Definition whole_secs (p : ctparams) : bool :=
  (0 <? ct_dur p)%Z && (ct_dur p mod ns_per_s =? 0)%Z && (0 <? ct_spe p).

Definition in_range (p : ctparams) (slot : N) : bool :=
  ((Z.of_N slot + 2) * ct_dur p <? two63z)%Z && ((slot / ct_spe p + 2) * ct_spe p <? two64) &&
  (Z.to_N (ct_dur p / ns_per_s) * ct_spe p <? two64).

Definition P_time (p : ctparams) (probes : list tprobe) (slots : list tslot) (epochs : list tepoch) : bool :=
  if negb (whole_secs p) then true else
  forallb (fun pr =>
    if negb (in_range p (tp_slot pr)) then true else
    (* now lies in the slot reported (or before genesis, slot and epoch 0) *)
    (if (tp_now pr <? ct_genesis p)%Z then (tp_slot pr =? 0) && (tp_epoch pr =? 0)
     else (tp_start pr <=? tp_now pr)%Z && (tp_now pr <? tp_next pr)%Z) &&
    (* a slot lasts the slot duration; slot 0 starts at genesis *)
    (tp_next pr - tp_start pr =? ct_dur p)%Z &&
    (tp_start pr =? ct_genesis p + Z.of_N (tp_slot pr) * ct_dur p)%Z &&
    (* the current epoch is the epoch of the current slot, and contains it *)
    (tp_epoch pr =? tp_slot_epoch pr) &&
    (tp_first pr <=? tp_slot pr) && (tp_slot pr <? tp_first_next pr) &&
    (tp_first_next pr - tp_first pr =? ct_spe p) &&
    (* the epoch starts when its first slot starts *)
    (tp_epoch_start pr =? ct_genesis p + Z.of_N (tp_first pr) * ct_dur p)%Z) probes &&
  forallb (fun s =>
    if negb (in_range p (ts_slot s)) then true else
    (ts_start s =? ct_genesis p + Z.of_N (ts_slot s) * ct_dur p)%Z &&
    (ts_epoch s * ct_spe p <=? ts_slot s) && (ts_slot s <? (ts_epoch s + 1) * ct_spe p)) slots &&
  forallb (fun e =>
    if negb (in_range p (te_epoch e * ct_spe p)) || negb (te_epoch e <? two64 / ct_spe p - 2) then true else
    (te_first e =? te_epoch e * ct_spe p) &&
    (te_start e =? ct_genesis p + Z.of_N (te_first e) * ct_dur p)%Z) epochs.

(* MergeDuties: parallel arrays of equal length, one duty per slot, slots ascending, every input
   duty present exactly as often as given, every committee has a size. *)
Definition count_in (d : fduty) (ds : list fduty) : nat :=
  length (filter (fun x => (fd_slot x =? fd_slot d) && (fd_val x =? fd_val d) && (fd_comm x =? fd_comm d) && (fd_vci x =? fd_vci d)) ds).
Fixpoint zip3 (a b c : list N) : list (N * N * N) :=
  match a, b, c with
  | x :: a', y :: b', z :: c' => (x, y, z) :: zip3 a' b' c'
  | _, _, _ => []
  end.
Definition count_out (d : fduty) (out : list mduty) : nat :=
  fold_right (fun m acc =>
    Nat.add (if (md_slot m =? fd_slot d)%N
     then length (filter (fun t => triple_eqb t (fd_val d, fd_comm d, fd_vci d)) (zip3 (md_vals m) (md_comms m) (md_vcis m)))
     else 0%nat) acc) 0%nat out.
Fixpoint ascending (l : list N) : bool :=
  match l with
  | x :: ((y :: _) as l') => (x <? y) && ascending l'
  | _ => true
  end.
Definition P_merge (ds : list fduty) (out : list mduty) : bool :=
  forallb (fun m => (length (md_vals m) =? length (md_comms m))%nat && (length (md_vals m) =? length (md_vcis m))%nat &&
                    negb (length (md_vals m) =? 0)%nat &&
                    forallb (fun cm => match clen_lookup (md_clens m) cm with Some _ => true | None => false end) (md_comms m)) out &&
  ascending (map md_slot out) &&
  forallb (fun d => (count_in d ds =? count_out d out)%nat) ds &&
  (fold_right (fun m acc => Nat.add (length (md_vals m)) acc) 0%nat out =? length ds)%nat.

(* ------------------------------------------------------------------------------------------- *)
(* Controller histories.  The predicate walks the observed job tables, op by op, with its own
   small tracker of the environment (clock, node's duties, last head event, ticks); it never
   consults the model's step function. *)

Section PHist.
  Variable c : config.
  Let p := c_ct c.
  Let spe := ct_spe p.

  Definition ep_of (slot : N) : N := slot / spe.
  Definition slot_start (slot : N) : Z := (ct_genesis p + Z.of_N slot * ct_dur p)%Z.

  (* every job is timed at its slot's start plus the configured delay *)
  Definition time_ok (cur : N) (j : job) : bool :=
    match j_name j with
    | JAtt s => (j_time j =? slot_start s + c_att_delay c)%Z
    | JProp s => (j_time j =? slot_start s + c_prop_delay c)%Z
    | JEarly s => (j_time j =? slot_start s)%Z && (0 <? c_prop_delay c)%Z
    | JPrep e => (* half-way through the previous epoch plus half a slot, whole seconds *)
        (j_time j =? slot_start ((e - 1) * spe) + (((Z.of_N spe + 1) * ct_dur p) / (2 * ns_per_s)) * ns_per_s)%Z
    | JSync s => (j_time j =? slot_start s - (ct_dur p * 3) / 2)%Z
    end.

  Inductive kind := KAtt | KProp.
  Definition kind_eqb (a b : kind) := match a, b with KAtt, KAtt | KProp, KProp => true | _, _ => false end.

  (* what an op is entitled to touch: (kind, epoch, refresh?, notCurrentSlot) *)
  Definition touch := (kind * N * bool * bool)%type.

  Definition job_class (j : job) : option (kind * N) :=
    match j_name j with
    | JAtt s => Some (KAtt, ep_of s)
    | JProp s | JEarly s => Some (KProp, ep_of s)
    | _ => None
    end.
  Definition job_slot (j : job) : N :=
    match j_name j with JAtt s | JProp s | JEarly s | JSync s => s | JPrep e => e end.

  Definition find_touch (ts : list touch) (k : kind) (e : N) : option touch :=
    find (fun t => let '(k', e', _, _) := t in kind_eqb k k' && (e =? e')) ts.

  (* the duties of the current view for a slot of epoch e, in canonical order *)
  Definition exp_att (e_ : env) (e slot : N) : payload :=
    if negb (e_vals e_) then [] else
    sort_by triple_key
      (map (fun d => (ad_val d, ad_comm d, ad_vci d))
           (filter (fun d => (ad_slot d =? slot) && (ep_of (ad_slot d) =? e)) (alookup (e_att e_) e))).
  Definition exp_prop (e_ : env) (e slot : N) : payload :=
    if negb (e_vals e_) then [] else
    map (fun d => (pd_val d, 0, 0))
        (filter (fun d => (pd_slot d =? slot) && (ep_of (pd_slot d) =? e)) (alookup (e_prop e_) e)).

  (* a job that the op created (or re-created) is for a duty of the requested epoch that has not
     passed, and covers exactly the validators with that duty *)
  Definition fresh_ok (e_ : env) (cur : N) (notcur : bool) (j : job) : bool :=
    match j_name j with
    | JAtt s => negb (s <? cur) && negb ((s =? cur) && notcur) &&
                negb (match exp_att e_ (ep_of s) s with [] => true | _ => false end) &&
                pay_eqb (j_pay j) (exp_att e_ (ep_of s) s)
    | JProp s => negb (s <? cur) && negb ((s =? cur) && notcur) &&
                 match j_pay j with [v] => memb triple_eqb v (exp_prop e_ (ep_of s) s) | _ => false end
    | JEarly s => negb (s <? cur) && negb ((s =? cur) && notcur) &&
                  negb (match exp_prop e_ (ep_of s) s with [] => true | _ => false end)
    | _ => true
    end.

  Definition same_job (B : table) (j : job) : bool :=
    match tget B (j_name j) with Some j' => job_eqb j j' | None => false end.

  (* removals an op may cause besides refreshes *)
  Definition may_remove (o : op) (cur : N) (n : jname) : bool :=
    match o with
    | Fire m h => jname_eqb m n ||
                  match m, n with JEarly s, JProp s' => (s =? s') && (h =? s - 1) | _, _ => false end
    | Head s _ _ => c_ft_att c && (s =? cur) && jname_eqb n (JAtt s)
    | _ => false
    end.

  (* [curf k e]: the current slot when the duties of class (k, e) were obtained, i.e. when their jobs
     are set up ([cur] itself unless the node answered that request late) *)
  Definition step_ok_g (o : op) (e_ : env) (cur : N) (curf : kind -> N -> N) (ts : list touch) (B A : table) : bool :=
    (* every job has the right time *)
    forallb (time_ok cur) A &&
    (* attestation / proposal jobs after the op *)
    forallb (fun j =>
      match job_class j with
      | None => true
      | Some (k, e) =>
          match find_touch ts k e with
          | None => same_job B j                       (* untouched class: nothing new, nothing changed *)
          | Some (_, _, refresh, notcur) =>
              if refresh then fresh_ok e_ (curf k e) notcur j
              else same_job B j || (negb (texists B (j_name j)) && fresh_ok e_ (curf k e) notcur j)
          end
      end) A &&
    (* jobs that disappeared *)
    forallb (fun j =>
      texists A (j_name j) ||
      match job_class j with
      | None => match o with Fire m _ => jname_eqb m (j_name j) | RefreshSync _ | Head _ _ _ => true | _ => false end
      | Some (k, e) =>
          may_remove o cur (j_name j) ||
          match find_touch ts k e with Some (_, _, true, _) => true | _ => false end
      end) B &&
    (* completeness: every duty of a touched epoch that has not passed has its job, covering the validator *)
    forallb (fun t =>
      let '(k, e, refresh, notcur) := t in
      if negb (e_vals e_) then true else
      match k with
      | KAtt =>
          forallb (fun d =>
            let s := ad_slot d in
            if (ep_of s =? e) && negb (s <? curf k e) && negb ((s =? curf k e) && notcur) then
              match tget A (JAtt s) with
              | Some j => same_job B j || memb triple_eqb (ad_val d, ad_comm d, ad_vci d) (j_pay j)
              | None => may_remove o cur (JAtt s)     (* refreshed and fast-tracked by the same head event *)
              end
            else true) (alookup (e_att e_) e)
      | KProp =>
          forallb (fun d =>
            let s := pd_slot d in
            if (ep_of s =? e) && negb (s <? curf k e) && negb ((s =? curf k e) && notcur) then
              texists A (JProp s) && (texists A (JEarly s) || negb (0 <? c_prop_delay c)%Z)
            else true) (alookup (e_prop e_) e)
      end) ts.

  Definition step_ok (o : op) (e_ : env) (cur : N) (ts : list touch) (B A : table) : bool :=
    step_ok_g o e_ cur (fun _ _ => cur) ts B A.

  (* the tracker *)
  Record tracker := {
    k_cur : N; k_env : env;
    k_started : bool;                 (* a controller exists *)
    k_last : N; k_prev : N; k_croot : N;   (* epoch and roots of the last head event for the current slot *)
    k_ticked : list N;                (* epochs the ticker has run for since the last start *)
    k_start_ep : N;                   (* the epoch of the last start *)
    k_envs : list env;                (* every view of the node since the last start (the one at the start included) *)
    k_fired : list N;                 (* slots whose sync committee preparation job was run since the last start *)
    k_mono : bool                     (* the clock never went backwards *)
  }.

  (* refresh of attestations of [e] happens unless the epoch is still waiting for its preparation *)
  Definition att_refresh_touch (B : table) (cur e : N) : list touch :=
    if texists B (JPrep e) then []
    else [(KAtt, e, true, negb ((ep_of cur =? e) && texists B (JAtt cur)))].

  (* the rule of checkEventForReorg, restated: compare with the previous event *)
  Definition head_touches (k : tracker) (B : table) (slot prev croot : N) : list touch :=
    let cur := k_cur k in
    let e := ep_of slot in
    if negb (slot =? cur) then [] else
    if k_last k =? 0 then [] else
    if k_last k <? e then
      if negb (k_prev k =? 0) && negb (k_croot k =? prev) then att_refresh_touch B cur e else []
    else
      (if negb (k_prev k =? 0) && negb (k_prev k =? prev) then att_refresh_touch B cur e else []) ++
      (if negb (k_croot k =? 0) && negb (k_croot k =? croot)
       then (KProp, e, true, true) :: att_refresh_touch B cur (e + 1) else []).

  Definition touches (k : tracker) (o : op) (B : table) : list touch :=
    let cur := k_cur k in
    let e := ep_of cur in
    match o with
    | Start => [(KProp, e, false, true); (KAtt, e, false, true); (KAtt, e + 1, false, true)]
    | Tick => if memb N.eqb e (k_ticked k) then [] else [(KProp, e, false, false)]
    | Head s pr cr => head_touches k B s pr cr
    | Fire (JPrep ep) _ => if texists B (JPrep ep) then [(KAtt, ep, false, false)] else []
    | SchedAtt ep nc => [(KAtt, ep, false, nc)]
    | SchedProp ep nc => [(KProp, ep, false, nc)]
    | RefreshAtt ep => att_refresh_touch B cur ep
    | RefreshProp ep => [(KProp, ep, true, true)]
    | _ => []
    end.

  Definition track (k : tracker) (o : op) : tracker :=
    match o with
    | Advance s => {| k_cur := s; k_env := k_env k; k_started := k_started k; k_last := k_last k; k_prev := k_prev k; k_croot := k_croot k; k_ticked := k_ticked k;
                      k_start_ep := k_start_ep k; k_envs := k_envs k; k_fired := k_fired k; k_mono := k_mono k && (k_cur k <=? s) |}
    | SetEnv e' => {| k_cur := k_cur k; k_env := e'; k_started := k_started k; k_last := k_last k; k_prev := k_prev k; k_croot := k_croot k; k_ticked := k_ticked k;
                      k_start_ep := k_start_ep k; k_envs := e' :: k_envs k; k_fired := k_fired k; k_mono := k_mono k |}
    | Start => {| k_cur := k_cur k; k_env := k_env k; k_started := true; k_last := 0; k_prev := 0; k_croot := 0; k_ticked := [];
                  k_start_ep := ep_of (k_cur k); k_envs := [k_env k]; k_fired := []; k_mono := true |}
    | Tick => {| k_cur := k_cur k; k_env := k_env k; k_started := k_started k; k_last := k_last k; k_prev := k_prev k; k_croot := k_croot k;
                 k_ticked := ep_of (k_cur k) :: k_ticked k;
                 k_start_ep := k_start_ep k; k_envs := k_envs k; k_fired := k_fired k; k_mono := k_mono k |}
    | Head s pr cr =>
        if s =? k_cur k
        then {| k_cur := k_cur k; k_env := k_env k; k_started := k_started k; k_last := ep_of s; k_prev := pr; k_croot := cr; k_ticked := k_ticked k;
                k_start_ep := k_start_ep k; k_envs := k_envs k; k_fired := k_fired k; k_mono := k_mono k |}
        else k
    | Fire (JSync s) _ =>
        {| k_cur := k_cur k; k_env := k_env k; k_started := k_started k; k_last := k_last k; k_prev := k_prev k; k_croot := k_croot k; k_ticked := k_ticked k;
           k_start_ep := k_start_ep k; k_envs := k_envs k; k_fired := s :: k_fired k; k_mono := k_mono k |}
    | _ => k
    end.

  (* an effective tick leaves the preparation job of the next epoch behind *)
  Definition tick_ok (k : tracker) (o : op) (A : table) : bool :=
    match o with
    | Tick => if memb N.eqb (ep_of (k_cur k)) (k_ticked k) then true else texists A (JPrep (ep_of (k_cur k) + 1))
    | _ => true
    end.

  (* sync committee preparation jobs never concern a slot before the eve of the chain's Altair fork *)
  Definition sync_ok (init : option (bool * N)) (A : table) : bool :=
    let fork := match init with
                | Some (h, ae) => if h then Some ae else None
                | None => if c_have_agg c then c_spec_altair c else None
                end in
    forallb (fun j => match j_name j with
                      | JSync s => match fork with
                                   | Some f => f * spe <=? s + 1
                                   | None => true     (* only direct calls can schedule these then *)
                                   end
                      | _ => true end) A.

  (* Sync committee preparation jobs.  A job created by an op lies in the window of a sync period
     the op is entitled to schedule: from the slot before the period's first slot (clamped to the
     fork epoch, to slot 0 and to now) to two slots before the next period's first slot; it is
     timed 1.5 slots ahead (time_ok) and covers exactly the validators the node names for that
     period.  A direct scheduling call or refresh leaves no slot of the window without a job. *)
  Definition fork_of (init : option (bool * N)) : bool * N :=
    match init with
    | Some (h, ae) => (h, ae)
    | None => if c_have_agg c && negb (c_period c =? 0)
              then match c_spec_altair c with Some f => (true, f) | None => (false, 0) end
              else (false, 0)
    end.
  Definition sync_lo (fork cur P : N) : N :=
    let fe := N.max (N.max (P * c_period c) fork) (ep_of cur) in
    N.max (fe * spe - 1) cur.          (* truncated subtraction: there is no slot before slot 0 *)
  Definition sync_hi (fork P : N) : N := N.max ((P + 1) * c_period c) fork * spe - 2.
  Definition exp_sync (e_ : env) (P : N) : payload :=
    map (fun v => (v, 0, 0)) (sort_by (fun v => v) (dedup (alookup (e_sync e_) P))).

  Definition sync_periods (o : op) (cur : N) : list (N * bool) :=      (* (period, notCurrentSlot) *)
    let P := ep_of cur / c_period c in
    match o with
    | SchedSync ep nc => [(ep / c_period c, nc)]
    | RefreshSync ep => [(ep / c_period c, false)]
    | Start => [(P, true); (P + 1, true)]
    | Tick | Head _ _ _ => [(P, false); (P + 1, false)]
    | _ => []
    end.

  (* [cur1f P]: the current slot when the node's answer for period P arrived (second clamp of the
     first slot, the loop's current-slot test); the window is computed before the request, from [cur] *)
  Definition sync_new_ok_g (fork : N) (e_ : env) (cur : N) (cur1f : N -> N) (ps : list (N * bool)) (j : job) : bool :=
    match j_name j with
    | JSync s =>
        e_vals e_ && (fork <=? ep_of cur) &&
        existsb (fun pn => let '(P, nc) := pn in
                   (sync_lo fork cur P <=? s) && (cur1f P <=? s) && (s <=? sync_hi fork P) && negb ((s =? cur1f P) && nc) &&
                   pay_eqb (j_pay j) (exp_sync e_ P) &&
                   negb (match exp_sync e_ P with [] => true | _ => false end)) ps
    | _ => true
    end.

  Definition sync_new_ok (fork : N) (e_ : env) (cur : N) (ps : list (N * bool)) (j : job) : bool :=
    sync_new_ok_g fork e_ cur (fun _ => cur) ps j.

  Definition sync_complete_g (handling : bool) (fork : N) (o : op) (e_ : env) (cur : N) (cur1f : N -> N) (A : table) : bool :=
    let direct := match o with SchedSync _ _ => true | RefreshSync _ | Start => handling | _ => false end in
    if negb direct then true else
    forallb (fun pn => let '(P, nc) := pn in
               if e_vals e_ && (fork <=? ep_of cur) && negb (match exp_sync e_ P with [] => true | _ => false end)
               then forallb (fun s => (s <? cur1f P) (* passed while the request was outstanding: no job is claimed *)
                                      || ((s =? cur1f P) && nc) || texists A (JSync s)) (slot_range (sync_lo fork cur P) (sync_hi fork P))
               else true)
            (match o with
             | Start => [(ep_of cur / c_period c, true)]     (* a start-up covers the rest of the current period at once *)
             | _ => sync_periods o cur
             end).

  Definition sync_complete (handling : bool) (fork : N) (o : op) (e_ : env) (cur : N) (A : table) : bool :=
    sync_complete_g handling fork o e_ cur (fun _ => cur) A.

  Definition sync_step_ok_g (init : option (bool * N)) (o : op) (e_ : env) (cur : N) (cur1f : N -> N) (B A : table) : bool :=
    let '(handling, fork) := fork_of init in
    forallb (fun j => same_job B j || sync_new_ok_g fork e_ cur cur1f (sync_periods o cur) j) A &&
    sync_complete_g handling fork o e_ cur cur1f A.
  Definition sync_step_ok (init : option (bool * N)) (o : op) (e_ : env) (cur : N) (B A : table) : bool :=
    sync_step_ok_g init o e_ cur (fun _ => cur) B A.

  (* Start-up / restart completeness for sync committee duties, over the whole history.  Once a
     controller built by the public constructor runs on a chain at or past its Altair fork, with
     the epoch ticker having run in every epoch entered since the start-up, the preparation jobs
     of the next two slots exist (or have run), whichever sync period those slots belong to: the
     start-up and the later epoch ticks together must have set up the NEXT period before its
     first slot comes up, wherever in the period the process was (re)started.  The node must have
     named a validator for that period in every view it gave since the start-up; the sync period
     is at least as long as the preparation lead (5 epochs), as on every real chain. *)
  Definition ticked_through (k : tracker) : bool :=
    forallb (fun e => memb N.eqb e (k_ticked k)) (slot_range (k_start_ep k + 1) (ep_of (k_cur k))).

  Definition sync_cover (init : option (bool * N)) (k : tracker) (A : table) : bool :=
    match init with
    | Some _ => true            (* built from parts by the hook constructor: no start-up *)
    | None =>
        let '(handling, fork) := fork_of init in
        let cur := k_cur k in
        if negb (k_started k && handling && k_mono k && (5 <=? c_period c) && (fork <=? ep_of cur) &&
                 (k_start_ep k <=? ep_of cur) && ticked_through k) then true else
        forallb (fun s =>
                   let Q := ep_of (s + 1) / c_period c in
                   if forallb (fun e_ => e_vals e_ && negb (match exp_sync e_ Q with [] => true | _ => false end)) (k_envs k)
                   then texists A (JSync s) || memb N.eqb s (k_fired k)
                   else true) [cur + 1; cur + 2]
    end.

  Fixpoint walk (init : option (bool * N)) (k : tracker) (B : table) (ops : list op) (tabs : list table) : bool :=
    match ops, tabs with
    | [], [] => true
    | o :: ops', A :: tabs' =>
        let B' := match o with Start => [] | _ => B end in     (* a restart begins with an empty scheduler *)
        step_ok o (k_env k) (k_cur k) (touches k o B') B' A && tick_ok k o A && sync_ok init A &&
        sync_step_ok init o (k_env k) (k_cur k) B' A &&
        sync_cover init (track k o) A &&
        walk init (track k o) A ops' tabs'
    | _, _ => false
    end.

  (* Histories with late answers.  Every job is set up for a slot that has not passed AT THE TIME
     IT IS SET UP: the scheduler accepted it while the current slot was [at_], and the slot of an
     attestation / proposal / sync committee preparation job is not earlier than that -- strictly
     later in a (re)start and for the proposals of a refresh, which are told not to schedule the
     current slot.  The per-class clauses of [step_ok_g] are
     evaluated with the clock of the moment the answer arrived. *)
  Definition setups_ok (o : op) (cur0 : N) (su : list (jname * N)) : bool :=
    let strict_all := match o with Start => true | _ => false end in
    let strict_prop := match o with Start | RefreshProp _ | Head _ _ _ => true | _ => false end in
    forallb (fun x => let '(n, at_) := x in
      match n with
      | JAtt s => (at_ <=? s) && negb (strict_all && (s =? at_))
      | JProp s | JEarly s => (at_ <=? s) && negb (strict_prop && (s =? at_))
      | JSync s => (at_ <=? s) && negb (strict_all && (s =? at_))
      | JPrep _ => true
      end) su.

  Definition rk_of (k : kind) : rkind := match k with KAtt => RAtt | KProp => RProp end.

  Fixpoint walk_d (init : option (bool * N)) (k : tracker) (B : table) (ops : list dop) (clocks : list N)
           (setups : list (list (jname * N))) (tabs : list table) : bool :=
    match ops, clocks, setups, tabs with
    | [], [], [], [] => true
    | (o, d) :: ops', clk :: clocks', su :: setups', A :: tabs' =>
        let B' := match o with Start => [] | _ => B end in
        let cur := k_cur k in
        let cur1 := k_cur (track k o) + dslots d in      (* [track] moves the clock for Advance only *)
        let curf := fun kd e => if hits d (rk_of kd) e then cur1 else cur in
        let cur1f := fun P => if hits d RSync P then cur1 else cur in
        let k' := track (track k o) (Advance cur1) in
        (clk =? cur1) &&
        step_ok_g o (k_env k) cur curf (touches k o B') B' A && tick_ok k o A && sync_ok init A &&
        sync_step_ok_g init o (k_env k) cur cur1f B' A &&
        setups_ok o cur su &&
        sync_cover init k' A &&
        walk_d init k' A ops' clocks' setups' tabs'
    | _, _, _, _ => false
    end.

  Definition k_init (init : option (bool * N)) : tracker :=
    {| k_cur := 0; k_env := empty_env; k_started := match init with Some _ => true | None => false end;
       k_last := 0; k_prev := 0; k_croot := 0; k_ticked := [];
       k_start_ep := 0; k_envs := []; k_fired := []; k_mono := true |}.

  Definition P_hist_d (init : option (bool * N)) (ops : list dop) (snaps : list (option table))
             (clocks : list N) (setups : list (list (jname * N))) : bool :=
    walk_d init (k_init init) [] ops clocks setups (expand [] snaps).

  Fixpoint nodup_b (l : list N) : bool :=
    match l with [] => true | x :: l' => negb (memb N.eqb x l') && nodup_b l' end.

  Definition P_hist (init : option (bool * N)) (ops : list op) (snaps : list (option table))
             (att_log prop_log : list (N * payload)) (wf : bool) : bool :=
    let k0 := {| k_cur := 0; k_env := empty_env; k_started := match init with Some _ => true | None => false end;
                 k_last := 0; k_prev := 0; k_croot := 0; k_ticked := [];
                 k_start_ep := 0; k_envs := []; k_fired := []; k_mono := true |} in
    walk init k0 [] ops (expand [] snaps) &&
    (* no slot is attested for or proposed for twice *)
    (if wf then nodup_b (map fst att_log) && nodup_b (map fst prop_log) else true).
End PHist.

(* A job that is set up RUNS when its time comes.  Whenever the history fires an attestation or
   proposal job that the observed table holds, Attest / Propose must have been invoked for that slot
   with the duties that job carries; firing the early-proposal job while the head is the previous
   slot runs the slot's proposal job.  All the invocations demanded this way must be found in the
   observed logs, each as often as demanded (a job dropped because the context it was scheduled with
   was cancelled, or a job function that works on a cancelled context, invokes nothing).  Computed
   from the ops, the observed tables and the observed logs only. *)
Definition entry_eqb (a b : N * payload) : bool := (fst a =? fst b) && pay_eqb (snd a) (snd b).
Fixpoint take_out (x : N * payload) (l : list (N * payload)) : option (list (N * payload)) :=
  match l with
  | [] => None
  | y :: l' => if entry_eqb x y then Some l' else option_map (cons y) (take_out x l')
  end.
Fixpoint all_in (need have : list (N * payload)) : bool :=
  match need with
  | [] => true
  | x :: need' => match take_out x have with Some have' => all_in need' have' | None => false end
  end.
Fixpoint demanded (B : table) (ops : list op) (tabs : list table) : list (N * payload) * list (N * payload) :=
  match ops, tabs with
  | o :: ops', A :: tabs' =>
      let B' := match o with Start => [] | _ => B end in
      let '(da, dp) := demanded A ops' tabs' in
      match o with
      | Fire (JAtt s) _ => match tget B' (JAtt s) with Some j => ((s, j_pay j) :: da, dp) | None => (da, dp) end
      | Fire (JProp s) _ => match tget B' (JProp s) with Some j => (da, (s, j_pay j) :: dp) | None => (da, dp) end
      | Fire (JEarly s) h =>
          if texists B' (JEarly s) && (1 <=? s) && (h =? s - 1)
          then match tget B' (JProp s) with Some j => (da, (s, j_pay j) :: dp) | None => (da, dp) end
          else (da, dp)
      | _ => (da, dp)
      end
  | _, _ => ([], [])
  end.
(* Conversely, a proposal is carried out only by the slot's uniquely named proposal job: every
   observed Propose invocation must be accounted for by a firing of 'Beacon block proposal for slot s'
   that the observed table held at that moment, or by a firing of the listed early-proposal job of s
   while the slot's proposal job was still listed (bringing it forward), with the duty that job
   carried; each job accounts for one invocation.  So an early proposal after the slot's job already
   ran, or after a refresh withdrew it, is a violation in every history family (not only, through
   NoDup, in the disciplined ones).  The head condition is left out here (permissive). *)
Fixpoint solicited (B : table) (ops : list op) (tabs : list table) : list (N * payload) :=
  match ops, tabs with
  | o :: ops', A :: tabs' =>
      let B' := match o with Start => [] | _ => B end in
      let dp := solicited A ops' tabs' in
      match o with
      | Fire (JProp s) _ => match tget B' (JProp s) with Some j => (s, j_pay j) :: dp | None => dp end
      | Fire (JEarly s) _ =>
          if texists B' (JEarly s)
          then match tget B' (JProp s) with Some j => (s, j_pay j) :: dp | None => dp end
          else dp
      | _ => dp
      end
  | _, _ => []
  end.
Definition props_solicited (ops : list op) (snaps : list (option table)) (prop_log : list (N * payload)) : bool :=
  all_in prop_log (solicited [] ops (expand [] snaps)).

Definition runs_ok (ops : list op) (snaps : list (option table)) (att_log prop_log : list (N * payload)) : bool :=
  let '(da, dp) := demanded [] ops (expand [] snaps) in
  all_in da att_log && all_in dp prop_log.

(* the uint64 arithmetic of the history stays far from 2^64 (generators guarantee it; the
   predicate above computes in plain N) *)
Definition P_b (cs : case) : bool :=
  match c_body cs with
  | BTime p probes slots epochs => P_time p probes slots epochs
  | BSecs _ => true
  | BHist c init ops snaps al pl _ wf => P_hist c init ops snaps al pl wf && runs_ok ops snaps al pl && props_solicited ops snaps pl
  | BHistD c init dops snaps clocks setups al pl _ => P_hist_d c init dops snaps clocks setups && runs_ok (map fst dops) snaps al pl && props_solicited (map fst dops) snaps pl
  | BMerge ds (Some out) => P_merge ds out
  | BMerge ds None => false
  end.

Definition mismatches (cs : list case) : list N := failing_ids c_id agree cs.
Definition violations (cs : list case) : list N := failing_ids c_id P_b cs.
