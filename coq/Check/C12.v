(* C12 correspondence: scenarios run by harness/c12 against the real blockrelay service.

   A scenario is a list of commands: start a request in its own goroutine (proposer-settings lookup,
   auction, registration round, configuration refresh with a scripted outcome), possibly "gated"
   (the request is held inside the read lock until released), or release a gate.  The harness lets
   the implementation settle after every command (except in stress scenarios) and reports, per
   request: whether it returned, what it answered, and after which command it was first seen
   finished; and whether executionConfigMu could be taken afterwards.

   Scenarios run in a child process of the harness: when that process dies on a scenario (a fatal
   error of the Go runtime such as "concurrent map writes", a panic in a goroutine of the service),
   this is the observed outcome of the scenario ([c_crashed]): no request of it has returned.

   A forwarded registration (KFwd) or a registration round (KReg) may be "gated" too: the harness's relay then
   sits on the POST of its registrations (if the request has any to hand over) until released.  Such a request
   is held OUTSIDE the configuration lock (step MRelay of its program): the harness's settling does not accept
   that anything waits for it, so a refresh or a request that does not return while only relay-held requests
   are outstanding is a settle that ran into the watchdog ([c_timeouts]), which [P_b] forbids.

   Builder bid requests may ask for the same bid repeatedly (harness input field "key"); the generators use a
   key only while no request with it can have obtained a bid, so the answers come from the configuration (the
   bid cache is not modelled).

   A command may stand for a whole series of requests made one after the other by one goroutine for
   distinct validators with the same settings (harness input field "many"), and a group of commands may
   be issued without settling in between (field "nosettle": the requests overlap; the generators never
   put a refresh in such a group, so the answers are determined).  The interpreter treats a series as
   one request: its answer is the common answer of the series ([RAny], never an expected answer, when
   the answers of one series differ). *)
From Verif Require Export Lib.Base Lib.Lockset Model.C12_ConfigLock.

Record obs := {
  o_fin : bool;        (* the request returned before the final watchdog *)
  o_res : result;      (* its answer (RAny when it did not return or panicked) *)
  o_done_at : nat      (* 1 + index of the command after whose settling it was first seen finished; n+1 = in the final wait *)
}.

Record case := {
  c_id : N;
  c_init : cfgstate;       (* configuration the service starts with: nil, or the empty default *)
  c_url : bool;            (* a configuration URL is set *)
  c_stress : bool;         (* commands issued without settling: only returns and the lock state are compared *)
  c_cmds : list cmd;
  c_obs : list obs;        (* per spawned request, in spawn order *)
  c_lock_free : bool;      (* TryLock of executionConfigMu succeeded after the final wait *)
  c_timeouts : nat;        (* settles that ran into the watchdog *)
  c_crashed : bool;        (* the process running the scenario died on it *)
  c_panics : nat;          (* requests that ended in a panic (recovered by the harness in the request's own goroutine):
                              such a request has not returned anything to its caller *)
  c_reader_writes : nat    (* source scan (one case per run): statements on the lookup path (ExecutionConfig.ProposerConfig
                              of v1/v2, Service.ProposerConfig and what they call) that write to the shared configuration
                              or to package-level state; the model's lookups only read (MRead) *)
}.

Definition result_eqb (a b : result) : bool :=
  match a, b with
  | RFee x, RFee y => x =? y
  | RErr, RErr | RNoRelays, RNoRelays | RDone, RDone | RAny, RAny => true
  | _, _ => false
  end.

Definition res_match (predicted observed : result) : bool :=
  match predicted with RAny => true | _ => result_eqb predicted observed end.

Fixpoint zip_all {A B} (f : A -> B -> bool) (l1 : list A) (l2 : list B) : bool :=
  match l1, l2 with
  | [], [] => true
  | a :: l1', b :: l2' => f a b && zip_all f l1' l2'
  | _, _ => false
  end.

(* model = implementation: the interpreter (hand-transcribed programs on the lock model of the
   theorems) predicts the same returns, the same answers and the same final lock state *)
Definition agree (c : case) : bool :=
  let '(pred, lf, _) := predict false (c_url c) (c_init c) (c_cmds c) in
  (* no step of the model ends the process *)
  negb (c_crashed c)
  (* nor makes a request panic *)
  && (c_panics c =? 0)%nat
  (* lookups, auctions and registration rounds only read the configuration they are given *)
  && (c_reader_writes c =? 0)%nat
  && zip_all (fun (p : bool * result) (o : obs) =>
             Bool.eqb (fst p) (o_fin o) && (c_stress c || negb (fst p) || res_match (snd p) (o_res o)))
          pred (c_obs c)
  && Bool.eqb lf (c_lock_free c)
  (* the implementation reached the predicted stable state after every command within the watchdog *)
  && ((c_timeouts c =? 0)%nat || negb (forallb fst pred))
  (* and no request returned before the command after which the interpreter can have it returned *)
  && (c_stress c ||
      zip_all (fun (d : nat) (o : obs) => negb (o_fin o) || (d =? 0)%nat || (d <=? o_done_at o)%nat)
              (predict_done_at (c_url c) (c_init c) (c_cmds c)) (c_obs c)).

(* ------------------------------------------------------------------------------------------- *)
(* The property on the OBSERVED outputs alone (the interpreter is not consulted).               *)

Local Open Scope nat_scope.

(* command index of every spawn, in spawn order *)
Fixpoint spawn_indices (i : nat) (cmds : list cmd) : list (nat * spawn) :=
  match cmds with
  | [] => []
  | Spawn sp :: cmds' => (i, sp) :: spawn_indices (S i) cmds'
  | Release _ :: cmds' => spawn_indices (S i) cmds'
  end.

(* every gated request is released later on, so that "every request returns" is owed *)
Fixpoint released_later (k : nat) (cmds : list cmd) : bool :=
  match cmds with
  | [] => false
  | Release j :: cmds' => (j =? k) || released_later k cmds'
  | _ :: cmds' => released_later k cmds'
  end.

Definition gates_released (cmds : list cmd) : bool :=
  forallb (fun '(k, (i, sp)) => negb (sp_gate sp) || released_later k (skipn (S i) cmds))
          (combine (seq 0 (length (spawn_indices 0 cmds))) (spawn_indices 0 cmds)).

Definition is_refresh (sp : spawn) : bool := match sp_kind sp with KRefresh => true | _ => false end.
Definition is_reader (sp : spawn) : bool :=
  match sp_kind sp with KLookup | KAuction | KLookupNA | KBid | KFwd | KUnblind => true | _ => false end.

(* the answer the statement asks for when configuration [c] is the active one *)
Definition expected_answer (k : kind) (c : cfgstate) (v : N) : result :=
  match c with
  | None => match k with
            | KAuction | KBid => RNoRelays                      (* fallback values: no relay to ask *)
            | KFwd | KUnblind => RNoRelays                      (* nobody to forward to / to unblind with *)
            | _ => RFee 0%N
            end
  | Some d =>
      if memb N.eqb v (d_bad d)
      then match k with KFwd => RNoRelays | _ => RErr end      (* an error (a forwarded registration is skipped), never a panic *)
      else match k with
           | KAuction | KBid => if d_relay d then RFee (d_id d) else RNoRelays
           | KFwd => if d_relay d then RDone else RNoRelays
           | KUnblind => RNoRelays                             (* the harness's relay does not unblind *)
           | _ => RFee (d_id d)
           end
  end.

(* the configuration that must be in use after the first k refreshes: the last good one, else the initial one *)
Definition state_after (url : bool) (init : cfgstate) (refs : list refresh) (k : nat) : cfgstate :=
  if url then last_good (firstn k refs) init else init.

Section Values.
  Variables (url : bool) (init : cfgstate).
  Variable threads : list ((nat * spawn) * obs).      (* (spawn command index, spawn), observation *)

  Definition refresh_threads := filter (fun '((_, sp), _) => is_refresh sp) threads.
  Definition refs : list refresh := map (fun '((_, sp), _) => sp_ref sp) refresh_threads.

  (* refreshes never overlap: each was seen finished before the next one was started *)
  Fixpoint sequential (rs : list ((nat * spawn) * obs)) : bool :=
    match rs with
    | ((_, _), o) :: ((((i2, _), _) :: _) as rs') => o_fin o && (o_done_at o <=? i2) && sequential rs'
    | _ => true
    end.

  (* refreshes seen finished before command index p *)
  Definition finished_before (p : nat) : nat :=
    length (filter (fun '((_, _), o) => o_fin o && (o_done_at o <=? p)) refresh_threads).
  (* refreshes started before the request was seen finished (at done_at = D) *)
  Definition started_before (D : nat) : nat :=
    length (filter (fun '((i, _), _) => i <? D) refresh_threads).

  Definition value_ok (th : (nat * spawn) * obs) : bool :=
    let '((p, sp), o) := th in
    if is_reader sp && o_fin o then
      let lo := finished_before p in
      let hi := started_before (o_done_at o) in
      existsb (fun k => result_eqb (expected_answer (sp_kind sp) (state_after url init refs k) (sp_v sp)) (o_res o))
              (seq lo (S hi - lo))
    else true.

  Definition values_ok : bool := negb (sequential refresh_threads) || forallb value_ok threads.
End Values.

Definition P_b (c : case) : bool :=
  let sps := spawn_indices 0 (c_cmds c) in
  (length sps =? length (c_obs c)) &&
  negb (c_crashed c) &&                                      (* a process that died returns nothing, ever *)
  (c_panics c =? 0) &&                                       (* a request that panics does not return (whatever the gates) *)
  (negb (gates_released (c_cmds c)) ||
   (forallb o_fin (c_obs c)                                  (* every request returns *)
    && c_lock_free c                                         (* no lock left held, no writer wedged *)
    && (c_timeouts c =? 0)                                   (* ... and returns without waiting for anything but the lock's holders:
                                                                after every command the requests all returned or were held by
                                                                the harness (account gate inside the read lock, relay sitting on
                                                                the POST outside it), or a refresh waited for a request held
                                                                INSIDE the read lock; nothing ever waited, for a whole watchdog
                                                                period, for a request held by a relay *)
    && (c_stress c || values_ok (c_url c) (c_init c) (combine sps (c_obs c))))).   (* answers come from the last good configuration *)

Definition mismatches (cs : list case) : list N := failing_ids c_id agree cs.
Definition violations (cs : list case) : list N := failing_ids c_id P_b cs.

(* what P_b = true means, at least *)
Lemma P_b_sound (c : case) :
  P_b c = true -> gates_released (c_cmds c) = true ->
  (forall o, In o (c_obs c) -> o_fin o = true) /\ c_lock_free c = true /\ c_crashed c = false /\ c_panics c = 0 /\
  c_timeouts c = 0.
Proof.
  unfold P_b. intros H Hg. rewrite Hg in H. cbn [negb orb] in H.
  apply andb_true_iff in H as [H H']. apply andb_true_iff in H as [H Hp]. apply andb_true_iff in H as [_ Hc].
  apply andb_true_iff in H' as [H _]. apply andb_true_iff in H as [H Ht]. apply andb_true_iff in H as [H1 H2].
  split; [|split; [exact H2|split; [|split]]].
  - rewrite forallb_forall in H1. exact H1.
  - destruct (c_crashed c); [discriminate|reflexivity].
  - apply Nat.eqb_eq. exact Hp.
  - apply Nat.eqb_eq. exact Ht.
Qed.

(* a scenario on which the process died violates the property whatever else was observed *)
Lemma P_b_crashed (c : case) : c_crashed c = true -> P_b c = false.
Proof.
  unfold P_b. intros H. rewrite H. cbn [negb]. rewrite andb_false_r. reflexivity.
Qed.

(* so does a scenario in which a request panicked *)
Lemma P_b_panicked (c : case) : c_panics c <> 0 -> P_b c = false.
Proof.
  unfold P_b. intros H. apply Nat.eqb_neq in H. rewrite H. rewrite andb_false_r. reflexivity.
Qed.
