(* C19 correspondence: cases as printed by harness/c19.
   One case = one configuration tree (its leaves, as viper sees them) + the level of the global
   logger + a list of calls of the five real util functions with what each returned, followed by
   any number of later phases on the SAME viper instance: changes of the configuration (no
   viper.Reset) and then more calls.  Every answer is judged against the configuration as it stood
   when the call was made.  Between the first calls and the later phases a case may have a
   concurrent round ([c_parallel]): several goroutines (real threads) call the functions at the same
   time on the installed, unchanging configuration; each goroutine's list holds every DISTINCT
   (call, answer) it saw over all its repetitions, and the last list the same calls made once more
   one at a time after the goroutines have finished.  A concurrent round of a later phase is printed
   as calls of that phase (after the phase's sequential calls).  Who else is asking is no input of
   the property: every one of these answers is judged like a sequential one. *)
From Verif Require Export Lib.Base Model.C19_Hierarchy.

Inductive query :=
| QAddr (p : string) (o : option (list string))   (* BeaconNodeAddresses(p); None = nil slice *)
| QTimeout (p : string) (o : Z)                   (* Timeout(p) in ns *)
| QLevel (p : string) (o : Z)                     (* LogLevel(p) as zerolog.Level *)
| QConc (p : string) (o : Z)                      (* ProcessConcurrency(p) *)
| QBool (var : comp) (p : string) (o : bool)      (* HierarchicalBool(var, p) *)
| QPanic (p : string).                            (* the call panicked *)

Record case := {
  c_id : N;
  c_cfg : config;
  c_deflevel : Z;
  c_queries : list query;
  c_parallel : list (list query);                (* concurrent round on the installed tree: per goroutine,
                                                    the distinct answers seen; last, asked again one at a time *)
  c_later : list (list change * list query)      (* later phases: changes, then calls *)
}.

Definition slice_eqb : option (list string) -> option (list string) -> bool :=
  option_eqb (list_eqb String.eqb).

(* nil and empty are the same list of addresses *)
Definition slice_items (o : option (list string)) : list string :=
  match o with Some l => l | None => [] end.

(* model = implementation: the code-shaped model on the path string, exact (nil-ness included) *)
Definition agree_query (c : config) (def : Z) (q : query) : bool :=
  match q with
  | QAddr p o => slice_eqb (beacon_node_addresses c p) o
  | QTimeout p o => (timeout c p =? o)%Z
  | QLevel p o => (log_level def c p =? o)%Z
  | QConc p o => (process_concurrency c p =? o)%Z
  | QBool var p o => Bool.eqb (hierarchical_bool var c p) o
  | QPanic _ => false
  end.

(* a predicate on calls, run over the phases of a history: each phase's calls are judged in the
   world (configuration, logger level) reached by the changes so far *)
Fixpoint over_later (f : config -> Z -> query -> bool) (w : world)
         (l : list (list change * list query)) : bool :=
  match l with
  | [] => true
  | (chs, qs) :: l' =>
      let w' := apply_changes w chs in
      forallb (f (fst w') (snd w')) qs && over_later f w' l'
  end.

Definition agree (c : case) : bool :=
  forallb (agree_query (c_cfg c) (c_deflevel c)) (c_queries c)
  && forallb (forallb (agree_query (c_cfg c) (c_deflevel c))) (c_parallel c)
  && over_later agree_query (c_cfg c, c_deflevel c) (c_later c).

(* The property on the OBSERVED value alone: it is the value at the longest prefix of the dotted
   path that has a value (non-empty address list / non-zero duration / non-empty string), else the
   top-level value.  The code-shaped lookup is not consulted. *)
Definition P_query (c : config) (def : Z) (q : query) : bool :=
  match q with
  | QAddr p o => list_eqb String.eqb (slice_items (addresses_ref c (path_of_string p))) (slice_items o)
  | QTimeout p o => (timeout_ref c (path_of_string p) =? o)%Z
  | QLevel p o => (log_level_ref def c (path_of_string p) =? o)%Z
  | QConc p o => (concurrency_ref c (path_of_string p) =? o)%Z
  | QBool var p o => Bool.eqb (bool_ref var c (path_of_string p)) o
  | QPanic _ => false
  end.

Definition P_b (c : case) : bool :=
  forallb (P_query (c_cfg c) (c_deflevel c)) (c_queries c)
  && forallb (forallb (P_query (c_cfg c) (c_deflevel c))) (c_parallel c)
  && over_later P_query (c_cfg c, c_deflevel c) (c_later c).

Definition mismatches (cs : list case) : list N := failing_ids c_id agree cs.
Definition violations (cs : list case) : list N := failing_ids c_id P_b cs.

(* What P_b establishes for one call (proved in Proofs/C19_Check.v, theorem C19_P_b_sound): the
   observed value is related to the configuration and the queried path by the property's own
   relation [resolves]. *)
Definition query_ok (c : config) (def : Z) (q : query) : Prop :=
  match q with
  | QAddr s o => exists v, resolves addr_has to_slice addr_top k_addresses c (path_of_string s) v
                           /\ slice_items v = slice_items o
  | QTimeout s o => resolves dur_has to_duration dur_top k_timeout c (path_of_string s) o
  | QLevel s o => resolves str_nonempty (level_of def) (level_top def) k_loglevel c (path_of_string s) o
  | QConc s o => resolves str_nonempty to_int64 conc_top k_concurrency c (path_of_string s) o
  | QBool var s o => resolves str_nonempty to_bool (bool_top var) var c (path_of_string s) o
  | QPanic _ => False
  end.

(* ... and for a history: the calls of every phase are related to the configuration in force after
   the changes made so far. *)
Fixpoint later_ok (w : world) (l : list (list change * list query)) : Prop :=
  match l with
  | [] => True
  | (chs, qs) :: l' =>
      let w' := apply_changes w chs in
      Forall (query_ok (fst w') (snd w')) qs /\ later_ok w' l'
  end.

(* Two observed calls of the same function with the same arguments have the same answer (address
   lists as lists).  What a concurrent round must show: the configuration standing still, the answer
   does not depend on which goroutine asks, nor on what the others ask meanwhile. *)
Definition same_answer (q1 q2 : query) : Prop :=
  match q1, q2 with
  | QAddr p1 o1, QAddr p2 o2 => p1 = p2 -> slice_items o1 = slice_items o2
  | QTimeout p1 o1, QTimeout p2 o2 => p1 = p2 -> o1 = o2
  | QLevel p1 o1, QLevel p2 o2 => p1 = p2 -> o1 = o2
  | QConc p1 o1, QConc p2 o2 => p1 = p2 -> o1 = o2
  | QBool v1 p1 o1, QBool v2 p2 o2 => v1 = v2 -> p1 = p2 -> o1 = o2
  | _, _ => True
  end.

(* every call observed on the installed tree: the sequential ones and those of every goroutine *)
Definition calls_on_installed (c : case) : list query := c_queries c ++ List.concat (c_parallel c).
