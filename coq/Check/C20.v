(* C20 correspondence: cases as printed by harness/c20.
   Two kinds of case:
   - Soak: a long-run history of operations applied to ONE set of real services (attester,
     controller with the recording scheduler, sync committee messenger + aggregator, block relay);
     after every operation the harness reads the sizes of the bookkeeping maps, the slots whose
     attestation job is executing, and, for a window of slots, HasPendingAttestations and
     scheduler.JobExists; and the SLOTS for which builder bids are cached (printed after every
     request for a bid, proposal path or builder API, and whenever they changed).  The slots of
     the bid requests are in no particular order: the builder API serves whatever slot it is asked for.
   - Fan: one call of a `first` strategy or of unblindProposal with n scripted providers released
     one at a time; afterwards the harness counts the goroutines of that function that are blocked
     on a channel send.
   - Req (what the harness prints for every fan-out run now): the same call, repeated [calls] times on
     ONE service instance under ONE long-lived caller context, with providers that may honour their
     request context (return when it ends) and may never answer by themselves; after every event,
     at quiescence: has the (current) call returned, and how many requests are outstanding at
     providers that honour their context (over all calls so far); at the end: goroutines of the
     function blocked on a send, and goroutines of the function (or started by it) that still exist. *)
From Verif Require Export Lib.Base Model.C20_Bookkeeping Model.C20_Fanout Model.C20_Jobs Model.C20_Requests Model.C20_BidApi.

Record probe := { p_slot : N; p_has : bool; p_job : bool }.

Record row := {
  r_sizes : list N;      (* attested, pendingAttestations, attestation jobs in the scheduler, executing jobs,
                            subscriptionInfos, beaconBlockRoots, slotDataRecords, builderBidsCache *)
  r_running : list N;    (* slots whose job function is executing, ascending *)
  r_probes : list probe;
  r_bids : option (list N)   (* keys of builderBidsCache, ascending; None = as in the previous row *)
}.

Inductive body :=
| Soak (spe : N) (ops : list xop) (rows : list row)
| Fan (kind : N) (n : nat) (timeout : bool)
      (detect : bool)    (* the collector is told when every provider has failed (unblindProposal) *)
      (evs : list fev)
      (returned : bool)  (* the call came back *)
      (ok : bool)        (* ... with an answer *)
      (nblocked : N)     (* goroutines of the function blocked on a channel send afterwards *)
(* the REAL scheduler (services/scheduler/advanced) driven through its public interface in a
   synctest bubble; after every operation: ListJobs (ids ascending) and the ids whose job function
   has run so far (ascending) *)
| Jobs (jops : list jop) (jrows : list (list N * list N))
(* kind 0-6: the `first` strategies (requests carry the call's own context, deadline);
   kind 7: unblindProposal (requests carry the caller's context, no deadline, all-failed notice) *)
| Req (kind : N) (n : nat)
      (hon : list bool)       (* provider i returns the context's error once its request context has ended *)
      (calls : nat)           (* the script is run this many times, one call after the other *)
      (end_caller : bool)     (* afterwards the caller's context ends *)
      (evs : list rev)        (* the script of one call *)
      (rows : list (bool * N))  (* after every event: the current call has returned; requests in flight at honouring providers *)
      (returned : bool)       (* every call came back *)
      (ok : bool)             (* ... with an answer *)
      (nblocked : N)          (* goroutines blocked on a channel send at the end *)
      (nalive : N).           (* goroutines of the function, or started by it, that exist at the end *)

Record case := { c_id : N; c_body : body }.

(* --- agree: the model, step by step ---------------------------------------------------------- *)
Definition nlist_eqb := list_eqb N.eqb.

Definition probe_agrees (st : sys) (p : probe) : bool :=
  Bool.eqb (p_has p) (has_pending st (p_slot p)) && Bool.eqb (p_job p) (mem (p_slot p) (jobs st)).

Definition row_agrees (spe : N) (st_prev st : sys) (r : row) : bool :=
  nlist_eqb (sizes st) (r_sizes r) &&
  nlist_eqb (sort_by (fun x => x) (running st)) (r_running r) &&
  forallb (probe_agrees st) (r_probes r) &&
  match r_bids r with
  | Some ks => nlist_eqb (sort_by (fun x => x) (bids st)) ks
  | None => nlist_eqb (bids st) (bids st_prev)
  end.

Fixpoint soak_agrees (spe : N) (st : sys) (ops : list xop) (rows : list row) : bool :=
  match ops, rows with
  | [], [] => true
  | o :: ops', r :: rows' =>
      let st' := xstep spe true st o in
      row_agrees spe st st' r && soak_agrees spe st' ops' rows'
  | _, _ => false
  end.

(* the code as it is now: capacity = number of providers, one receive *)
Definition fan_model (n : nat) (timeout detect : bool) (evs : list fev) : fstate :=
  scenario n (N.of_nat n) 1 timeout detect evs.

(* --- the request layer --------------------------------------------------------------------- *)
Definition is_unblind (kind : N) : bool := kind =? 7.

Definition req_init (kind : N) (n : nat) (hon : list bool) : rstate :=
  if is_unblind kind then rinit n (N.of_nat n) 1 false true hon RqCaller
  else rinit n (N.of_nat n) 1 true false hon RqCall.

Definition obs_row (s : rstate) : bool * N := (f_coll_done (r_f s), inflight_hon s).

(* [c] calls of the same script under one caller context: what earlier calls left in flight is still there *)
Fixpoint multi_rows (c : nat) (j : N) (left : N) (rows : list (bool * N)) : list (bool * N) :=
  match c with
  | O => []
  | S c' => map (fun r => (fst r, snd r + j * left)) rows ++ multi_rows c' (j + 1) left rows
  end.

Record req_pred := { q_rows : list (bool * N); q_returned : bool; q_ok : bool; q_blocked : N; q_alive : N }.

Definition req_model (kind : N) (n : nat) (hon : list bool) (calls : nat) (end_caller : bool) (evs : list rev) : req_pred :=
  let s0 := req_init kind n hon in
  let s_end := rscenario s0 evs in
  (* a call that does not come back is not followed by another one *)
  let c := if f_coll_done (r_f s_end) then calls else Nat.min calls 1 in
  let s_fin := if end_caller then rev_apply s_end RvCallerEnd else s_end in
  let cN := N.of_nat c in
  {| q_rows := multi_rows c 0 (inflight_hon s_end) (map obs_row (rtrace s0 evs)) ++
               (if end_caller then [(f_coll_done (r_f s_fin), cN * inflight_hon s_fin)] else []);
     q_returned := f_coll_done (r_f s_end);
     q_ok := f_recvd (r_f s_end) =? 1;
     q_blocked := cN * blocked (r_f s_fin);
     q_alive := cN * alive s_fin |}.

(* unblindProposal's goroutines are held at their log line until the script is over: the instant
   of its return is not compared, only the end *)
Definition row_eqb (unb : bool) (a b : bool * N) : bool :=
  (unb || Bool.eqb (fst a) (fst b)) && (snd a =? snd b).

Definition agree (c : case) : bool :=
  match c_body c with
  | Soak spe ops rows => soak_agrees spe init ops rows
  | Fan _ n timeout detect evs returned ok nblocked =>
      let s := fan_model n timeout detect evs in
      Bool.eqb returned (f_coll_done s) && Bool.eqb ok (f_recvd s =? 1) && (nblocked =? blocked s)
  | Jobs jops jrows => list_eqb (prod_eqb nlist_eqb nlist_eqb) (jtrace jops jinit) jrows
  | Req kind n hon calls end_caller evs rows returned ok nblocked nalive =>
      let m := req_model kind n hon calls end_caller evs in
      list_eqb (row_eqb (is_unblind kind)) (q_rows m) rows &&
      Bool.eqb returned (q_returned m) && Bool.eqb ok (q_ok m) && (nblocked =? q_blocked m) && (nalive =? q_alive m)
  end.

(* --- P_b: the property on the observed values alone ------------------------------------------ *)
(* What is tracked from the INPUT history (and the observed set of executing jobs) to state the
   bounds: newest epoch attested in, last epoch with a successful attestation, chain time, epoch of
   the last timely head event, last message / auction / started slot. *)
Record track := {
  t_hi : N; t_succ : N; t_now : N; t_head : N; t_msg : N; t_auc : N; t_start : N
}.

Definition track0 : track := {| t_hi := 0; t_succ := 0; t_now := 0; t_head := 0; t_msg := 0; t_auc := 0; t_start := 0 |}.

Definition ep (spe s : N) : N := s / spe.

(* the conditions of the theorems, from the input and the previously observed executing jobs *)
Definition input_ok (spe : N) (t : track) (prev_running : list N) (o : op) : bool :=
  let fresh := fun cur ds => forallb (fun d => (d <? cur) || negb (mem d prev_running)) ds in
  match o with
  | OSched cur _ ds => (t_now t <=? cur) && fresh cur ds
  | OStart s => t_start t <=? s
  | OFinish _ _ => true
  | ORefresh cur e resched _ =>
      (t_now t <=? cur) &&
      match resched with
      | None => true
      | Some ds => fresh cur ds && (ep spe cur <=? e) && (e <=? ep spe cur + 1)
      end
  | OSubscribe cur e _ => (t_now t <=? cur) && (ep spe cur <=? e) && (e <=? ep spe cur + 1)
  | OHead cur _ => t_now t <=? cur
  | OMessage s _ => t_msg t <=? s
  | OAggregate _ => true
  | OAuction _ => true   (* the cache of builder bids is bounded whatever the order of the slots: bids_ok *)
  end.

Definition track_step (spe : N) (t : track) (prev_running new_running : list N) (o : op) : track :=
  match o with
  | OSched cur _ _ | ORefresh cur _ _ _ | OSubscribe cur _ _ =>
      {| t_hi := t_hi t; t_succ := t_succ t; t_now := cur; t_head := t_head t; t_msg := t_msg t; t_auc := t_auc t; t_start := t_start t |}
  | OHead cur s =>
      {| t_hi := t_hi t; t_succ := t_succ t; t_now := cur; t_head := if s =? cur then ep spe s else t_head t;
         t_msg := t_msg t; t_auc := t_auc t; t_start := t_start t |}
  | OStart s =>
      if mem s new_running && negb (mem s prev_running) then
        {| t_hi := N.max (t_hi t) (ep spe s); t_succ := t_succ t; t_now := t_now t; t_head := t_head t;
           t_msg := t_msg t; t_auc := t_auc t; t_start := N.max (t_start t) s |}
      else t
  | OFinish s ok =>
      if ok && mem s prev_running then
        {| t_hi := t_hi t; t_succ := N.max (t_succ t) (ep spe s); t_now := t_now t; t_head := t_head t;
           t_msg := t_msg t; t_auc := t_auc t; t_start := t_start t |}
      else t
  | OMessage s ok =>
      if ok then {| t_hi := t_hi t; t_succ := t_succ t; t_now := t_now t; t_head := t_head t;
                    t_msg := s; t_auc := t_auc t; t_start := t_start t |} else t
  | OAggregate _ => t
  | OAuction s =>
      {| t_hi := t_hi t; t_succ := t_succ t; t_now := t_now t; t_head := t_head t;
         t_msg := t_msg t; t_auc := s; t_start := t_start t |}
  end.

Definition row_ok (spe : N) (t : track) (r : row) : bool :=
  match r_sizes r with
  | [n_att; n_marks; n_jobs; n_run; n_subs; n_roots; n_sdata; n_bids] =>
      (* memory: every map inside its window *)
      (n_att <=? t_hi t - t_succ t + 2) &&
      (n_subs <=? ep spe (t_now t) - t_head t + 3) &&
      (n_roots <=? spe + 1) && (n_sdata <=? max_slot_data) &&
      (* one pending mark per attestation job that is set up and not finished or withdrawn *)
      (n_run =? size (r_running r)) && (n_marks =? n_jobs + n_run) &&
      (* HasPendingAttestations(s) <-> the job of s exists or is executing *)
      forallb (fun p => Bool.eqb (p_has p) (p_job p || mem (p_slot p) (r_running r))) (r_probes r)
  | _ => false
  end.

Fixpoint ascending (l : list N) : bool :=
  match l with
  | x :: ((y :: _) as l') => (x <? y) && ascending l'
  | _ => true
  end.

(* --- the cache of builder bids: NO condition on the requests (C20_bids_api_any_order) ----------
   The slot for which cacheBid ran, judged from the request and the observed keys before / after:
   a proposal-path auction always caches; a builder API request caches unless it was answered
   from the cache. *)
Definition cached_for (prev ks : list N) (x : xop) : option N :=
  match x with
  | XBase (OAuction s) => if mem s ks then Some s else None
  | XBid s => if mem s prev then None else if mem s ks then Some s else None
  | _ => None
  end.

(* [last]: slot of the latest cacheBid (this row's included).  Nothing older than the window before
   it is held, every held slot was held before or is the one just asked for, no slot twice (hence
   at most bid_window + 1 slots up to [last]; beyond it only slots that were asked for). *)
Definition bids_ok (last : N) (prev ks : list N) (x : xop) (n_bids : N) : bool :=
  (n_bids =? size ks) && ascending ks &&
  forallb (fun k => (last <=? k + bid_window) &&
                    (mem k prev || match xreq x with Some s => k =? s | None => false end)) ks.

Definition n_bids_of (r : row) : N := nth 7 (r_sizes r) 0.

Fixpoint soak_ok (spe : N) (t : track) (prev_running : list N) (claims : bool) (last : N) (prev_bids : list N)
         (ops : list xop) (rows : list row) : bool :=
  match ops, rows with
  | [], [] => true
  | x :: ops', r :: rows' =>
      let ks := match r_bids r with Some ks => ks | None => prev_bids end in
      let last' := match cached_for prev_bids ks x with Some s => s | None => last end in
      let o := match x with XBase o => o | XBid _ => OAggregate 0 (* changes nothing the guards speak about *) end in
      (* outside the conditions of the other theorems nothing more is claimed about the other maps *)
      let claims' := claims && input_ok spe t prev_running o in
      let t' := track_step spe t prev_running (r_running r) o in
      bids_ok last' prev_bids ks x (n_bids_of r) &&
      (if claims' then row_ok spe t' r else true) &&
      soak_ok spe t' (r_running r) claims' last' ks ops' rows'
  | _, _ => false
  end.

(* the job table on the observed listings alone: every listed job was scheduled (most recent
   effective ScheduleJob of that name) for an instant that has not come yet, and no name is listed
   twice: the table holds outstanding future jobs only *)
Fixpoint fire_of (fires : list (N * N)) (id : N) : option N :=
  match fires with
  | [] => None
  | (i, t) :: fires' => if i =? id then Some t else fire_of fires' id
  end.

Fixpoint jobs_ok (now : N) (fires : list (N * N)) (prev_tab : list N) (ops : list jop)
         (rows : list (list N * list N)) : bool :=
  match ops, rows with
  | [], [] => true
  | o :: ops', (tab, runs) :: rows' =>
      let now' := match o with JAdvance d => now + d | _ => now end in
      let fires' := match o with
                    | JSchedule id a => if memb N.eqb id prev_tab then fires else (id, now + a) :: fires
                    | _ => fires
                    end in
      forallb (fun id => match fire_of fires' id with Some t => now' <? t | None => false end) tab &&
      ascending tab && jobs_ok now' fires' tab ops' rows'
  | _, _ => false
  end.

(* --- requests: on the script and the observed values alone ---------------------------------
   Once a call of a `first` strategy has returned, and once the caller's context has ended (any
   function), no request may be outstanding at a provider that would return when told to: every
   row.  At the end the only goroutines that may exist are calls to providers that were never
   released and ignore their context (the node's doing), plus, for unblindProposal while the
   caller's context lives, calls to relays that were never released (by design). *)
Definition is_caller_end (e : rev) : bool := match e with RvCallerEnd => true | _ => false end.

Fixpoint rows_ok (unb ended : bool) (evs : list rev) (rows : list (bool * N)) : bool :=
  match evs, rows with
  | [], [] => true
  | e :: evs', (ret, infl) :: rows' =>
      let ended' := ended || is_caller_end e in
      (if ended' || (negb unb && ret) then infl =? 0 else true) && rows_ok unb ended' evs' rows'
  | _, _ => false
  end.

Definition released (evs : list rev) (i : nat) : bool :=
  existsb (fun e => match e with RvRelease j _ => Nat.eqb i j | _ => false end) evs.

(* providers never released by the script whose honour flag is [h] *)
Definition unreleased (n : nat) (hon : list bool) (evs : list rev) (h : bool) : N :=
  N.of_nat (length (filter (fun i => negb (released evs i) && Bool.eqb (nth i hon false) h) (seq 0 n))).

Definition req_ok (kind : N) (n : nat) (hon : list bool) (calls : nat) (end_caller : bool) (evs : list rev)
           (rows : list (bool * N)) (returned : bool) (nblocked nalive : N) : bool :=
  let unb := is_unblind kind in
  let all_evs := concat (repeat evs calls) ++ (if end_caller then [RvCallerEnd] else []) in
  let must_be_gone := negb unb || existsb is_caller_end all_evs in
  returned && (nblocked =? 0) && rows_ok unb false all_evs rows &&
  (nalive <=? N.of_nat calls * (unreleased n hon evs false + (if must_be_gone then 0 else unreleased n hon evs true))).

Definition P_b (c : case) : bool :=
  match c_body c with
  | Soak spe ops rows => (0 <? spe) && soak_ok spe track0 [] true 0 [] ops rows
  | Fan _ _ _ _ _ returned _ nblocked => returned && (nblocked =? 0)
  | Jobs jops jrows => jobs_ok 0 [] [] jops jrows
  | Req kind n hon calls end_caller evs rows returned _ nblocked nalive =>
      req_ok kind n hon calls end_caller evs rows returned nblocked nalive
  end.

Definition mismatches (cs : list case) : list N := failing_ids c_id agree cs.
Definition violations (cs : list case) : list N := failing_ids c_id P_b cs.
