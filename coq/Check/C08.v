(* C08 correspondence: cases as printed by harness/c08. *)
From Verif Require Export Lib.Base Model.C08_Submitter Model.C08_Spec.

(* what the harness saw one Submit<Kind> call do (fake milliseconds since the call) *)
Record sub_obs := {
  o_panic : bool;                        (* the process crashed while this case ran *)
  o_success : bool;                      (* Submit<Kind> returned nil *)
  o_ret : N;                             (* when it returned *)
  o_nodes : list (list (N * list N));    (* per configured node, in input order: the calls it received
                                            as (time of the call, ids of the items), sorted by first id *)
  o_cut : list (list (N * bool))         (* per configured node: the instants at which a request to it
                                            (payload or version request) was
                                            abandoned because the context the submitter made it with was
                                            finished (refused at entry / cut short in flight), and whether
                                            that request was scripted never to be answered (hang); the
                                            scripted nodes honour the request context in every method,
                                            version requests included, as the HTTP client does *)
}.

Inductive cbody :=
| CSubmit (inp : input) (cl : option caller) (order : list nat) (obs : sub_obs)
    (* cl = the deadline of the context the caller passed to Submit<Kind> (None: a context without
       deadline) and whether the scripted nodes ignore the request context;
       order = the order in which the nodes' goroutines were seen to start (nodes never started last) *)
| CScatter (len conc gomax : Z) (calls : option (list (Z * Z))) (results : list (Z * Z))
    (* util.Scatter through its public API: the (offset, entries) of every work() call sorted by
       offset (None = Scatter returned an error) and the (Offset, Extent) pairs it returned, sorted *)
| CImmediate (len : N) (r : reply) (calls : list (list N)) (success : bool)
| CSubmitMon (mon : N) (inp : input) (order : list nat) (obs : sub_obs)
    (* a submission without caller's deadline on a service whose client monitor takes mon ms (fake
       time) in every ClientOperation call *)
| CImmediateN (nd : node) (len : N) (calls : list (list N)) (success : bool).
    (* the immediate submitter with a node scripted per request (by the items a request carries) *)

Record case := { c_id : N; c_body : cbody }.

(* ------------------------------------------------------------------------------------------- *)
(* helpers *)

Definition nseq (off cnt : N) : list N := map N.of_nat (seq (N.to_nat off) (N.to_nat cnt)).

Fixpoint forall2b {A B} (f : A -> B -> bool) (l1 : list A) (l2 : list B) : bool :=
  match l1, l2 with
  | [], [] => true
  | x :: l1', y :: l2' => f x y && forall2b f l1' l2'
  | _, _ => false
  end.

Definition bool_eqb (a b : bool) : bool := if a then b else negb b.
Definition zpair_eqb := prod_eqb Z.eqb Z.eqb.

Definition is_perm (order : list nat) (n : nat) : bool :=
  Nat.eqb (length order) n && forallb (fun i => existsb (Nat.eqb i) order) (seq 0 n)
  && forallb (fun j => Nat.ltb j n) order.

(* ------------------------------------------------------------------------------------------- *)
(* agree: the model, run on the case's input and observed start order, admits what was observed *)

Definition call_agrees (st : N) (call : N * N) (oc : N * list N) : bool :=
  (fst oc =? st) && list_eqb N.eqb (snd oc) (nseq (fst call) (snd call)).

Definition view_agrees (v : node_view) (ocs : list (N * list N)) : bool :=
  match v_at v with
  | None => is_nil ocs
  | Some st => forall2b (call_agrees st) (v_calls v) ocs
  end.

(* under a caller's deadline: what the model places before the deadline is seen as it says, what it
   places after it is not seen, at the very instant of the deadline anything seen is seen then *)
Definition at_deadline (cl : option caller) (t : N) : bool :=
  match cl with Some k => t =? cl_deadline k | None => false end.

Definition view_agrees_dl (cl : option caller) (v : node_view) (ocs : list (N * list N)) : bool :=
  match handed_over cl v with
  | TYes => view_agrees v ocs
  | TMaybe => (* the token / the version answer came at the very instant of the deadline: a node that
                 ignores the context is either never reached or served as modelled, one that honours it
                 sees at that instant whatever part of the payload got through *)
              if deaf cl then is_nil ocs || view_agrees v ocs
              else forallb (fun oc => at_deadline cl (fst oc)) ocs
  | TNo => is_nil ocs
  end.

(* the only requests that end by their context are those the caller's own deadline ends, at that
   instant, at nodes that honour the context *)
Definition cut_by_caller (cl : option caller) (c : N * bool) : bool :=
  negb (deaf cl) && at_deadline cl (fst c).

Definition agree_submit (inp : input) (cl : option caller) (order : list nat) (obs : sub_obs) : bool :=
  let '(vs, outs) := run_dl cl inp order in
  negb (o_panic obs)
  && is_perm order (length (i_nodes inp))
  && memb (prod_eqb bool_eqb N.eqb) (o_success obs, o_ret obs) outs
  && forall2b (view_agrees_dl cl) vs (o_nodes obs)
  (* the model's node goroutines use the caller's context as it is (submit*.go hands ctx to
     sem.Acquire, serviceInfo, Submit<Kind>, handle...Error unchanged): the submitter finishes no
     request of its own accord, neither at a rejection, nor at the first acceptance, nor at the timeout *)
  && forallb (forallb (cut_by_caller cl)) (o_cut obs).

Definition agree (c : case) : bool :=
  match c_body c with
  | CSubmit inp cl order obs => agree_submit inp cl order obs
  | CScatter len conc gomax calls results =>
      option_eqb (list_eqb zpair_eqb) (scatter_extents len conc gomax) calls
      && list_eqb zpair_eqb results (match calls with Some l => l | None => [] end)
  | CImmediate len r calls success =>
      let '(cs, ok) := immediate len r in
      bool_eqb ok success && forall2b (fun c oc => list_eqb N.eqb oc (nseq (fst c) (snd c))) cs calls
  | CSubmitMon m inp order obs =>
      (* run_mon m inp order = run_dl None (slow_by m inp) order *)
      agree_submit (slow_by m inp) None order obs
  | CImmediateN nd len calls success =>
      let '(cs, ok) := immediate_node nd len in
      bool_eqb ok success && forall2b (fun c oc => list_eqb N.eqb oc (nseq (fst c) (snd c))) cs calls
  end.

(* ------------------------------------------------------------------------------------------- *)
(* P_b: the property itself on the input and the OBSERVED behaviour; the model is not consulted. *)

(* the scripted behaviour of the call that carried these item ids (same rule as the mock) *)
Definition obs_call_beh (nd : node) (ids : list N) : beh :=
  match find (fun ob => existsb (N.eqb (fst ob)) ids) (n_over nd) with
  | Some ob => snd ob
  | None => n_default nd
  end.

Definition spec_call_ok (k : kind) (c : client) (b : beh) : bool :=
  match b with
  | BReply _ RAccept => true
  | BReply _ (RError e) => spec_tolerated k c e
  | BHang => false
  end.

Definition beh_delay (b : beh) : option N := match b with BReply d _ => Some d | BHang => None end.

Definition omax (a b : option N) : option N :=
  match a, b with Some x, Some y => Some (N.max x y) | _, _ => None end.

(* the node was offered the payload in full, exactly once: the calls, in item order, concatenate
   to 0..len-1; no empty call (except the one call of an empty beacon-committee subscription
   list); one single call for every kind but attestations; all calls issued at one instant *)
Definition whole_payload (k : kind) (len : N) (ocs : list (N * list N)) : bool :=
  list_eqb N.eqb (concat (map snd ocs)) (nseq 0 len)
  && (match k with KAttestations => forallb (fun oc => negb (is_nil (snd oc))) ocs
                 | _ => Nat.eqb (length ocs) 1 end)
  && (match ocs with [] => false | oc :: _ => forallb (fun oc' => fst oc' =? fst oc) ocs end).

Definition is_rejection (b : beh) : bool := match b with BReply _ (RError _) => true | _ => false end.

(* when vouch has the node's answer and whether the node counts as accepting, from the scripted
   behaviours of the calls it was seen to receive: Some (t, ok) ; None = never.  A rejection counts
   only "from that client": vouch has to know which client it is talking to, so a node that counts
   by a tolerated rejection counts once its version endpoint has answered as well (n_ver2: the
   scripted latency of a version request made after the payload was handed over). *)
Definition node_finish (k : kind) (nd : node) (ocs : list (N * list N)) : option (N * bool) :=
  match ocs with
  | [] => None
  | oc :: _ =>
      let bs := map (fun oc' => obs_call_beh nd (snd oc')) ocs in
      let ok := forallb (spec_call_ok k (n_client nd)) bs in
      let v2 := if ok && existsb is_rejection bs then n_ver2 nd else Some 0 in
      match fold_right omax (Some 0) (map beh_delay bs), v2 with
      | Some d, Some w => Some (fst oc + d + w, ok)
      | _, _ => None
      end
  end.

Definition has_hang (nd : node) : bool :=
  match n_default nd with BHang => true | _ => false end
  || existsb (fun ob => match snd ob with BHang => true | _ => false end) (n_over nd)
  || is_none (n_ver1 nd) || is_none (n_ver2 nd).

(* the node is handed the payload as soon as its own version endpoint has answered (the scripted
   latency n_ver1; at once when that is 0), whatever the other nodes do; nothing is demanded here for
   a node whose version endpoint never answers *)
(* The caller's deadline (the case's input).  An answer a node gives at instant t reaches vouch when
   the node ignores the request context or t is strictly before the deadline; at the deadline itself
   it may or may not; a request a context-honouring node would answer later is ended by the CALLER. *)
Definition dl_before (cl : option caller) (t : N) : bool :=
  match cl with None => true | Some k => cl_deaf k || (t <? cl_deadline k) end.
Definition dl_at (cl : option caller) (t : N) : bool :=
  match cl with None => false | Some k => negb (cl_deaf k) && (t =? cl_deadline k) end.
Definition dl_passed (cl : option caller) (t : N) : bool :=
  match cl with None => false | Some k => negb (cl_deaf k) && (cl_deadline k <=? t) end.

Definition contacted_on_its_own (cl : option caller) (nd : node) (ocs : list (N * list N)) : bool :=
  match n_ver1 nd with
  | Some v => negb (dl_before cl v) || (negb (is_nil ocs) && forallb (fun oc => fst oc =? v) ocs)
  | None => true
  end.

Definition min_of (l : list N) (d : N) : N := fold_right N.min d l.

Definition P_submit (inp : input) (cl : option caller) (obs : sub_obs) : bool :=
  let k := i_kind inp in
  let len := i_len inp in
  let T := i_timeout inp in
  let nodes := i_nodes inp in
  let n := Z.of_nat (length nodes) in
  negb (o_panic obs)
  && Nat.eqb (length (o_nodes obs)) (length nodes)
  && (o_ret obs <=? T)                       (* returns no later than the CONFIGURED timeout, whatever
                                                deadline the caller's context carries *)
  && if negb (guard_ok k len)
     then (* an empty submission: nothing to offer, reported as an error at once *)
       negb (o_success obs) && forallb is_nil (o_nodes obs)
     else
       (* every node that was contacted got the whole payload exactly once
       (a node reached at the very instant of the caller's deadline may see any part of it) *)
       forallb (fun ocs => is_nil ocs || whole_payload k len ocs
                           || match ocs with oc :: _ => dl_at cl (fst oc) | [] => false end) (o_nodes obs)
       (* ... and none of its requests that would have been answered was abandoned by the submitter
          before the timeout (whatever that node's other requests or the other nodes answered): offered
          means left to be answered.  (Giving up a request that is never answered, or any request once
          the timeout has passed, delivers no less: that is left to `agree`.  A request that ends when
          the caller's own deadline has passed was ended by the caller.) *)
       && forallb (forallb (fun c => snd c || (T <=? fst c) || dl_passed cl (fst c))) (o_cut obs)
       (* concurrency >= number of nodes: every node is contacted at once (as soon as it has answered
          the version request, which is made at once), whatever the others do *)
       && ((i_conc inp <? n)%Z
           || forall2b (contacted_on_its_own cl) nodes (o_nodes obs))
       (* no node hangs: every node is contacted eventually, whatever the concurrency (>= 1) *)
       && (existsb has_hang nodes || (i_conc inp <? 1)%Z || negb (is_none cl)
           || forallb (fun ocs => negb (is_nil ocs)) (o_nodes obs))
       && (* success iff some node accepted (or rejected for tolerated reasons only) within the timeout *)
       (* an acceptance reaches vouch when the node gives it strictly before the caller's deadline or
          ignores the context; a request that a context-honouring node would answer at or after the
          caller's deadline is either ended then (by the caller: recorded in o_cut, the node has not
          accepted) or was left to be answered (the node has accepted) *)
       let fins := somes (map (fun p => match node_finish k (fst (fst p)) (snd (fst p)) with
                                        | Some (t, ok) => Some (t, ok && (dl_before cl t || is_nil (snd p)))
                                        | None => None
                                        end)
                              (combine (combine nodes (o_nodes obs)) (o_cut obs))) in
       let oks := map fst (filter snd fins) in
       Nat.eqb (length (o_cut obs)) (length nodes)
       && if o_success obs
       then existsb (fun t => t <=? T) oks
            && (let m := min_of oks T in
                if m =? 0
                then (o_ret obs =? 0) || (o_ret obs =? min_of (filter (fun t => 0 <? t) oks) T)
                else o_ret obs =? m)                              (* as soon as the first one accepts *)
       else forallb (fun t => T <=? t) oks
            (* failure is reported at the timeout, not before: until then a node may still accept --
               unless the caller's deadline has passed and every node honours it (the nodes whose
               requests were nevertheless left to be answered are in oks) *)
            && ((o_ret obs =? T) || dl_passed cl (o_ret obs)).

(* extents are non-empty, contiguous from a and end at b *)
Fixpoint chainb (a b : Z) (l : list (Z * Z)) : bool :=
  match l with
  | [] => (a =? b)%Z
  | (off, cnt) :: l' => (off =? a)%Z && (0 <? cnt)%Z && chainb (a + cnt)%Z b l'
  end.

Definition P_b (c : case) : bool :=
  match c_body c with
  | CSubmit inp cl _ obs => P_submit inp cl obs
  | CScatter len conc gomax calls results =>
      match calls with
      | None => (len <=? 0)%Z && is_nil results
      | Some l => (0 <? len)%Z && chainb 0 len l && list_eqb zpair_eqb results l
      end
  | CImmediate len r calls success =>
      if len =? 0 then is_nil calls && negb success
      else forall2b (fun _ oc => list_eqb N.eqb oc (nseq 0 len)) [tt] calls
           && bool_eqb success (match r with RAccept => true | RError _ => false end)
  | CSubmitMon m inp _ obs =>
      (* vouch's own bookkeeping (the client monitor) takes m ms per node answer: the property is met
         when the report is right for answers counted when the bookkeeping is done, or for answers
         counted as they arrive *)
      P_submit (slow_by m inp) None obs || P_submit inp None obs
  | CImmediateN nd len calls success =>
      (* offered in full: the requests, in the order received, are non-empty and carry the payload
         exactly once; reported successful exactly when the node accepted all of it (the immediate
         submitter tolerates no rejection) *)
      if len =? 0 then is_nil calls && negb success
      else list_eqb N.eqb (concat calls) (nseq 0 len)
           && forallb (fun oc => negb (is_nil oc)) calls
           && bool_eqb success
                (forallb (fun oc => match obs_call_beh nd oc with BReply _ RAccept => true | _ => false end) calls)
  end.

Definition mismatches (cs : list case) : list N := failing_ids c_id agree cs.
Definition violations (cs : list case) : list N := failing_ids c_id P_b cs.
