(* C01 / C04 correspondence: the case format printed by harness/attenv, and [agree].
   A case is a history of calls of Attest on ONE service instance, each with its duty, its scripted
   environment outcomes and its (fake-time) start instant and call latencies.  The harness runs
   them inside a synctest bubble; all wake-up instants are distinct, so the order of the wake-ups
   is a function of the input, and between two wake-ups exactly one call runs until it blocks. *)
From Verif Require Export Lib.Base Model.C01_Attester.

Record timing := {
  tm_start : N;      (* instant at which Attest is called *)
  tm_fetch : N;      (* latency of the attestation data provider *)
  tm_accounts : N;   (* ... of the accounts provider *)
  tm_sign : N;       (* ... of the signer *)
  tm_submit : N      (* ... of the submitter *)
}.

Inductive result :=
| RErr               (* Attest returned an error *)
| ROk (n : N).       (* Attest returned n attestations *)

Record case := {
  c_id : N;
  c_spe : N;
  c_runs : list run;
  c_times : list timing;
  (* observed: *)
  c_trace : list event;            (* signer and submitter calls in order; pairs / attestations of one call sorted by validator *)
  c_results : list result;         (* per call of Attest *)
  c_final : list (N * list vidx)   (* the attested map afterwards: sorted by epoch, sets sorted *)
}.

(* --- the order of wake-ups ------------------------------------------------------------------ *)
Fixpoint wake_times (i : nat) (ts : list timing) : list (N * nat) :=
  match ts with
  | [] => []
  | t :: ts' =>
      let t0 := tm_start t in
      let t1 := t0 + tm_fetch t in
      let t2 := t1 + tm_accounts t in
      let t3 := t2 + tm_sign t in
      let t4 := t3 + tm_submit t in
      (t0, i) :: (t1, i) :: (t2, i) :: (t3, i) :: (t4, i) :: wake_times (S i) ts'
  end.

Definition wakeups (ts : list timing) : list nat := map snd (sort_by fst (wake_times 0 ts)).

Definition model_run (c : case) : state * list nat :=
  wake_all (c_spe c) (c_runs c) init (wakeups (c_times c)).

(* --- equality of observables ---------------------------------------------------------------- *)
Definition adata_eqb (a b : adata) : bool :=
  (a_slot a =? a_slot b) && (a_root a =? a_root b) && (a_src a =? a_src b) &&
  (a_src_root a =? a_src_root b) && (a_tgt a =? a_tgt b) && (a_tgt_root a =? a_tgt_root b).

Definition vote_eqb (a b : vote) : bool :=
  (vt_slot a =? vt_slot b) && (vt_comm a =? vt_comm b) && (vt_root a =? vt_root b) &&
  (vt_src a =? vt_src b) && (vt_src_root a =? vt_src_root b) && (vt_tgt a =? vt_tgt b) &&
  (vt_tgt_root a =? vt_tgt_root b).

Definition sig_eqb (a b : sigval) : bool := (fst a =? fst b) && vote_eqb (snd a) (snd b).

Definition att_eqb (a b : att) : bool :=
  (at_len a =? at_len b) && list_eqb N.eqb (at_bits a) (at_bits b) &&
  vote_eqb (at_vote a) (at_vote b) && sig_eqb (at_sig a) (at_sig b).

Definition signreq_eqb (a b : signreq) : bool :=
  Nat.eqb (sr_run a) (sr_run b) && list_eqb (prod_eqb N.eqb N.eqb) (sr_pairs a) (sr_pairs b) &&
  (sr_slot a =? sr_slot b) && (sr_root a =? sr_root b) && (sr_src a =? sr_src b) &&
  (sr_src_root a =? sr_src_root b) && (sr_tgt a =? sr_tgt b) && (sr_tgt_root a =? sr_tgt_root b).

Definition event_eqb (a b : event) : bool :=
  match a, b with
  | SignReq x, SignReq y => signreq_eqb x y
  | Submit i x, Submit j y => Nat.eqb i j && list_eqb att_eqb x y
  | _, _ => false
  end.

Definition result_eqb (a b : result) : bool :=
  match a, b with
  | RErr, RErr => true
  | ROk x, ROk y => x =? y
  | _, _ => false
  end.

(* --- what the model says the observables are ------------------------------------------------ *)
Definition submitted_by (tr : list event) (i : nat) : option (list att) :=
  match filter (fun ev => match ev with Submit j _ => Nat.eqb i j | _ => false end) tr with
  | Submit _ atts :: _ => Some atts
  | _ => None
  end.

(* Attest returns the attestations iff it got as far as submitting and the submission succeeded *)
Fixpoint model_results (tr : list event) (i : nat) (rs : list run) : list result :=
  match rs with
  | [] => []
  | r :: rs' =>
      (match submitted_by tr i with
       | Some atts => if s_submit (r_script r) then ROk (N.of_nat (length atts)) else RErr
       | None => RErr
       end) :: model_results tr (S i) rs'
  end.

Definition norm_att (m : list (N * list vidx)) : list (N * list vidx) :=
  sort_by fst (map (fun p => (fst p, sort_by (fun x : N => x) (snd p))) m).

Definition agree (c : case) : bool :=
  let st := fst (model_run c) in
  negb (g_panic st) &&
  list_eqb event_eqb (g_trace st) (c_trace c) &&
  list_eqb result_eqb (model_results (g_trace st) 0 (c_runs c)) (c_results c) &&
  list_eqb (prod_eqb N.eqb (list_eqb N.eqb)) (norm_att (g_att st)) (c_final c).

(* --- helpers for the property predicates ---------------------------------------------------- *)
Fixpoint nodupb {A} (eqb : A -> A -> bool) (l : list A) : bool :=
  match l with
  | [] => true
  | x :: l' => negb (memb eqb x l') && nodupb eqb l'
  end.

(* the property's own notion of acceptable attestation data for a duty *)
Definition data_ok (spe : N) (d : duty) (a : adata) : bool :=
  (a_slot a =? d_slot d) && (a_tgt a =? epoch_of spe (d_slot d)) && (a_src a <=? a_tgt a).

Definition signreq_of (tr : list event) (i : nat) : list signreq :=
  flat_map (fun ev => match ev with SignReq q => if Nat.eqb (sr_run q) i then [q] else [] | _ => [] end) tr.
