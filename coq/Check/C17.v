(* C17 correspondence: race-detector scenarios run by harness/c17 against the real services. *)
From Verif Require Export Lib.Base Lib.Lockset Lib.LocksetX Lib.Atomic Gen.C17_Extracted Model.C17_Snapshot Model.C17_Cache.
From Coq Require Export String.

Record case := {
  c_id : N;
  c_service : string;       (* name of the extracted service the scenario exercises *)
  c_scenario : string;
  c_race : bool;            (* the Go race detector reported a data race (or the runtime aborted on concurrent map access) *)
  c_hang : bool;            (* the scenario did not finish: goroutines blocked for ever (a leaked / re-acquired lock) *)
  c_crash : bool;           (* a panic raised in Vouch's own code aborted the scenario: an overlap showed an operation
                               a state that no sequential order of the operations produces *)
  (* account-churn scenarios only (empty otherwise): refreshes alternate between the listings while lookups run *)
  c_listings : list (list N);           (* the keys (= validator indices) the wallets list, per phase *)
  c_active : list N;                    (* validators that the validators-manager mock reports as validating *)
  c_requested : list N;                 (* indices asked for by the ByIndex lookups *)
  c_answers : list (list (N * bool));       (* distinct answers of ValidatingAccountsForEpoch: (validator, account present), sorted *)
  c_answers_idx : list (list (N * bool));   (* distinct answers of ValidatingAccountsForEpochByIndex *)
  (* cache history scenarios only (empty otherwise): every completed operation on a tracked root and every clean,
     with invocation / response stamps (Model/C17_Cache.v).  Records of kind 3 are pairs that every sequential
     order keeps together (h_key = h_val): the hash and height of one execution head (cache-linear), and, scenario
     validatorsmanager-stable, the generation of a validator read when a lookup handed it out and the generation
     read from the SAME object after a later refresh (a published validator is never written again) *)
  c_history : list hop
}.

(* ---- snapshot model (Model/C17_Snapshot.v) on the churn data ---- *)
Definition memN (x : N) (l : list N) : bool := existsb (N.eqb x) l.

(* the sequential lookup of the model on the store of one refresh, projected as the harness projects the
   implementation's answer: validating validators only, (validator, account present), sorted by validator *)
Definition model_answer (active : list N) (only : option (list N)) (listing : list N) : list (N * bool) :=
  let st := install (map (fun k => (k, k)) listing) in
  let r := filter (fun p => memN (fst p) active && match only with Some req => memN (fst p) req | None => true end) (lookup_at st) in
  sort_by fst (map (fun p => (fst p, match snd p with Some _ => true | None => false end)) r).

Definition answer_eqb (a b : list (N * bool)) : bool :=
  list_eqb (fun p q => (fst p =? fst q) && Bool.eqb (snd p) (snd q)) a b.

(* every observed answer is the model's answer on the store of ONE refresh (C17_snapshot_lookup_sequential) *)
Definition answers_agree (c : case) : bool :=
  forallb (fun a => existsb (fun l => answer_eqb a (model_answer (c_active c) None l)) (c_listings c)) (c_answers c) &&
  forallb (fun a => existsb (fun l => answer_eqb a (model_answer (c_active c) (Some (c_requested c)) l)) (c_listings c)) (c_answers_idx c).

(* on the observed answers alone: no answer names a validator without its account *)
Definition answers_whole (c : case) : bool :=
  forallb (forallb snd) (c_answers c) && forallb (forallb snd) (c_answers_idx c).

Definition service_ok (name : string) : bool :=
  match find (fun '(n, _, _, _, _) => String.eqb n name) services with
  | Some (_, g, e, sk, sg) => analysis_ok sk sg g e
  | None => false
  end.

(* the property on the observed run alone: no unsynchronised conflicting access was observed,
   every operation finished (no lock was left held), and no operation panicked on what it saw.
   (The skeleton model has no values: it predicts races and hangs, not crashes; `agree` is silent on c_crash.) *)
(* … and every lookup result of an observed cache history is one that SOME sequential order of the overlapping
   operations (respecting what had returned before what was called) can produce: a root whose mapping was set
   (or fetched from the node) before the lookup began is found unless a clean whose minimum slot is above its
   slot may sit in between (no lost update); a slot that is found was put there and not since removed by a clean
   that ran wholly in between.  Stated on the observed history with the property's own notion of what a clean
   may remove (entries below its minimum slot), not through the model. *)
Definition history_sequential (c : case) : bool := lin_ok_with (fun min v => v <? min) (c_history c).

Definition P_b (c : case) : bool :=
  negb (c_race c) && negb (c_hang c) && negb (c_crash c) && answers_whole c && history_sequential c.

Definition service_known (name : string) : bool :=
  existsb (fun '(n, _, _, _, _) => String.eqb n name) services.

Definition service_order_ok (name : string) : bool :=
  match find (fun '(n, _, _, _, _) => String.eqb n name) services with
  | Some (_, g, e, _, _) => lock_order_ok g e
  | None => false
  end.

(* the second graph of a service: the local variables that the goroutines started by its methods share
   (translator/locals.go; present only if some goroutine writes such a variable) *)
Definition locals_name (name : string) : string := (name ++ "_locals")%string.

Definition locals_ok (name : string) : bool :=
  match find (fun '(n, _, _, _, _) => String.eqb n (locals_name name)) services with
  | Some (_, g, e, sk, sg) => analysis_ok sk sg g e
  | None => true
  end.

Definition locals_order_ok (name : string) : bool :=
  match find (fun '(n, _, _, _, _) => String.eqb n (locals_name name)) services with
  | Some (_, g, e, _, _) => lock_order_ok g e
  | None => true
  end.

(* model and implementation agree: a service the analysis accepts (race free and lock balanced in
   every interleaving, C17_tree_dynamic_race_free_partial) shows no race in its scenario, and if its
   lock order is consistent too (C17_tree_deadlock_free_partial) no hang either; "accepts" covers both
   graphs of the service: its fields, and the local variables shared by the goroutines of its methods;
   a scenario naming a service that is not extracted never agrees *)
Definition agree (c : case) : bool :=
  implb (service_ok (c_service c) && locals_ok (c_service c)) (negb (c_race c)) &&
  implb (service_ok (c_service c) && locals_ok (c_service c) &&
         service_order_ok (c_service c) && locals_order_ok (c_service c)) (negb (c_hang c)) &&
  service_known (c_service c) && answers_agree c &&
  (* the cache model (Model/C17_Cache.v, one section per operation) explains every lookup of the observed history *)
  lin_ok (c_history c).

Definition mismatches (cs : list case) : list N := failing_ids c_id agree cs.
Definition violations (cs : list case) : list N := failing_ids c_id P_b cs.

(* reporting: per service, the nodes where the lockset check fails and the fields in conflict *)
Definition tree_report :=
  map (fun '(n, g, e, sk, sg) =>
         let '(bad, cf) := report sk sg g e in
         (n, analysis_ok sk sg g e, bad, nodup N.eq_dec (map (fun '((f1, _, _, _), _) => f1) cf),
          discipline_ok sk sg (graph_accesses g e), lock_order_ok g e)) services.

(* per service: the derived (read, write) pairs that the atomicity check rejects (Lib/Atomic.v): the write of a
   value computed from a read of the same field, with the field's guard released in between *)
Definition tree_atomic :=
  map (fun '(n, g, e, sk, sg) => (n, atomic_bad sk sg g e (pairs_of n derived_pairs))) services.

(* the (field, mutex) guard pairs of every service *)
Definition tree_guards :=
  map (fun '(n, g, e, _, _) => (n, guard_table (graph_accesses g e))) services.

(* ------------------------------------------------------------------------------------------ *)
(* detailed report for bin/c17-report: node indices (mapped to file:line by the translator's meta file) *)

Fixpoint accesses_idx (ls : assignment) (n : nat) (g : graph) : list (nat * access) :=
  match g with
  | [] => []
  | nd :: g' =>
      match n_instr nd, nth n ls None with
      | IAcc f w, Some L => (n, (f, w, L, n_owner nd)) :: accesses_idx ls (S n) g'
      | _, _ => accesses_idx ls (S n) g'
      end
  end.

Definition conflicts_idx (sk : field -> bool) (sg : nat -> bool) (g : graph) (e : list nat) : list (nat * nat) :=
  let A := accesses_idx (infer g e) 0 g in
  flat_map (fun a1 => map (fun a2 => (fst a1, fst a2))
                        (filter (fun a2 => (fst a1 <=? fst a2)%nat && negb (conflict_free sk sg (snd a1) (snd a2))) A)) A.

Fixpoint order_bad_from (rk : list (mutex * nat)) (ls : assignment) (n : nat) (g : graph) : list nat :=
  match g with
  | [] => []
  | nd :: g' =>
      match n_instr nd, nth n ls None with
      | ILock m _, Some L =>
          if forallb (fun p => (rank_of rk (fst p) <? rank_of rk m)%nat) L then order_bad_from rk ls (S n) g'
          else n :: order_bad_from rk ls (S n) g'
      | _, _ => order_bad_from rk ls (S n) g'
      end
  end.

Definition undisciplined (sk : field -> bool) (sg : nat -> bool) (A : list access) : list field :=
  filter (fun f => negb (sk f || confined sg A f || existsb (fun m => writes_guarded A f m) (mutexes_of A))) (fields_of A).

(* per service: accepted?, nodes whose lock-set check fails (with the lock set inferred on entry),
   conflicting access pairs, fields without a write guard, acquisitions against the lock order *)
Definition tree_details :=
  map (fun '(n, g, e, sk, sg) =>
         let ls := infer g e in
         (n, analysis_ok sk sg g e && discipline_ok sk sg (graph_accesses g e) && lock_order_ok g e,
          map (fun b => (b, nth b ls None)) (firstn 8 (bad_nodes_from ls 0 g)),
          firstn 12 (conflicts_idx sk sg g e),
          undisciplined sk sg (graph_accesses g e),
          firstn 8 (order_bad_from (infer_ranks g e) ls 0 g))) services.
