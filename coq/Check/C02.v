(* C02 correspondence: cases as printed by harness/c02.

   Two kinds of case.
   [Timed sc os]: a timed script (Model/C02_Script.v) run against the real advanced scheduler in a
   synctest bubble, repeated; [os] are the DISTINCT observed outcomes with their multiplicities.
   Events at the same fake instant sample Go's select / scheduler nondeterminism, so the comparison
   is membership of every observed outcome in the model's outcome SET over all interleavings of the
   tied events ([outcomes sc]); for a tie-free script that set is a singleton and membership is
   equality.
   [Tabled ops outs runs]: a sequential history over several names (every job far in the future,
   the system at rest between operations); equality with Model/C02_TableOps.v.
   [Skeleton fn toks]: the statements of one of the three short lock-protected sections (runJob,
   CancelJob, finaliseJob) as read from the source, logging and metrics dropped; equality with the
   order the model was written from.  A reordering of two adjacent statements there changes the
   interleavings (RStep / CStep / finalise of Model/C02_Scheduler.v) but shows in a run only if
   another goroutine is scheduled between those two statements, which the bubble never forces.

   [Burst b os]: several goroutines released together operate on one job name of one scheduler
   (Model/C02_Burst.v): real parallelism, repeated; [os] are the distinct observations.  [agree]:
   some interleaving of the lanes makes the table model return exactly the observed codes, run
   counts and table contents; [P_b]: the counting laws of the property on the observation alone.

   [Real sc os]: a script run in REAL time outside bubbles (one unit = some tens of milliseconds) in a
   process with the buffered timer channels of the repository's go directive; [os] = the serial
   repetitions that ran on a quiet machine; flake policy: it counts when NO repetition is acceptable.
   The callers' own contexts (cancelled, expired, cancelled concurrently) are not part of a script:
   the model ignores them and [P_b] never reads them.  [Tabled] also carries what
   harness/mocks.RecScheduler answered to the same history ([mockobs]).

   [P_b] is the property itself, evaluated on the script and the OBSERVED outcome only. *)
From Coq Require Import String.
From Verif Require Export Lib.Base Lib.Reach Model.C02_Scheduler Model.C02_Script Model.C02_TableOps Model.C02_Burst.

(* another job held by the same scheduler instance while the script runs: a one-off or periodic job far in
   the future under a name of its own.  [sb_match]: its name has the prefix the script's CancelJobs calls
   use (computed by the harness from the two strings). *)
Record sib := { sb_match : bool; sb_listed : bool; sb_runs : N }.

Record obs := {
  ob_out : outcome;
  ob_listed : bool;     (* ListJobs contained the name after sc_end *)
  ob_hung : bool;       (* the run never came to rest (real-time watchdog): only the calls, the starts,
                           JobExists and ListJobs were observed, the reuse of the name was not tried *)
  ob_running : N;       (* executions of jobFunc in progress at sc_end *)
  ob_dup : option bool; (* None: no second ScheduleJob of the name was accepted during the script;
                           Some b: one was, and JobExists(name) = b at sc_end while that job is pending
                           (scripts never touch the table after such a call) *)
  ob_insts : list N;    (* periodic: the times runtimeFunc returned up to sc_end, in order *)
  ob_foreign : list bool; (* per call: it returned an error that is none of the scheduler's (e.g. the
                           caller's ctx.Err()); such a call reads [Hung] in [o_calls]: it has no status of
                           the model, and it did not report success *)
  ob_byprefix : list bool; (* per call (from the input, like the script): the call was CancelJobs(prefix) with a
                           prefix of the job's name -- for the model a CancelJobIfExists (see below) *)
  ob_sibs : list sib;   (* the other jobs of the same scheduler instance (far in the future, never due) after sc_end *)
  ob_count : N          (* repetitions that showed this outcome *)
}.

(* one observation of a burst; the runs are per ScheduleJob operation, in the order of [number] *)
Record bobs := {
  bo_pre : list code;           (* codes of the sequential operations *)
  bo_lanes : list (list code);  (* codes per lane *)
  bo_exists1 : bool;            (* JobExists at rest after the burst *)
  bo_runs1 : list N;
  bo_follow : option code;      (* the follow-up CancelJob / RunJob *)
  bo_exists2 : bool;
  bo_runs2 : list N;
  bo_exists3 : bool;            (* after the jobs' time *)
  bo_runs3 : list N;
  bo_lists_ok : bool;           (* at all three points ListJobs = the other names + (the name iff JobExists), no other job ran *)
  bo_reuse : code;              (* ScheduleJob of the name at the very end *)
  bo_bad : bool;                (* a panic, or a call that never returned *)
  bo_count : N
}.

Record mockobs := {
  mk_inline_outs : list tout;
  mk_inline_runs : list (N * N);
  mk_rec_outs : list tout;
  mk_rec_runs : list (N * N)
}.

Inductive body :=
| Timed (sc : script) (os : list obs)
| Real (sc : script) (os : list obs)     (* the script in REAL time (one unit = some tens of milliseconds), outside
                                            any bubble, in a process with the timer-channel semantics of the
                                            repository's go directive; [os] = three serial repetitions *)
| Burst (b : burst) (os : list bobs)
| Tabled (ops : list top) (outs : list tout) (runs : list (N * N)) (m : mockobs)
| Skeleton (fn : string) (toks : list string).

Record case := { c_id : N; c_body : body }.

(* --- agreement with the model ------------------------------------------------------------------ *)

Definition is_hung (s : cst) : bool := match s with Hung => true | _ => false end.

(* a run that never came to rest: the model must have a blocked final state with the same calls,
   starts and table entry *)
Definition hung_match (o m : outcome) : bool :=
  list_match cst_match (o_calls o) (o_calls m)
  && list_eqb N.eqb (o_starts o) (o_starts m)
  && (o_overlap o =? o_overlap m)
  && Bool.eqb (o_exists o) (o_exists m)
  && Bool.eqb (o_panic o) (o_panic m)
  && existsb is_hung (o_calls m).

(* the observation is that of one of the states in which the model's script can end *)
Definition obs_match (ts : list tstate) (ob : obs) : bool :=
  existsb (fun t => (if ob_hung ob then hung_match (ob_out ob) (outcome_of t) else outcome_match (ob_out ob) (outcome_of t))
                    && (running (t_core t) =? ob_running ob)) ts.

(* a re-scheduled job holds its name until it is claimed: the goroutine of the earlier job of that
   name removes the table entry only while it still refers to its own job *)
Definition dup_ok (ob : obs) : bool := match ob_dup ob with Some false => false | _ => true end.

Definition tout_eqb (a b : tout) : bool :=
  match a, b with
  | TCode x, TCode y => code_eqb x y
  | TBool x, TBool y => Bool.eqb x y
  | TNames x, TNames y => list_eqb N.eqb x y
  | TSilent, TSilent => true
  | _, _ => false            (* TOther (an error outside the scheduler's set) equals nothing *)
  end.

(* no call returned an error outside the scheduler's set: the model has no such result *)
Definition any_foreign (ob : obs) : bool := existsb (fun b => b) (ob_foreign ob).

(* a call that never returned (a foreign error is a returned call) *)
Fixpoint hung_not_foreign (cs : list cst) (fs : list bool) : bool :=
  match cs with
  | [] => false
  | c :: cs' => (is_hung c && negb (hd false fs)) || hung_not_foreign cs' (tl fs)
  end.

(* CancelJobs(prefix): the names that have the prefix are collected inside one section of jobsMutex, then
   CancelJobIfExists is called on each.  For the job of the script that is a CancelJobIfExists whose table
   section comes later in the same instant (or that finds nothing, when the collecting section already found
   nothing): the same outcome set as a KCancel call whose result is not seen ([Silent]).  For the OTHER jobs
   of the scheduler (all idle, far in the future): once a CancelJobs call has returned, every job whose name
   has the prefix is out of the table and none of them ever ran; the others are untouched. *)
Definition px_states (ob : obs) : list cst :=
  map snd (filter (fun x => fst x) (combine (ob_byprefix ob) (o_calls (ob_out ob)))).

Definition sibs_ok (ob : obs) : bool :=
  ob_hung ob || existsb is_hung (px_states ob)
  || (let fired := match px_states ob with [] => false | _ => true end in
      forallb (fun s => (sb_runs s =? 0) && Bool.eqb (sb_listed s) (negb (sb_match s && fired))) (ob_sibs ob)).

Definition timed_ok (ts : list tstate) (ob : obs) : bool :=
  obs_match ts ob && ((dup_ok ob && sibs_ok ob) && negb (any_foreign ob)).

(* runJob = r_step (RLocked: load active, load finalised; RSet; RSend; RUnl); CancelJob =
   cancel_lookup + c_step (CLocked: load/store finalised; CSend; CUnl); finaliseJob = finalise *)
Definition expected_skeleton (fn : string) : list string :=
  if String.eqb fn "runJob" then
    ["job.stateLock.Lock()"; "if job.active.Load() {"; "job.stateLock.Unlock()"; "return scheduler.ErrJobRunning"; "}";
     "if job.finalised.Load() {"; "job.stateLock.Unlock()"; "return scheduler.ErrJobFinalised"; "}";
     "job.active.Store(true)"; "job.runCh <- struct{}{}"; "job.stateLock.Unlock()"; "return nil"]%string
  else if String.eqb fn "CancelJob" then
    ["s.jobsMutex.Lock()"; "job, exists := s.jobs[name]"; "if !exists {"; "s.jobsMutex.Unlock()"; "return scheduler.ErrNoSuchJob"; "}";
     "delete(s.jobs, name)"; "s.jobsMutex.Unlock()"; "job.stateLock.Lock()";
     "if job.finalised.Load() {"; "job.stateLock.Unlock()"; "return nil"; "}";
     "job.finalised.Store(true)"; "job.cancelCh <- struct{}{}"; "job.stateLock.Unlock()"; "return nil"]%string
  else if String.eqb fn "finaliseJob" then
    ["job.stateLock.Lock()"; "job.finalised.Store(true)"; "close(job.cancelCh)"; "close(job.runCh)"; "job.stateLock.Unlock()"]%string
  else [].

(* a burst: the sequential operations return what the model returns; some interleaving of the
   lanes returns the observed codes and ends in a state with the observed table entry and run
   counts; from there the follow-up and the passing of the jobs' time give what was observed *)
Definition snapshot_ok (s : bstate) (n : N) (e : bool) (runs : list N) : bool :=
  Bool.eqb (held s) e && list_eqb N.eqb runs (runs_upto s (N.to_nat n)).

Definition opt_code_eqb (a b : option code) : bool :=
  match a, b with
  | None, None => true
  | Some x, Some y => code_eqb x y
  | _, _ => false
  end.

Definition burst_agree (b : burst) (o : bobs) : bool :=
  negb (bo_bad o) && bo_lists_ok o &&
  let per := bu_periodic b in
  let '(pre, n1) := number 0 (bu_pre b) in
  let '(lanes, n) := number_lanes n1 (bu_lanes b) in
  let '(s0, pre_codes) := b_run per bs_init pre in
  list_eqb code_eqb (bo_pre o) pre_codes &&
  match zip_lanes lanes (bo_lanes o) with
  | None => false
  | Some zl =>
      lin (Datatypes.S (ops_count zl)) per s0 zl
          (fun s1 =>
             snapshot_ok s1 n (bo_exists1 o) (bo_runs1 o) &&
             let '(s2, fc) := match bu_follow b with
                              | Some op => let '(s2, c) := b_step per s1 op 0 in (s2, Some c)
                              | None => (s1, None)
                              end in
             opt_code_eqb (bo_follow o) fc &&
             snapshot_ok s2 n (bo_exists2 o) (bo_runs2 o) &&
             let s3 := b_fire s2 in
             snapshot_ok s3 n (bo_exists3 o) (bo_runs3 o) &&
             code_eqb (bo_reuse o) (if held s3 then ErrJobAlreadyExists else Nil))
  end.

(* [Tabled]: the same history is also run against harness/mocks.RecScheduler, the abstract scheduler
   through which the models of C03, C14, C15 and C20 are tied to the code: its return values and listed
   names must equal the table model's (and so the real scheduler's).  Twice: [mk_inline] with RunInline
   (RunJob / RunJobIfExists call the job function: the per-job run counts must equal the model's) and
   [mk_rec] without (a run request is only recorded and the entry removed: every count is 0, by design).
   By design the mock never runs a job by its timer: the harness's explicit Fire is "the job's time
   arrives"; a TRun / TRunIf marked in [mk_fire] is issued to the mock as Fire (true = Nil, false =
   ErrNoSuchJob) and to the real scheduler as RunJob. *)


Definition mock_agree (outs' : list tout) (runs' : list (N * N)) (m : mockobs) : bool :=
  list_eqb tout_eqb (mk_inline_outs m) outs' && list_eqb (prod_eqb N.eqb N.eqb) (mk_inline_runs m) runs'
  && list_eqb tout_eqb (mk_rec_outs m) outs'
  && list_eqb (prod_eqb N.eqb N.eqb) (mk_rec_runs m) (map (fun r => (fst r, 0)) runs').

Definition agree (c : case) : bool :=
  match c_body c with
  | Timed sc os =>
      let ts := finals sc in
      match os with [] => false | _ => forallb (timed_ok ts) os end
  | Real sc os =>
      (* flake policy for runs outside bubbles: a disagreement counts when none of the serial
         repetitions is what the model predicts *)
      let ts := finals sc in existsb (timed_ok ts) os
  | Burst b os =>
      match os with [] => false | _ => forallb (burst_agree b) os end
  | Tabled ops outs runs m =>
      let '(s, outs') := tb_run tb_init ops in
      list_eqb tout_eqb outs outs' && list_eqb (prod_eqb N.eqb N.eqb) runs (tb_final_runs s)
      && mock_agree outs' (tb_final_runs s) m
  | Skeleton fn toks =>
      match expected_skeleton fn with [] => false | e => list_eqb String.eqb toks e end
  end.

(* --- the property on the observed outcome ------------------------------------------------------- *)

Definition ckind_eqb (a b : ckind) : bool :=
  match a, b with
  | KRun, KRun | KCancel, KCancel | KCtx, KCtx | KDup, KDup | KExists, KExists => true
  | _, _ => false
  end.

Definition ret_nil (s : cst) : bool := match s with Ret Nil => true | _ => false end.
(* RunJobIfExists / CancelJobIfExists say nothing: they may have succeeded *)
Definition maybe_nil (s : cst) : bool := match s with Ret Nil | Silent => true | _ => false end.

(* instants of the calls of kind k whose observed status satisfies p *)
Definition times_of (sc : script) (o : outcome) (k : ckind) (p : cst -> bool) : list N :=
  map (fun cs => cl_at (fst cs))
      (filter (fun cs => ckind_eqb (cl_kind (fst cs)) k && p (snd cs)) (combine (sc_calls sc) (o_calls o))).

Definition has_kind (sc : script) (k : ckind) : bool := existsb (fun c => ckind_eqb (cl_kind c) k) (sc_calls sc).

Definition all_lt (x : N) (l : list N) : bool := forallb (fun y => x <? y) l.   (* x before every y *)
Definition is_empty {X} (l : list X) : bool := match l with [] => true | _ => false end.
Definition len {X} (l : list X) : N := N.of_nat (length l).
Definition implb' (a b : bool) : bool := negb a || b.
Infix "==>" := implb' (at level 55, right associativity).

(* the name after the script: listed iff exists; free => accepted again and that job runs once;
   taken => the duplicate is refused *)
Definition name_ok (ob : obs) : bool :=
  let o := ob_out ob in
  Bool.eqb (ob_listed ob) (o_exists o)
  && (ob_hung ob
      || (if o_exists o then code_eqb (o_reuse o) ErrJobAlreadyExists && (o_reuse_runs o =? 0)
          else code_eqb (o_reuse o) Nil && (o_reuse_runs o =? 1))).

(* the instant before which the job is certainly still in the table: its time and every call that
   may remove it *)
Definition first_claim (sc : script) : N :=
  fold_left (fun m c => match cl_kind c with
                        | KRun | KCancel | KCtx => N.min m (cl_at c)
                        | _ => m
                        end) (sc_calls sc)
            (match sc_kind sc with
             | OneOff => sc_due sc
             | Periodic => if sc_ticks sc =? 0 then 0
                           else match sc_behind sc with None => sc_due sc | Some b => sc_due sc - b end   (* the first instance's time *)
             end).

Definition early_calls_ok (sc : script) (o : outcome) : bool :=
  forallb (fun cs =>
             let '(c, s) := cs in
             (cl_at c <? first_claim sc) ==>
               match cl_kind c with
               | KDup => cst_eqb s (Ret ErrJobAlreadyExists)
               | KExists => cst_eqb s (RetB true)
               | _ => true
               end)
          (combine (sc_calls sc) (o_calls o)).

(* calls clearly after a one-off job's time find nothing (scripts without a re-scheduling call) *)
Definition late_calls_ok (sc : script) (o : outcome) : bool :=
  has_kind sc KDup
  || forallb (fun cs =>
                let '(c, s) := cs in
                (sc_due sc <? cl_at c) ==>
                  match cl_kind c with
                  | KRun | KCancel => cst_eqb s (Ret ErrNoSuchJob) || cst_eqb s Silent
                  | KExists => cst_eqb s (RetB false)
                  | _ => true
                  end)
             (combine (sc_calls sc) (o_calls o)).

Definition dup_codes_ok (sc : script) (o : outcome) : bool :=
  forallb (fun cs =>
             let '(c, s) := cs in
             match cl_kind c with
             | KDup => cst_eqb s (Ret Nil) || cst_eqb s (Ret ErrJobAlreadyExists)
             | _ => true
             end)
          (combine (sc_calls sc) (o_calls o)).

(* every way of taking one element out of a list *)
Fixpoint pick {X} (l : list X) : list (X * list X) :=
  match l with
  | [] => []
  | x :: l' => (x, l') :: map (fun p => (fst p, x :: snd p)) (pick l')
  end.

(* "started by its timer, by an early-run request, or by both": every start has a cause of its own --
   the time of an instance ([insts]: the job's time, or the times runtimeFunc returned), or a run
   request that (possibly) succeeded, taken at once or, if jobFunc was in progress (a request tied
   with a timer start), when that execution returned.  No cause serves two starts: an instance that a
   run request has replaced is not run again by its own timer. *)
Fixpoint justified (dur : N) (prev : option N) (sts insts runs : list N) : bool :=
  match sts with
  | [] => true
  | s :: sts' =>
      existsb (fun p => (fst p =? s) && justified dur (Some s) sts' (snd p) runs) (pick insts)
      || existsb (fun p => (fst p <=? s)
                           && ((fst p =? s) || match prev with Some q => q + dur =? s | None => false end)
                           && justified dur (Some s) sts' insts (snd p)) (pick runs)
  end.

(* the same predicate, written with [if] so that the evaluation (vm_compute is call-by-value: both arguments
   of [&&] are computed) descends only into the branches whose test succeeded: linear instead of factorial
   for the long start lists of a job that runs back to back.  [Proofs/C02_Behind.justified_l_eq]: equal to
   [justified] on every argument. *)
Fixpoint justified_l (dur : N) (prev : option N) (sts insts runs : list N) : bool :=
  match sts with
  | [] => true
  | s :: sts' =>
      if existsb (fun p => if fst p =? s then justified_l dur (Some s) sts' (snd p) runs else false) (pick insts)
      then true
      else existsb (fun p => if fst p <=? s
                             then if (fst p =? s) || match prev with Some q => q + dur =? s | None => false end
                                  then justified_l dur (Some s) sts' insts (snd p) else false
                             else false) (pick runs)
  end.

Definition P_oneoff (sc : script) (ob : obs) : bool :=
  let o := ob_out ob in
  let T := sc_due sc in
  let E := sc_end sc in
  let st := o_starts o in
  let runs_ok := times_of sc o KRun ret_nil in
  let runs_may := times_of sc o KRun maybe_nil in
  let cancels_ok := times_of sc o KCancel ret_nil in
  let cancels_may := times_of sc o KCancel maybe_nil in
  let ctxs := times_of sc o KCtx (fun _ => true) in
  (* never twice, never overlapping, no panic, nothing left blocked *)
  (len st <=? 1) && (o_overlap o =? len st) && negb (o_panic o)
  && negb (ob_hung ob) && negb (hung_not_foreign (o_calls o) (ob_foreign ob))
  (* it starts at its time or when a run request asks for it, never at another moment *)
  && justified_l (sc_dur sc) None st [T] runs_may
  (* the job is claimed by at most one external call *)
  && (len runs_ok <=? 1) && (len cancels_ok <=? 1) && (is_empty runs_ok || is_empty cancels_ok)
  (* a run request that reported success means the job runs (then), unless the parent context is
     cancelled by then *)
  && forallb (fun tr => forallb (fun tx => tr <? tx) ctxs ==> list_eqb N.eqb st [tr]) runs_ok
  (* accepted, not cancelled, context alive at its time: runs exactly once, not later than its time,
     and at its time when nothing else started it *)
  && ((is_empty cancels_may && all_lt T ctxs && (T <=? E)) ==>
        ((len st =? 1) && forallb (fun s => s <=? T) st && (is_empty runs_may ==> list_eqb N.eqb st [T])))
  (* cancelled clearly before its time: never runs *)
  && (existsb (fun tc => tc <? T) cancels_ok ==> is_empty st)
  && (existsb (fun tx => (tx <? T) && all_lt tx runs_may) ctxs ==> is_empty st)
  (* the name: free once the job has started, has been cancelled or its time has passed *)
  && ((negb (is_empty st) || negb (is_empty cancels_ok) || (T <=? E)) ==> negb (o_exists o))
  && name_ok ob
  && early_calls_ok sc o && late_calls_ok sc o && dup_codes_ok sc o.

Fixpoint spaced (dur : N) (l : list N) : bool :=
  match l with
  | a :: (b :: _) as l' => (a + dur <=? b) && spaced dur l'
  | _ => true
  end.

Definition P_periodic (sc : script) (ob : obs) : bool :=
  let o := ob_out ob in
  let st := o_starts o in
  let runs_may := times_of sc o KRun maybe_nil in
  let undisturbed := negb (has_kind sc KCancel) && negb (has_kind sc KCtx) && negb (has_kind sc KDup)
                     && negb (ob_hung ob) && negb (hung_not_foreign (o_calls o) (ob_foreign ob)) in
  (* never overlaps itself *)
  (o_overlap o <=? 1) && (is_empty st ==> (o_overlap o =? 0)) && negb (o_panic o) && spaced (sc_dur sc) st
  (* one run per instance at most *)
  && (len st <=? sc_ticks sc) && (len st <=? len (ob_insts ob))
  (* every start is the timer of an instance at that instance's time, or a run request; an instance
     started early by a run request is not started again by its own timer *)
  && justified_l (sc_dur sc) None st (ob_insts ob) runs_may
  (* keeps ticking: left alone, every instance runs, except that a run request landing on an
     instance's time may replace that instance *)
  && ((undisturbed && (sc_ticks sc * (sc_due sc + sc_dur sc) + sc_dur sc <? sc_end sc)) ==>
        ((sc_ticks sc <=? len st + len runs_may) && negb (o_exists o)))
  && name_ok ob
  && early_calls_ok sc o && dup_codes_ok sc o.

(* --- the job table after the job's goroutine has ended, by whatever way out -----------------------
   "a finished job's name can be scheduled again", "an early-run request that reports success means the
   job runs": once the goroutine of the job has ended -- the parent context was cancelled (while it
   waited OR while jobFunc was in flight), CancelJob returned nil, runtimeFunc had no further instance
   (ErrNoMoreInstances or an error of its own), a one-off job was started -- the name refers to no job:
   JobExists is false, RunJob / CancelJob find no such job (a run request must not report success:
   nobody would run the job), a ScheduleJob of the name is accepted.  All of it is decided on the script and the observation:
   [gone_before t] = the observation shows that the goroutine had ended before instant [t]. *)
Definition is_dup (c : call) : bool := ckind_eqb (cl_kind c) KDup.

(* every execution of jobFunc that was observed had returned before instant t *)
Definition idle_before (sc : script) (o : outcome) (t : N) : bool :=
  forallb (fun s => s + sc_dur sc <? t) (o_starts o).

(* --- a cancellation that MUST have taken effect ---------------------------------------------------
   "A job cancelled clearly before its time never runs": CancelJobIfExists and CancelJobs(prefix) report
   nothing, so whether they cancelled the job is decided on the script and the observation: the call
   returned, and at its instant [tc] the job was certainly in the table -- one-off: before its time, no
   other call that can remove it (run, cancel, context) issued up to [tc]; periodic (it stays listed while
   an instance is in progress and while a run request has claimed it): no other cancel / context call up to
   [tc], and runtimeFunc had not handed out its last instance by the end of the script.  A CancelJob that
   returned nil took effect by its own word.  (Period 0 is left out: the next instance is due the moment it
   is handed out, so the timer and the cancel signal are both ready and either may be taken.) *)
Fixpoint indexed {X} (i : nat) (l : list X) : list (nat * X) :=
  match l with [] => [] | x :: l' => (i, x) :: indexed (Datatypes.S i) l' end.

Definition removes_b (k : kind) (c : ckind) : bool :=
  match c, k with
  | KCancel, _ | KCtx, _ => true
  | KRun, OneOff => true
  | _, _ => false
  end.

Definition certainly_listed (sc : script) (ob : obs) (i : nat) (tc : N) : bool :=
  negb (existsb (fun jc => negb (Nat.eqb (fst jc) i) && removes_b (sc_kind sc) (cl_kind (snd jc)) && (cl_at (snd jc) <=? tc))
                (indexed 0 (sc_calls sc)))
  && match sc_kind sc with
     | OneOff => tc <? sc_due sc
     | Periodic => len (ob_insts ob) <? sc_ticks sc
     end.

Definition effective_cancels_any (sc : script) (ob : obs) : list N :=
  map (fun x => cl_at (fst (snd x)))
      (filter (fun x => let '(i, (c, s)) := x in
                        ckind_eqb (cl_kind c) KCancel
                        && (ret_nil s || (cst_eqb s Silent && certainly_listed sc ob i (cl_at c))))
              (indexed 0 (combine (sc_calls sc) (o_calls (ob_out ob))))).

(* A periodic job whose instances can be due the moment they are handed out (period 0, or a fixed-rate
   schedule: the job may overrun its period, the schedule may start behind) is left out of the clause
   [cancelled_never_runs]: at every pass through the select the timer and the cancel signal are both ready
   and either may be taken; what must hold of such a job is [cancel_heeded] below. *)
Definition effective_cancels (sc : script) (ob : obs) : list N :=
  match sc_kind sc, sc_due sc, sc_behind sc with
  | Periodic, 0, _ => []
  | Periodic, _, Some _ => []
  | _, _, _ => effective_cancels_any sc ob
  end.

(* the instances whose time lies after such a cancellation start nothing, and no run request issued after
   it does: every start has its cause (an instance's time, a run request) at or before the cancellation *)
Definition cancelled_never_runs (sc : script) (ob : obs) : bool :=
  ob_hung ob
  || forallb (fun tc =>
                justified_l (sc_dur sc) None (o_starts (ob_out ob))
                          (filter (fun L => L <=? tc) (match sc_kind sc with OneOff => [sc_due sc] | Periodic => ob_insts ob end))
                          (filter (fun r => r <=? tc) (times_of sc (ob_out ob) KRun maybe_nil)))
             (effective_cancels sc ob).

Definition gone_before (sc : script) (ob : obs) (t : N) : bool :=
  let o := ob_out ob in
  (0 <? t) && idle_before sc o t
  && (existsb (fun tx => tx <? t) (times_of sc o KCtx (fun _ => true))
      || existsb (fun tc => tc <? t) (times_of sc o KCancel ret_nil)
      || existsb (fun tc => tc <? t) (effective_cancels sc ob)
      || match sc_kind sc with
         | OneOff => (sc_due sc <? t) || existsb (fun tr => tr <? t) (times_of sc o KRun ret_nil)
         | Periodic => (len (ob_insts ob) =? sc_ticks sc) && forallb (fun L => L + sc_dur sc <? t) (ob_insts ob)
         end).

(* no other ScheduleJob of the name was issued up to the instant of call c (such a job, if accepted,
   holds the name; the harness never generates that) *)
Definition no_other_dup (sc : script) (c : call) : bool :=
  len (filter (fun d => is_dup d && (cl_at d <=? cl_at c)) (sc_calls sc)) <=? (if is_dup c then 1 else 0).

Definition after_exit_ok (sc : script) (ob : obs) : bool :=
  let o := ob_out ob in
  ob_hung ob
  || ((* at the end of the script *)
      (gone_before sc ob (sc_end sc) && negb (has_kind sc KDup)) ==> negb (o_exists o))
     && forallb (fun cs =>
                   let '(c, s) := cs in
                   (gone_before sc ob (cl_at c) && no_other_dup sc c) ==>
                     match cl_kind c with
                     | KRun | KCancel =>   (* "no such job" (or silent, or an error that is none of the
                                              scheduler's: [Hung] + [ob_foreign]); ErrJobRunning / ErrJobFinalised
                                              would speak of a job that is no longer there *)
                         cst_eqb s (Ret ErrNoSuchJob) || cst_eqb s Silent || is_hung s
                     | KExists => cst_eqb s (RetB false)
                     | KDup => cst_eqb s (Ret Nil)
                     | KCtx => true
                     end)
                (combine (sc_calls sc) (o_calls o)).

(* periodic: a run request that reported success starts the job at that instant, when nothing cancels
   the job or its context up to then and runtimeFunc hands out a further instance at or after it (a
   request tied with the LAST instance may be answered nil and then dropped: noted, not condemned) *)
Definition run_success_starts (sc : script) (ob : obs) : bool :=
  let o := ob_out ob in
  ob_hung ob || (sc_due sc =? 0)
  || match sc_behind sc with Some _ => true | None => false end   (* instances that are due at once can be used up
                                                                      by the timer branch finding [active] set *)
  || forallb (fun tr =>
                (forallb (fun tx => tr <? tx) (times_of sc o KCtx (fun _ => true) ++ times_of sc o KCancel maybe_nil)
                 && existsb (fun L => tr + sc_due sc <=? L) (ob_insts ob))
                  ==> existsb (N.eqb tr) (o_starts o))
             (times_of sc o KRun ret_nil).

(* "a finished job's name can be scheduled again": the job accepted under the name IS scheduled --
   it is in the table (visible to JobExists, RunJob, CancelJob and to the duplicate check) as long as
   nothing claims it *)
Definition P_timed (sc : script) (ob : obs) : bool :=
  dup_ok ob && match sc_kind sc with OneOff => P_oneoff sc ob | Periodic => P_periodic sc ob end.

(* in a bubble (instants are exact there): also the clauses about the table after the goroutine's end *)
Definition P_timed_exact (sc : script) (ob : obs) : bool :=
  P_timed sc ob && after_exit_ok sc ob && cancelled_never_runs sc ob && sibs_ok ob
  && match sc_kind sc with OneOff => true | Periodic => run_success_starts sc ob end.

(* --- a cancellation is heeded whatever the schedule ----------------------------------------------
   "A job cancelled ... never runs": the goroutine of a periodic job looks at its cancel channel, its context
   and its run channel between any two instances -- also when the next instance is ALREADY DUE the moment
   runtimeFunc hands it out (a fixed-rate schedule whose job overruns its period, a catch-up after a stall, a
   runtime function that says "now").  [stops]: the cancellations that certainly took effect (the parent
   context cancelled; a CancelJob that returned nil; a silent cancellation that returned while the job was
   certainly listed).  [ignored k]: some such cancellation at [tc] was followed by a start later than
   tc + k executions of jobFunc: the goroutine went through at least k passes without heeding it.
   With Go's select a pending cancellation and a timer that is already due are both ready and one is
   chosen at random, so a single run may legitimately show a few more instances (each with probability 1/2).
   In a bubble (the harness module's timer channels) the clause is therefore about the REPETITIONS of one
   script: of twelve or more, not every one shows a cancellation ignored for more than five instances (for
   the code as modelled the probability of that is below 2^-72; a goroutine that does not look is always
   condemned).  In real time with the timer channels production has, a timer created for an instant that
   has passed is not yet ready when the select polls, the pending cancellation wins: there the clause is per
   repetition, with k = 2 (flake policy as for every real-time case: all serial repetitions must show it). *)
Definition stops (sc : script) (ob : obs) : list N :=
  times_of sc (ob_out ob) KCtx (fun _ => true) ++ effective_cancels_any sc ob.

Definition ignored (k : N) (sc : script) (ob : obs) : bool :=
  existsb (fun tc => existsb (fun s => tc + k * sc_dur sc <? s) (o_starts (ob_out ob))) (stops sc ob).

Definition total_count (os : list obs) : N := fold_right (fun ob n => ob_count ob + n) 0 os.

Definition cancel_heeded (sc : script) (os : list obs) : bool :=
  (total_count os <? 12) || existsb (fun ob => negb (ignored 5 sc ob)) os.

(* the table of names, as a specification over the set of live names: [live] maps a name to the
   (id, periodic?) of the accepted job that holds it *)
Fixpoint live_get (live : list (name * (N * bool))) (n : name) : option (N * bool) :=
  match live with
  | [] => None
  | (n', x) :: l => if n =? n' then Some x else live_get l n
  end.
Definition live_del (live : list (name * (N * bool))) (n : name) : list (name * (N * bool)) :=
  filter (fun e => negb (fst e =? n)) live.

Fixpoint count_of (l : list N) (j : N) : N :=
  match l with [] => 0 | x :: l' => (if x =? j then 1 else 0) + count_of l' j end.

Fixpoint ids_below (n : nat) : list N :=
  match n with O => [] | Datatypes.S n' => ids_below n' ++ [N.of_nat n'] end.

(* [started] = ids of the jobs on which a RunJob reported success, one entry per success *)
Fixpoint tspec (live : list (name * (N * bool))) (next : N) (started : list N)
         (ops : list top) (outs : list tout) (runs : list (N * N)) : bool :=
  match ops, outs with
  | [], [] =>
      (* every accepted job ran exactly as often as a run request on it reported success *)
      list_eqb (prod_eqb N.eqb N.eqb) runs (map (fun j => (j, count_of started j)) (ids_below (N.to_nat next)))
  | o :: ops', x :: outs' =>
      match o, x with
      | TSched n p, TCode Nil =>
          match live_get live n with None => tspec ((n, (next, p)) :: live) (next + 1) started ops' outs' runs | Some _ => false end
      | TSched n p, TCode ErrJobAlreadyExists =>
          match live_get live n with Some _ => tspec live next started ops' outs' runs | None => false end
      | TRun n, TCode Nil =>
          match live_get live n with
          | Some (j, p) => tspec (if p then live else live_del live n) next (j :: started) ops' outs' runs
          | None => false
          end
      | TRunIf n, TSilent =>
          match live_get live n with
          | Some (j, p) => tspec (if p then live else live_del live n) next (j :: started) ops' outs' runs
          | None => tspec live next started ops' outs' runs
          end
      | TCancelIf n, TSilent => tspec (live_del live n) next started ops' outs' runs
      | TRun n, TCode ErrNoSuchJob | TCancel n, TCode ErrNoSuchJob =>
          match live_get live n with None => tspec live next started ops' outs' runs | Some _ => false end
      | TCancel n, TCode Nil =>
          match live_get live n with Some _ => tspec (live_del live n) next started ops' outs' runs | None => false end
      | TExists n, TBool b =>
          Bool.eqb b (match live_get live n with Some _ => true | None => false end) && tspec live next started ops' outs' runs
      | TList, TNames l =>
          list_eqb N.eqb l (sort_by (fun x => x) (map fst live)) && tspec live next started ops' outs' runs
      | TCancelAll, TCode Nil => tspec [] next started ops' outs' runs
      | TCancelSet l, TCode Nil =>
          (* exactly the live names that have the prefix are gone, none of them runs *)
          tspec (filter (fun e => negb (existsb (N.eqb (fst e)) l)) live) next started ops' outs' runs
      | _, _ => false
      end
  | _, _ => false
  end.

(* --- bursts: the counting laws of the property, on the observation alone --------------------------
   The name starts free.  A = accepted ScheduleJob calls, C = CancelJob calls that returned nil,
   R = RunJob calls that returned nil, E = 1 if the name is listed when the burst has come to rest.
   "duplicate rejected / a name is held by at most one job": every accepted job is either still the
   one listed or was claimed by exactly one successful call: one-off A = C + R + E; periodic (RunJob
   does not release the name) A = C + E.  "an early-run request that reports success means the job
   runs", "never twice": the runs are the successful run requests, each one-off job at most once, a
   refused ScheduleJob never runs.  "a job cancelled clearly before its time never runs", "not
   cancelled: runs exactly once": when the time has passed the only additional run is that of the
   job then listed, and the name is free again. *)
Definition codes_with (ops : list bop) (cs : list code) : list (bop * code) := combine ops cs.

Definition count_oc (l : list (bop * code)) (o : bop) (c : code) : N :=
  len (filter (fun x => bop_eqb (fst x) o && code_eqb (snd x) c) l).

Definition sum_N (l : list N) : N := fold_right N.add 0 l.

Fixpoint pointwise_le (a b : list N) : bool :=
  match a, b with
  | [], [] => true
  | x :: a', y :: b' => (x <=? y) && pointwise_le a' b'
  | _, _ => false
  end.

Definition code_allowed (x : bop * code) : bool :=
  match x with
  | (BoSched, Nil) | (BoSched, ErrJobAlreadyExists) => true
  | (BoCancel, Nil) | (BoCancel, ErrNoSuchJob) => true
  | (BoRun, Nil) | (BoRun, ErrNoSuchJob) => true
  | (BoCtx, Nil) | (BoRelease _, Nil) => true
  | _ => false
  end.

Definition shape_ok (b : burst) (o : bobs) : bool :=
  (length (bo_pre o) =? length (bu_pre b))%nat
  && list_eqb Nat.eqb (map (@length code) (bo_lanes o)) (map (@length bop) (bu_lanes b)).

Definition bN' (b : bool) : N := if b then 1 else 0.

Definition P_burst (b : burst) (o : bobs) : bool :=
  let per := bu_periodic b in
  let ops := bu_pre b ++ concat (bu_lanes b) in
  let cs := bo_pre o ++ concat (bo_lanes o) in
  let oc := codes_with ops cs in
  let A := count_oc oc BoSched Nil in
  let C := count_oc oc BoCancel Nil in
  let R := count_oc oc BoRun Nil in
  let E1 := bN' (bo_exists1 o) in
  let sched_codes := map snd (filter (fun x => bop_eqb (fst x) BoSched) oc) in
  let refused_never_run (runs : list N) :=
      forallb (fun x => code_eqb (fst x) Nil || (snd x =? 0)) (combine sched_codes runs) in
  let at_most_once (runs : list N) := per || forallb (fun r => r <=? 1) runs in
  let found := if bo_exists1 o then Nil else ErrNoSuchJob in
  negb (bo_bad o) && bo_lists_ok o && shape_ok b o && forallb code_allowed oc
  && (len (bo_runs1 o) =? len sched_codes) && (len (bo_runs2 o) =? len sched_codes) && (len (bo_runs3 o) =? len sched_codes)
  (* the name is held by at most one job (when the context of the job that held the name before the
     burst is cancelled during the burst, that one job may have left the table by itself) *)
  && (C + (if per then 0 else R) + E1 <=? A)
  && (A <=? C + (if per then 0 else R) + E1 + (if existsb (fun x => bop_eqb (fst x) BoCtx) oc then 1 else 0))
  (* at rest after the burst: the runs are the successful run requests *)
  && (sum_N (bo_runs1 o) =? R) && at_most_once (bo_runs1 o) && refused_never_run (bo_runs1 o)
  (* the follow-up, issued at rest *)
  && match bu_follow b, bo_follow o with
     | None, None => Bool.eqb (bo_exists2 o) (bo_exists1 o) && list_eqb N.eqb (bo_runs2 o) (bo_runs1 o)
     | Some BoCancel, Some c =>
         code_eqb c found && negb (bo_exists2 o) && list_eqb N.eqb (bo_runs2 o) (bo_runs1 o)
     | Some BoRun, Some c =>
         code_eqb c found && Bool.eqb (bo_exists2 o) (per && bo_exists1 o)
         && (sum_N (bo_runs2 o) =? R + E1) && pointwise_le (bo_runs1 o) (bo_runs2 o)
     | _, _ => false
     end
  && at_most_once (bo_runs2 o) && refused_never_run (bo_runs2 o)
  (* the jobs' time has passed: the job then listed ran once more, nothing else did; the name is free *)
  && negb (bo_exists3 o)
  && (sum_N (bo_runs3 o) =? sum_N (bo_runs2 o) + bN' (bo_exists2 o)) && pointwise_le (bo_runs2 o) (bo_runs3 o)
  && at_most_once (bo_runs3 o) && refused_never_run (bo_runs3 o)
  && code_eqb (bo_reuse o) Nil.

Definition P_b (c : case) : bool :=
  match c_body c with
  | Timed sc os => forallb (P_timed_exact sc) os && cancel_heeded sc os
  | Real sc os => existsb (fun ob => P_timed sc ob && negb (ignored 2 sc ob)) os   (* counts when every serial repetition shows it; instants read
                                               back from real time are not exact: no [after_exit_ok] *)
  | Burst b os => forallb (P_burst b) os
  | Tabled ops outs runs _ => tspec [] 0 [] ops outs runs
  | Skeleton _ _ => true      (* no clause of the property speaks of the source text *)
  end.

Definition mismatches (cs : list case) : list N := failing_ids c_id agree cs.
Definition violations (cs : list case) : list N := failing_ids c_id P_b cs.
