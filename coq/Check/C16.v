(* C16 correspondence: cases as printed by harness/c16.

   One case = one input of one of the eight paths, with what the real code did on it (a recovered
   panic is an observed outcome).  [agree]: the model with every guard present ([..._now]) predicts
   exactly the observed outcome.  [P_b]: the property on the observed outcome alone: no panic on
   any input of the domain, and the error / fallback the statement names. *)
From Verif Require Export Lib.Base Model.C16_Paths Model.C16_Sessions Model.C16_Bids Model.C16_Aggsel.

(* ------------------------------------------------------------------------------------------- *)
(* equality tests *)

Definition bytes_eqb := list_eqb N.eqb.

Definition outcome_eqb {A E} (ea : A -> A -> bool) (ee : E -> E -> bool) (x y : outcome A E) : bool :=
  match x, y with
  | Ok a, Ok b => ea a b
  | Err a, Err b => ee a b
  | Panic, Panic => true
  | _, _ => false
  end.

Definition unit_eqb (_ _ : unit) : bool := true.
Definition cfg_err_eqb (a b : cfg_err) : bool :=
  match a, b with CEDecode, CEDecode => true | CELookup, CELookup => true | _, _ => false end.
Definition att_err_eqb (_ _ : att_err) : bool := true.
Definition gr_err_eqb (_ _ : gr_err) : bool := true.

Definition trace_eqb (a b : p1_trace) : bool :=
  bytes_eqb (t_graffiti a) (t_graffiti b) && Bool.eqb (t_signed a) (t_signed b)
  && list_eqb N.eqb (sort_by (fun x => x) (t_unblind a)) (sort_by (fun x => x) (t_unblind b))
  && Bool.eqb (t_submitted a) (t_submitted b).

Definition row_eqb (a b : att_row) : bool :=
  let '(v1, c1, s1, b1) := a in let '(v2, c2, s2, b2) := b in
  (v1 =? v2) && (c1 =? c2) && (s1 =? s2) && Bool.eqb b1 b2.

(* ------------------------------------------------------------------------------------------- *)
(* inputs and observations *)

Inductive input :=
| IPropose (i : p1_in)
| IRelays (rs : list fetch_res)
| IGraffiti (g : list N) (ps : list node_client)       (* providers in the observed iteration order *)
| IConfig (steps : list (doc * list (N * N)))          (* documents fetched in turn; lookups (account, pubkey) after each *)
| IDuties (ds : list aduty) (held : list N)
| IHead (h : head_in)
| IErrBody (s : server) (b : err_body)
| IDynamic (primary : fetch) (fallback : option fetch)
(* sessions: one service instance, several operations, providers scripted call by call *)
| IHeadSeq (script : list block_answer) (evs : list head_event)
| IDynamicSeq (calls : N) (ps : list fetch) (fs : option (list fetch))
| IProposeSeq (ops : list p1_in)
| IBidSeq (s : list (list bid_relay))                  (* one builder-bid strategy; per auction the relays with their keys and answers *)
| IAggSel (target : N) (sign_ok : bool) (rows : list (N * N)).
                                                       (* aggregator selection: TARGET_AGGREGATORS_PER_COMMITTEE, does the slot signer
                                                          answer, per validator (committee length, first 8 bytes of the hashed signature) *)

Inductive observed :=
| OPropose (panicked : bool) (tr : p1_trace)
| ORelays (o : outcome (list N) unit)
| OGraffiti (o : outcome (list (list N)) unit)
| OConfig (steps : list (outcome unit cfg_err * list (outcome (list N) cfg_err) * outcome (list N) cfg_err))
                                                       (* per step: decode, lookups, relays reached by the registration round *)
| ODuties (l : list (N * outcome (list att_row) att_err))
| OHead (o : outcome (option N) unit)
| OErrBody (o : outcome unit unit)
| ODynamic (o : outcome (list N) gr_err)               (* the line that was chosen *)
| OHeadSeq (l : list (outcome (option N) unit))        (* the execution head after the constructor and after each event, up to the first panic *)
| ODynamicSeq (l : list (outcome (list N) gr_err))     (* the line chosen by each call *)
| OProposeSeq (l : list (bool * p1_trace))             (* per proposal: panicked?, what the mocks saw; up to the first panic *)
| OBidSeq (l : list (outcome (list N * list N * N * list N) unit))
                                                       (* per auction: AllProviders, Providers, the winning score, the relays
                                                          with a participation; up to the first panic (the process is gone) *)
| OAggSel (o : outcome (bool * list bool) unit).      (* the signer's signatures handed back unchanged?, aggregator per validator *)

Record case := { c_id : N; c_in : input; c_obs : observed }.

(* ------------------------------------------------------------------------------------------- *)
(* the model's prediction, in the shape of the observation *)

Fixpoint config_run (cur : option config) (steps : list (doc * list (N * N)))
  : list (outcome unit cfg_err * list (outcome (list N) cfg_err) * outcome (list N) cfg_err) :=
  match steps with
  | [] => []
  | (d, lks) :: steps' =>
      let dec := decode true d in
      let cur' := match dec with Ok c => Some c | _ => cur end in
      (match dec with Ok _ => Ok tt | Err e => Err e | Panic => Panic end,
       map (fun ak => match lookup true cur' (fst ak) (snd ak) with
                      | Ok l => Ok (sort_by (fun x => x) l)
                      | o => o
                      end) lks,
       registration_round cur')
      :: config_run cur' steps'
  end.

Definition sorted_ids := sort_by (fun x : N => x).
Definition id_set (l : list N) : list N := sorted_ids (dedup l []).

Definition dynamic_agree (o : outcome (list N) gr_err) (m : outcome (list (list N)) gr_err) : bool :=
  match o, m with
  | Ok line, Ok ls => memb bytes_eqb line ls
  | Err _, Err _ => true
  | Panic, Panic => true
  | _, _ => false
  end.

Fixpoint all2 {A B} (f : A -> B -> bool) (l : list A) (m : list B) : bool :=
  match l, m with
  | [], [] => true
  | a :: l', b :: m' => f a b && all2 f l' m'
  | _, _ => false
  end.

(* an auction's result in the shape of the observation; Providers and the participation map as sets *)
Definition auction_obs (o : outcome auction_res unit) : outcome (list N * list N * N * list N) unit :=
  match o with
  | Ok r => Ok (ar_all r, ar_winners r, ar_score r, ar_participants r)
  | Err e => Err e
  | Panic => Panic
  end.

Definition auction_obs_eqb (a b : list N * list N * N * list N) : bool :=
  let '(a1, w1, s1, p1) := a in let '(a2, w2, s2, p2) := b in
  list_eqb N.eqb a1 a2 && list_eqb N.eqb (id_set w1) (id_set w2) && (s1 =? s2) && list_eqb N.eqb (id_set p1) (id_set p2).

Definition agree (c : case) : bool :=
  match c_in c, c_obs c with
  | IPropose i, OPropose p tr =>
      let '(mtr, st) := propose_now i in
      Bool.eqb p (is_panic st) && trace_eqb tr mtr
  | IRelays rs, ORelays o => outcome_eqb (list_eqb N.eqb) unit_eqb o (issue_now rs)
  | IGraffiti g ps, OGraffiti o => outcome_eqb (list_eqb bytes_eqb) unit_eqb o (graffiti_now g ps)
  | IConfig steps, OConfig obs =>
      list_eqb (prod_eqb (prod_eqb (outcome_eqb unit_eqb cfg_err_eqb)
                                   (list_eqb (outcome_eqb (fun a b => list_eqb N.eqb (sorted_ids a) (sorted_ids b)) cfg_err_eqb)))
                         (outcome_eqb (fun a b => list_eqb N.eqb (id_set a) (id_set b)) cfg_err_eqb))
               obs (config_run None steps)
  | IDuties ds held, ODuties l =>
      list_eqb (prod_eqb N.eqb (outcome_eqb (list_eqb row_eqb) att_err_eqb)) l (attest_all_now ds held)
  | IHead h, OHead o => outcome_eqb (option_eqb N.eqb) unit_eqb o (handle_head_now h)
  | IErrBody s b, OErrBody o => outcome_eqb unit_eqb unit_eqb o (classify_now s b)
  | IDynamic p f, ODynamic o => dynamic_agree o (dynamic_graffiti p f)
  | IHeadSeq script evs, OHeadSeq l =>
      list_eqb (outcome_eqb (option_eqb N.eqb) unit_eqb) l (head_session_now script evs)
  | IDynamicSeq calls ps fs, ODynamicSeq l =>
      all2 dynamic_agree l (dynamic_session (N.to_nat calls) ps fs)
  | IProposeSeq ops, OProposeSeq l =>
      all2 (fun o m => Bool.eqb (fst o) (fst m) && trace_eqb (snd o) (snd m)) l (propose_seq_now ops)
  | IBidSeq s, OBidSeq l =>
      list_eqb (outcome_eqb auction_obs_eqb unit_eqb) l (map auction_obs (bid_session_now s))
  | IAggSel target sign_ok rows, OAggSel o =>
      outcome_eqb (prod_eqb Bool.eqb (list_eqb Bool.eqb)) unit_eqb o
                  (match aggsel_now target sign_ok rows with Ok l => Ok (true, l) | Err e => Err e | Panic => Panic end)
  | _, _ => false
  end.

(* ------------------------------------------------------------------------------------------- *)
(* the property on the observed outcome *)

(* path 1 *)
Definition reaches_signing (i : p1_in) : option proposal :=
  match p1_proposal i with
  | Some p => if version_handled (pr_version p) && pr_present p && pr_slot_ok p && p1_sign_ok i then Some p else None
  | None => None
  end.

Definition auction_unblinders (i : p1_in) : list N :=
  match p1_auction i with
  | ARes a => map pv_id (filter pv_unblinds (au_providers a ++ au_all a))
  | _ => []
  end.

Definition in_decoder_domain (i : p1_in) : bool :=
  match p1_proposal i with Some p => negb (lib_nil_deneb p) | None => true end.

Definition P_propose (i : p1_in) (panicked : bool) (tr : p1_trace) : bool :=
  negb (in_decoder_domain i) ||        (* outside what the decoders can deliver: nothing claimed *)
  negb panicked
  (* the graffiti handed to the node is 32 bytes; a failing graffiti provider means no graffiti *)
  && (lenN (t_graffiti tr) =? 32)
  && match p1_graffiti i with GErr | GNoProvider => forallb (N.eqb 0) (t_graffiti tr) | GBytes _ => true end
  && match reaches_signing i with
     | None => negb (t_signed tr) && negb (t_submitted tr) && (lenN (t_unblind tr) =? 0)
     | Some p =>
         t_signed tr &&
         if pr_blinded p then
           (* only relays of the auction that can unblind are asked; without an auction result the
              duty ends with an error: nothing is asked, nothing is submitted *)
           forallb (fun r => memb N.eqb r (auction_unblinders i)) (t_unblind tr)
           && (match p1_auction i with
               | ARes _ => true
               | _ => (lenN (t_unblind tr) =? 0) && negb (t_submitted tr)
               end)
           && (if t_submitted tr then 0 <? lenN (t_unblind tr) else true)
         else
           (* a local payload is submitted whatever the auction did *)
           t_submitted tr && (lenN (t_unblind tr) =? 0)
     end.

(* path 2 *)

Definition P_relays (rs : list fetch_res) (o : outcome (list N) unit) : bool :=
  match o with
  | Ok l => list_eqb N.eqb l (good_relays rs)      (* an unusable relay is skipped, every usable one is asked *)
  | _ => false
  end.

(* path 3 *)

Definition P_graffiti (g : list N) (ps : list node_client) (o : outcome (list (list N)) unit) : bool :=
  match o with
  | Ok l =>
      (lenN l =? lenN ps) && forallb (fun x => lenN x =? 32) l
      && (if existsb can_name ps then true else forallb (bytes_eqb g) l)   (* no client name: graffiti untouched *)
  | _ => false
  end.

(* path 4 *)

Definition doc_rejectable (d : doc) : bool :=
  match d with DUnavailable | DMalformed | DVersion _ | DBare _ => true | _ => false end.

Definition lookups_eqb := list_eqb (prod_eqb N.eqb N.eqb).
Definition outs_eqb :=
  list_eqb (outcome_eqb (fun a b : list N => list_eqb N.eqb (sort_by (fun x => x) a) (sort_by (fun x => x) b)) cfg_err_eqb).

Definition reg_eqb (a b : outcome (list N) cfg_err) : bool :=
  outcome_eqb (fun a b => list_eqb N.eqb (id_set a) (id_set b)) cfg_err_eqb a b.

(* [prev] = the lookups asked and answered after the last accepted document, and the relays its
   registration round reached *)
Fixpoint P_config_steps (prev : option (list (N * N) * list (outcome (list N) cfg_err) * outcome (list N) cfg_err))
         (steps : list (doc * list (N * N)))
         (obs : list (outcome unit cfg_err * list (outcome (list N) cfg_err) * outcome (list N) cfg_err)) : bool :=
  match steps, obs with
  | [], [] => true
  | (d, lks) :: steps', (dec, outs, reg) :: obs' =>
      negb (is_panic dec) && forallb (fun o => negb (is_panic o)) outs
      (* the registration round that follows the refresh neither panics nor fails as a whole *)
      && is_ok reg
      && (lenN outs =? lenN lks)
      (* unreadable / malformed / unknown-version documents are rejected *)
      && (if doc_rejectable d then is_err dec else true)
      && (match dec, prev with
          (* with no configuration at all every lookup falls back to "no relays" *)
          | Err _, None => forallb (fun o => match o with Ok [] => true | _ => false end) outs
                           && match reg with Ok [] => true | _ => false end
          (* a rejected document leaves the previous configuration in place *)
          | Err _, Some (lks', outs', reg') => (if lookups_eqb lks lks' then outs_eqb outs outs' else true) && reg_eqb reg reg'
          | _, _ => true
          end)
      && P_config_steps (match dec with Ok _ => Some (lks, outs, reg) | _ => prev end) steps' obs'
  | _, _ => false
  end.

(* path 5: the specification, by slot, written without the merging loop *)
Definition slots_of (ds : list aduty) : list N :=
  dedup (map ad_slot (sort_duties ds)) [].

(* the duty entry that decides validator [v]'s attestation in slot [s]: the last one in
   (committee, validator) order *)
Definition deciding (ds : list aduty) (s v : N) : option aduty :=
  last (map Some (filter (fun d => (ad_slot d =? s) && (ad_vidx d =? v)) (sort_duties ds))) None.

(* the committee length in force for committee [c] of slot [s]: the last entry of that committee *)
Definition length_in_force (ds : list aduty) (s c : N) : N :=
  match last (map Some (filter (fun d => (ad_slot d =? s) && (ad_cidx d =? c)) (sort_duties ds))) None with
  | Some d => ad_clen d
  | None => 0
  end.

Definition expected_rows (ds : list aduty) (held : list N) (s : N) : list att_row :=
  let vs := sorted_ids (filter (fun v => memb N.eqb v held)
                               (dedup (map ad_vidx (filter (fun d => ad_slot d =? s) ds)) [])) in
  flat_map (fun v => match deciding ds s v with
                     | Some d =>
                         let size := length_in_force ds s (ad_cidx d) in
                         if max_committee <? size then []
                         else [(v, ad_cidx d, size, ad_vcidx d <? size)]
                     | None => []
                     end) vs.

(* The statement condemns the crash, not an (unusable) attestation over an oversize committee: rows
   over committees above the maximum are ignored here ([agree] pins them down); what is demanded is
   that no slot panics and that every validator with a sane committee still gets its attestation,
   whatever the other entries of the slot say. *)
Definition sane_rows (rows : list att_row) : list att_row :=
  filter (fun r => negb (max_committee <? snd (fst r))) rows.

Definition P_duties (ds : list aduty) (held : list N) (l : list (N * outcome (list att_row) att_err)) : bool :=
  list_eqb N.eqb (map fst l) (slots_of ds)
  && forallb (fun so =>
       match snd so with
       | Panic => false
       | Ok rows => negb (lenN rows =? 0) && list_eqb row_eqb (sane_rows rows) (expected_rows ds held (fst so))
       | Err _ => lenN (expected_rows ds held (fst so)) =? 0
       end) l.

(* path 6 *)
Definition P_head (h : head_in) (o : outcome (option N) unit) : bool :=
  match h with
  | HBlock b =>
      if decoder_wf b then
        match o with
        | Ok r =>
            let v := bk_version b in
            option_eqb N.eqb r
              (if (3 <=? v) && (v <=? 5) && bk_payload b && negb (bk_state_zero b) then Some (bk_exec b) else None)
        | _ => false
        end
      else true                         (* outside what the decoders can deliver: nothing claimed *)
  | _ => match o with Ok None => true | _ => false end
  end.

(* path 7 *)

Definition P_errbody (s : server) (b : err_body) (o : outcome unit unit) : bool :=
  match o with
  | Panic => false
  | Ok _ =>
      match s, b with
      | SOther, _ => false
      | _, BFailures l => (0 <? lenN l) && all_tolerated l
      | _, _ => false
      end
  | Err _ =>
      match s, b with
      | SOther, _ => true
      | _, BFailures l => negb ((0 <? lenN l) && all_tolerated l)
      | _, _ => true
      end
  end.

(* path 8 *)
Definition P_dynamic (p : fetch) (f : option fetch) (o : outcome (list N) gr_err) : bool :=
  let final := match p, f with FData d, _ => FData d | _, Some x => x | x, None => x end in
  match o, final with
  | Panic, _ => false
  | Err _, FOther => true
  | Err _, _ => false
  | Ok line, FNotFound => lenN line =? 0
  | Ok line, FData d => negb (memb N.eqb LF line) && (contains line d || (lenN line =? 0))
  | Ok _, FOther => false
  end.

(* sessions.  What is claimed does not depend on how many calls an operation makes (a handler that
   asks twice is not condemned by the statement; [agree] pins the number of calls down): no
   operation panics while every scripted answer is one the client library can deliver, the
   process survives every event, an event without data and a failing fetch leave the head alone,
   the head only ever moves to a block the node served; and where every call gets the same answer
   the outcome of each operation is exactly the single-operation one. *)
Definition block_shape_eqb (a b : block_shape) : bool :=
  (bk_version a =? bk_version b) && Bool.eqb (bk_container a) (bk_container b) && Bool.eqb (bk_message a) (bk_message b)
  && Bool.eqb (bk_body a) (bk_body b) && Bool.eqb (bk_payload a) (bk_payload b)
  && Bool.eqb (bk_state_zero a) (bk_state_zero b) && (bk_exec a =? bk_exec b).

Definition block_answer_eqb (a b : block_answer) : bool :=
  match a, b with
  | BAErr, BAErr => true
  | BANilResponse, BANilResponse => true
  | BANilData, BANilData => true
  | BABlock x, BABlock y => block_shape_eqb x y
  | _, _ => false
  end.

Definition fetch_eqb (a b : fetch) : bool :=
  match a, b with
  | FData x, FData y => bytes_eqb x y
  | FNotFound, FNotFound => true
  | FOther, FOther => true
  | _, _ => false
  end.

(* [Some a]: every call is answered [a] *)
Definition uniform {A} (eqb : A -> A -> bool) (dflt : A) (s : list A) : option A :=
  match s with
  | [] => Some dflt
  | a :: s' => if forallb (eqb a) s' then Some a else None
  end.

Fixpoint P_head_steps (script : list block_answer) (prev : option N) (evs : list head_event)
         (obs : list (outcome (option N) unit)) : bool :=
  match evs, obs with
  | [], [] => true
  | ev :: evs', Ok r :: obs' =>
      (match ev with
       | EvNoData => option_eqb N.eqb r prev
       | EvHead =>
           match uniform block_answer_eqb BAErr script with
           | Some a => option_eqb N.eqb r (head_after prev a)
           | None => option_eqb N.eqb r prev || match r with Some x => memb N.eqb x (script_heads script) | None => false end
           end
       end)
      && P_head_steps script r evs' obs'
  | _, _ => false                        (* a panic, or the process did not get through its events *)
  end.

Definition P_head_session (script : list block_answer) (evs : list head_event) (obs : list (outcome (option N) unit)) : bool :=
  negb (forallb answer_wf script)        (* outside what the client library can deliver: nothing claimed *)
  || P_head_steps script None (EvHead :: evs) obs.      (* the constructor's fetch counts as a head event on an empty cache *)

Definition P_dynamic_session (calls : N) (ps : list fetch) (fs : option (list fetch)) (obs : list (outcome (list N) gr_err)) : bool :=
  let files := script_files ps ++ match fs with Some fl => script_files fl | None => [] end in
  let is_other f := match f with FOther => true | _ => false end in
  (* an error needs a source that fails other than by "not found" (an empty script fails every call) *)
  let fails_somewhere := match ps with [] => true | _ => existsb is_other ps end
                         || match fs with Some [] => true | Some fl => existsb is_other fl | None => false end in
  (lenN obs =? calls)
  && forallb (fun o => match o with
                       | Panic => false
                       | Err _ => fails_somewhere
                       | Ok line => negb (memb N.eqb LF line) && ((lenN line =? 0) || existsb (contains line) files)
                       end) obs
  && match uniform fetch_eqb FOther ps, match fs with Some fl => option_map Some (uniform fetch_eqb FOther fl) | None => Some None end with
     | Some p, Some f => forallb (P_dynamic p f) obs
     | _, _ => true
     end.

(* every proposal of a session on its own; a panic outside the decoder domain ends the session *)
Fixpoint P_propose_session (ops : list p1_in) (obs : list (bool * p1_trace)) : bool :=
  match ops, obs with
  | [], [] => true
  | i :: ops', (p, tr) :: obs' =>
      P_propose i p tr && (if p then match obs' with [] => true | _ => false end else P_propose_session ops' obs')
  | _, _ => false
  end.

(* sessions of the builder-bid strategy: every auction is carried out and none panics, whatever the
   48 bytes of the relays' public keys and the 96 bytes of their signatures are and whatever
   happened in the auctions before; every usable relay is asked; the relays with a participation
   are exactly those whose bid counts by the auction's own data (a complete bid, not below the
   relay's minimum, fee recipient and timestamp in order, and - if the relay has a key - a signature
   that verifies under it: a relay whose key is no key is ignored, nothing else is); the winning
   score is the best of them and, where the arrival order cannot matter, the winners are exactly
   the relays offering it. *)
Definition P_auction (rs : list bid_relay) (o : outcome (list N * list N * N * list N) unit) : bool :=
  match o with
  | Ok (all, win, score, parts) =>
      let os := offers rs in
      list_eqb N.eqb all (good_relays (map br_client rs))
      && list_eqb N.eqb (id_set parts) (id_set (map of_id os))
      && (score =? best_value os)
      && (if tie_free os then list_eqb N.eqb (id_set win) (id_set (best_offers os))
          else forallb (fun w => memb N.eqb w (map of_id os)) win && ((lenN os =? 0) || (0 <? lenN win)))
  | _ => false
  end.

Fixpoint P_bid_session (s : list (list bid_relay)) (obs : list (outcome (list N * list N * N * list N) unit)) : bool :=
  match s, obs with
  | [], [] => true
  | a :: s', o :: obs' => P_auction a o && P_bid_session s' obs'
  | _, _ => false
  end.

(* aggregator selection: whatever committee lengths the node reports (0, 1, anything below
   TARGET_AGGREGATORS_PER_COMMITTEE, 2^64-1) the call does not panic; a failing signer is an error;
   otherwise every validator gets the specification's verdict hash mod max(1, length / TARGET) = 0
   and the signatures are handed back.  TARGET = 0 is outside the domain (a spec constant). *)
Definition P_aggsel (target : N) (sign_ok : bool) (rows : list (N * N)) (o : outcome (bool * list bool) unit) : bool :=
  (target =? 0) ||
  match o with
  | Panic => false
  | Err _ => negb sign_ok
  | Ok (same, l) => sign_ok && same && list_eqb Bool.eqb l (map (spec_is_aggregator target) rows)
  end.

Definition P_b (c : case) : bool :=
  match c_in c, c_obs c with
  | IPropose i, OPropose p tr => P_propose i p tr
  | IRelays rs, ORelays o => P_relays rs o
  | IGraffiti g ps, OGraffiti o => P_graffiti g ps o
  | IConfig steps, OConfig obs => P_config_steps None steps obs
  | IDuties ds held, ODuties l => P_duties ds held l
  | IHead h, OHead o => P_head h o
  | IErrBody s b, OErrBody o => P_errbody s b o
  | IDynamic p f, ODynamic o => P_dynamic p f o
  | IHeadSeq script evs, OHeadSeq l => P_head_session script evs l
  | IDynamicSeq calls ps fs, ODynamicSeq l => P_dynamic_session calls ps fs l
  | IProposeSeq ops, OProposeSeq l => P_propose_session ops l
  | IBidSeq s, OBidSeq l => P_bid_session s l
  | IAggSel target sign_ok rows, OAggSel o => P_aggsel target sign_ok rows o
  | _, _ => false
  end.

Definition mismatches (cs : list case) : list N := failing_ids c_id agree cs.
Definition violations (cs : list case) : list N := failing_ids c_id P_b cs.
