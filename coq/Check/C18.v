(* C18 correspondence: cases as printed by harness/c18. *)
From Verif Require Export Lib.Base Model.C18_Cache.

Record case := {
  c_id : N;
  c_ops : list op;
  c_outs : list out;                 (* what the implementation returned, op by op *)
  c_final : list (root * slot);      (* the implementation's map afterwards, sorted by root *)
  c_chain : list (root * slot)       (* the harness's chain: root -> slot used to script events and fetches *)
}.

Definition out_eqb (a b : out) : bool :=
  match a, b with
  | ONone, ONone => true
  | OErr, OErr => true
  | OSlot x, OSlot y => x =? y
  | _, _ => false
  end.

Definition entry_eqb := prod_eqb N.eqb N.eqb.

Definition agree (c : case) : bool :=
  let '(s, outs) := run init (c_ops c) in
  list_eqb out_eqb outs (c_outs c) && list_eqb entry_eqb (sort_by fst s) (c_final c).

(* The property evaluated on the OBSERVED outputs alone (the model is not consulted):
   - every lookup answered with a slot got the chain's slot for that root;
   - a lookup is an error only if the fetch failed and the root is not one that must still be
     cached: [known] tracks the roots seen (event or successful lookup) and not since eligible
     for cleaning (slot below the first slot of epoch-64 at some clean with epoch > 64) --
     cleaning may remove old entries but "only removes entries older than the window";
   - at the end every such root is still in the implementation's map with the chain's slot. *)
Definition chain_slot (chain : list (root * slot)) (r : root) : slot :=
  match get chain r with Some sl => sl | None => 0 end.

Fixpoint spec_ok (chain : list (root * slot)) (known : list root) (ops : list op) (outs : list out)
         (final : list (root * slot)) : bool :=
  match ops, outs with
  | [], [] => forallb (fun r => option_eqb N.eqb (get final r) (get chain r)) known
  | o :: ops', x :: outs' =>
      match o, x with
      | Event r _, ONone => spec_ok chain (r :: known) ops' outs' final
      | Lookup r _, OSlot sl =>
          option_eqb N.eqb (get chain r) (Some sl) && spec_ok chain (r :: known) ops' outs' final
      | Lookup r None, OErr => negb (memb N.eqb r known) && spec_ok chain known ops' outs' final
      | Clean e spe, ONone =>
          let known' := if e <=? retention then known
                        else filter (fun r => negb (chain_slot chain r <? min_slot e spe)) known in
          spec_ok chain known' ops' outs' final
      | _, _ => false
      end
  | _, _ => false
  end.

Definition P_b (c : case) : bool := spec_ok (c_chain c) [] (c_ops c) (c_outs c) (c_final c).

Definition mismatches (cs : list case) : list N := failing_ids c_id agree cs.
Definition violations (cs : list case) : list N := failing_ids c_id P_b cs.
