(* C18 correspondence: cases as printed by harness/c18. *)
From Verif Require Export Lib.Base Model.C18_Cache.

Record case := {
  c_id : N;
  c_ops : list op;
  c_outs : list out;                 (* what the implementation returned, op by op *)
  c_final : list (root * slot);      (* the implementation's map afterwards, sorted by root *)
  c_chain : list (root * slot)       (* the harness's chain: root -> slot used to script events and fetches *)
}.

Definition answer_eqb (a b : answer) : bool :=
  prod_eqb (prod_eqb N.eqb N.eqb) (option_eqb N.eqb) a b.
Definition answer_id (a : answer) : N := fst (fst a).

(* the answers of a group are compared per lookup (sorted by lookup id) *)
Definition out_eqb (a b : out) : bool :=
  match a, b with
  | ONone, ONone => true
  | OErr, OErr => true
  | OSlot x, OSlot y => x =? y
  | OMany x, OMany y => list_eqb answer_eqb (sort_by answer_id x) (sort_by answer_id y)
  | _, _ => false
  end.

Definition entry_eqb := prod_eqb N.eqb N.eqb.

(* The model's map is key-unique, so sorting it by root gives one result whatever the order of the
   list; [rev] only makes the insertion sort linear on the long chains, whose roots enter the map
   in ascending order (the list is newest first). *)
Definition agree (c : case) : bool :=
  let '(s, outs) := run init (c_ops c) in
  list_eqb out_eqb outs (c_outs c) && list_eqb entry_eqb (sort_by fst (rev s)) (c_final c).

(* The property evaluated on the OBSERVED outputs alone (the model is not consulted; the head
   events are transparent to it: whatever a head event stores must agree with the chain, which the
   later lookups and the final map show):
   - every lookup answered with a slot got the chain's slot for that root;
   - a lookup is an error only if the fetch failed and the root is not one that must still be
     cached: [known] tracks the roots seen (event or successful lookup) and not since eligible
     for cleaning (slot below the first slot of epoch-64 at some clean with epoch > 64) --
     cleaning may remove old entries but "only removes entries older than the window";
   - at the end every such root is still in the implementation's map with the chain's slot, and
     every entry of the implementation's map carries the chain's slot for its root;
   - a group of overlapping lookups ([par_ok]): every answer with a slot carries the chain's slot
     of the root asked for; a lookup that begins when its root must be cached is answered with a
     slot; an error answer needs a failing fetch of the same root within the group (its own, or --
     for an implementation that shares fetches -- another goroutine's); a root answered with a
     slot must be cached after the group. *)
Definition find_answer (ans : list answer) (i : N) : option (option slot) :=
  match find (fun a => answer_id a =? i) ans with
  | Some a => Some (snd a)
  | None => None
  end.

Definition fails_on (all : list pev) (r : root) : bool :=
  existsb (fun e => match e with PEnd _ r' None => r' =? r | _ => false end) all.

(* The roots that must be cached, each with what the chain says of it ([get chain r], looked up
   once when the root enters the list: the long-chain histories carry thousands of roots). *)
Definition kroot := (root * option slot)%type.
Definition kadd (chain : list (root * slot)) (r : root) (known : list kroot) : list kroot :=
  (r, get chain r) :: known.
Definition kmem (r : root) (known : list kroot) : bool := existsb (fun k => fst k =? r) known.
Definition kslot (k : kroot) : slot := match snd k with Some sl => sl | None => 0 end.

Definition known_after_clean (known : list kroot) (e spe : N) : list kroot :=
  if e <=? retention then known
  else filter (fun k => negb (kslot k <? min_slot e spe)) known.

(* None = violated; Some known' = the roots that must be cached after the group.
   WHEN, between its begin and its answer, a lookup that misses stores the fetched slot is the
   implementation's business (the code as it stands stores when its own fetch is answered; an
   implementation sharing fetches stores when the shared fetch is answered), so inside a group
   only the roots known at its begin or reported by a block event meanwhile must hit; the roots
   answered with a slot ([cands]) must be cached at the end of the group unless a cleaning run that
   came after the lookup's begin was entitled to remove them. *)
Fixpoint par_ok (chain : list (root * slot)) (ans : list answer) (all : list pev)
         (known cands : list kroot) (evs : list pev) : option (list kroot) :=
  match evs with
  | [] => Some (cands ++ known)
  | PBegin i r :: evs' =>
      match find_answer ans i with
      | None => None                                   (* every lookup is answered *)
      | Some (Some _) => par_ok chain ans all known (kadd chain r cands) evs'
      | Some None =>
          if kmem r known then None                    (* it must have been a hit *)
          else if fails_on all r then par_ok chain ans all known cands evs'
          else None                                    (* an error without any failing fetch of that root *)
      end
  | PEnd _ _ _ :: evs' => par_ok chain ans all known cands evs'
  | PEvent r _ :: evs' => par_ok chain ans all (kadd chain r known) cands evs'
  | PClean e spe :: evs' =>
      par_ok chain ans all (known_after_clean known e spe) (known_after_clean cands e spe) evs'
  end.

Definition answer_slot_ok (chain : list (root * slot)) (a : answer) : bool :=
  match a with
  | (_, r, Some sl) => option_eqb N.eqb (get chain r) (Some sl)
  | (_, _, None) => true
  end.

Fixpoint spec_ok (chain : list (root * slot)) (known : list kroot) (ops : list op) (outs : list out)
         (final : list (root * slot)) : bool :=
  match ops, outs with
  | [], [] => forallb (fun k => option_eqb N.eqb (get final (fst k)) (snd k)) known
              && forallb (fun p => option_eqb N.eqb (get chain (fst p)) (Some (snd p))) final
  | o :: ops', x :: outs' =>
      match o, x with
      | Event r _, ONone => spec_ok chain (kadd chain r known) ops' outs' final
      | Lookup r _, OSlot sl =>
          option_eqb N.eqb (get chain r) (Some sl) && spec_ok chain (kadd chain r known) ops' outs' final
      | Lookup r None, OErr => negb (kmem r known) && spec_ok chain known ops' outs' final
      | Clean e spe, ONone => spec_ok chain (known_after_clean known e spe) ops' outs' final
      | Head _ _ _, ONone => spec_ok chain known ops' outs' final
      | Par evs, OMany ans =>
          forallb (answer_slot_ok chain) ans &&
          match par_ok chain ans evs known [] evs with
          | Some known' => spec_ok chain known' ops' outs' final
          | None => false
          end
      | _, _ => false
      end
  | _, _ => false
  end.

Definition P_b (c : case) : bool := spec_ok (c_chain c) [] (c_ops c) (c_outs c) (c_final c).

Definition mismatches (cs : list case) : list N := failing_ids c_id agree cs.
Definition violations (cs : list case) : list N := failing_ids c_id P_b cs.
