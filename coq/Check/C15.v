(* C15 correspondence: cases as printed by harness/c15. *)
From Verif Require Export Lib.Base Lib.JobTab Model.C15_Sync Model.C15_Hist Model.C15_Sites.

(* The job list of the scheduler as the harness prints it: maximal runs of jobs of one kind for
   consecutive slots whose times advance by a constant step, (kind, first slot, count, time of the
   first, step).  Lossless: [expand_runs] gives back the list (kind, slot, time) in the order
   recorded (by slot, then kind); the harness checks the round trip before printing. *)
Definition jobrun := (N * N * N * Z * Z)%type.

Fixpoint expand_run (k s : N) (n : nat) (t dt : Z) : list job :=
  match n with
  | O => []
  | S n' => (k, s, t) :: expand_run k (s + 1) n' (t + dt)%Z dt
  end.

Definition expand_runs (l : list jobrun) : list job :=
  flat_map (fun r => let '(k, s, n, t, dt) := r in expand_run k s (N.to_nat n) t dt) l.

Record case := {
  c_id : N;
  c_par : params;
  c_in : sched_in;                    (* the call scheduleSyncCommitteeMessages(epoch, indices, notCurrentSlot) and its environment *)
  c_fires : list fire_in;             (* slots whose jobs are then fired in turn, with the scripted environment of each *)
  c_out : sched_out;                  (* OBSERVED: duties request, job table, subscription *)
  c_fouts : list fire_out;            (* OBSERVED: one per fired slot *)
  c_agg : option (agg_in * option (list contrib));  (* a direct Aggregate call: input, OBSERVED submission *)
  c_hist : list hop;                  (* a history on one controller and one scheduler: calls, refreshes, fired slots *)
  c_hruns : list (list jobrun * option fire_out)   (* OBSERVED after each operation: the scheduler's job list
                                         (run-length encoded by the harness, see [expand_runs]); what a fired slot did *)
}.

(* OBSERVED after each operation of the history: the scheduler's job list, and what a fired slot did *)
Definition c_hobs (c : case) : list (list job * option fire_out) :=
  map (fun x => (expand_runs (fst x), snd x)) (c_hruns c).

(* ---------------------------------------------------------------------------------------------- *)
(* equality of observables *)

Definition sg_eqb (a b : sg) : bool :=
  match a, b with
  | SgZero, SgZero => true
  | SgRoot v e r, SgRoot v' e' r' => (v =? v') && (e =? e') && (r =? r')
  | SgSel v s c, SgSel v' s' c' => (v =? v') && (s =? s') && (c =? c')
  | SgCP v s c, SgCP v' s' c' => (v =? v') && (s =? s') && (c =? c')
  | SgBad, SgBad => true
  | _, _ => false
  end.

Definition job_eqb (a b : job) : bool :=
  let '(k, s, t) := a in let '(k', s', t') := b in (k =? k') && (s =? s') && (t =? t')%Z.

Definition duty_eqb (a b : duty) : bool := (fst a =? fst b) && list_eqb N.eqb (snd a) (snd b).

Definition msg_eqb (a b : msg) : bool :=
  let '(s, r, v, x) := a in let '(s', r', v', x') := b in (s =? s') && (r =? r') && (v =? v') && sg_eqb x x'.

Definition contrib_eqb (a b : contrib) : bool :=
  (cp_agg a =? cp_agg b) && (cp_slot a =? cp_slot b) && (cp_subc a =? cp_subc b) && (cp_root a =? cp_root b)
  && sg_eqb (cp_proof a) (cp_proof b) && sg_eqb (cp_sig a) (cp_sig b).

Definition pairN_eqb := prod_eqb N.eqb N.eqb.

Definition sched_out_eqb (a b : sched_out) : bool :=
  option_eqb N.eqb (so_query a) (so_query b)
  && list_eqb job_eqb (so_jobs a) (so_jobs b)
  && option_eqb (prod_eqb N.eqb (list_eqb duty_eqb)) (so_sub a) (so_sub b).

Definition root_call_eqb (a b : list (option N) * N * N) : bool :=
  let '(l, e, r) := a in let '(l', e', r') := b in
  list_eqb (option_eqb N.eqb) l l' && (e =? e') && (r =? r').

Definition fire_out_eqb (a b : fire_out) : bool :=
  option_eqb (list_eqb pairN_eqb) (o_sel_call a) (o_sel_call b)
  && option_eqb Z.eqb (o_msg_job a) (o_msg_job b)
  && option_eqb root_call_eqb (o_root_call a) (o_root_call b)
  && option_eqb (list_eqb msg_eqb) (o_submitted a) (o_submitted b)
  && option_eqb Z.eqb (o_agg_job a) (o_agg_job b)
  && option_eqb (list_eqb contrib_eqb) (o_contribs a) (o_contribs b).

Definition agree_base (c : case) : bool :=
  sched_out_eqb (schedule (c_par c) (c_in c)) (c_out c)
  && list_eqb fire_out_eqb (map (fire_scheduled (c_par c) (c_in c)) (c_fires c)) (c_fouts c)
  && match c_agg c with
     | None => true
     | Some (a, o) => option_eqb (list_eqb contrib_eqb) (aggregate a) o
     end.

Definition hobs_eqb (a b : list job * option fire_out) : bool :=
  list_eqb job_eqb (fst a) (fst b) && option_eqb fire_out_eqb (snd a) (snd b).

Definition agree (c : case) : bool :=
  agree_base c && list_eqb hobs_eqb (hrun (c_par c) [] (c_hist c)) (c_hobs c).

(* ---------------------------------------------------------------------------------------------- *)
(* The property evaluated on the OBSERVED outputs alone.  Nothing below calls the model's
   schedule / fire / aggregate; the window, the subcommittee and the selection rule are restated
   here in exact (unbounded) arithmetic. *)

Definition inb {A} (eqb : A -> A -> bool) (x : A) (l : list A) : bool := existsb (eqb x) l.
Definition subsetb {A} (eqb : A -> A -> bool) (l1 l2 : list A) : bool := forallb (fun x => inb eqb x l2) l1.
Definition set_eqb {A} (eqb : A -> A -> bool) (l1 l2 : list A) : bool := subsetb eqb l1 l2 && subsetb eqb l2 l1.
Fixpoint nodupb {A} (eqb : A -> A -> bool) (l : list A) : bool :=
  match l with [] => true | x :: l' => negb (inb eqb x l') && nodupb eqb l' end.

Fixpoint upto (lo : N) (n : nat) : list N := match n with O => [] | S n' => lo :: upto (lo + 1) n' end.

(* The slots in which a message is due: from the slot before the first slot of the (fork-clamped)
   period, or from now if later, to the slot before the period's last slot; none before the fork. *)
Definition spec_slots (p : params) (epoch cur : N) (notcur : bool) : list N :=
  if cur / spe p <? fork p then [] else
  let period := epoch / epp p in
  let F := N.max (period * epp p) (fork p) * spe p in            (* first slot of the period *)
  let E := N.max ((period + 1) * epp p) (fork p) * spe p in      (* first slot after the period; last slot = E-1 *)
  let lo := N.max (F - 1) cur in                                  (* F - 1 saturates at 0: there is no slot before slot 0 *)
  if E <? lo + 2 then [] else
  filter (fun s => negb (notcur && (s =? cur))) (upto lo (N.to_nat (E - 1 - lo))).

(* does the call reach the scheduling loop at all? *)
Definition sched_ready (i : sched_in) : option (list duty) :=
  match si_indices i, si_duties i, si_accts i with
  | _ :: _, Some (d :: ds), Some _ => Some (d :: ds)
  | _, _, _ => None
  end.

Definition spec_schedule_ok (p : params) (i : sched_in) (o : sched_out) : bool :=
  let want := match sched_ready i with
              | Some _ => map (fun s => (JPrepare, s, (Z.of_N s * slot_ns p - slot_ns p * 6 / 4)%Z))
                              (spec_slots p (si_epoch i) (si_cur i) (si_notcur i))
              | None => []
              end in
  set_eqb job_eqb want (so_jobs o) && nodupb job_eqb (so_jobs o).

(* the committee positions of validator v: those of its last duty entry *)
Fixpoint positions_of (ds : list duty) (v : N) : option (list N) :=
  match ds with
  | [] => None
  | d :: ds' => match positions_of ds' v with
                | Some x => Some x
                | None => if fst d =? v then Some (snd d) else None
                end
  end.

Fixpoint nodupN (l : list N) : list N :=
  match l with [] => [] | x :: l' => if inb N.eqb x l' then nodupN l' else x :: nodupN l' end.

Definition held (i : sched_in) (v : N) : bool :=
  match si_accts i with Some a => inb N.eqb v a && inb N.eqb v (si_indices i) | None => false end.

(* members with an account *)
Definition spec_signers (i : sched_in) (ds : list duty) : list N :=
  filter (held i) (nodupN (map fst ds)).

Definition spec_pairs (p : params) (i : sched_in) (ds : list duty) : list (N * N) :=
  flat_map (fun v => match positions_of ds v with
                     | Some ps => map (fun pos => (v, pos / (csize p / subnets p))) ps
                     | None => []
                     end) (spec_signers i ds).

Fixpoint hash_of (t : list (N * N * N)) (x : N * N) : option N :=
  match t with
  | [] => None
  | (v, c, h) :: t' => if (v =? fst x) && (c =? snd x) then Some h else hash_of t' x
  end.

Definition spec_selected (p : params) (f : fire_in) (x : N * N) : bool :=
  match hash_of (f_hash8 f) x with
  | Some h => h mod (N.max 1 (csize p / subnets p / target p)) =? 0
  | None => false
  end.


Definition spec_fire_ok (p : params) (i : sched_in) (f : fire_in) (o : fire_out) : bool :=
  let s := f_slot f in
  match sched_ready i with
  | None => true       (* nothing was scheduled (checked by spec_schedule_ok); nothing can fire *)
  | Some ds =>
    if negb (inb N.eqb s (spec_slots p (si_epoch i) (si_cur i) (si_notcur i))) then
      (* outside the window: no message may be produced *)
      match opt_list (o_submitted o) with [] => true | _ => false end
    else
    let sgn := spec_signers i ds in
    let pairs := spec_pairs p i ds in
    let sel_fault := match pairs with [] => false | _ => f_sel_err f end in
    let want_msgs r := map (fun v => (s, r, v, SgRoot v (s / spe p) r))
                           (filter (fun v => negb (inb N.eqb v (f_root_zero f))) sgn) in
    let got := opt_list (o_submitted o) in
    (* the selection proofs are asked for exactly the members' subcommittees *)
    (match o_sel_call o with
     | Some l => set_eqb pairN_eqb l pairs
     | None => match pairs with [] => true | _ => false end
     end)
    (* the message job is scheduled at StartOfSlot + delay unless the selection signer failed as a whole *)
    && (if sel_fault then true else option_eqb Z.eqb (o_msg_job o) (Some (Z.of_N s * slot_ns p + msg_delay p)%Z))
    && match f_root f with
       | None => match got with [] => true | _ => false end
       | Some r =>
           (* soundness: one message at most per member, each for this slot, over this slot's head
              root, signed by the member's own account for the slot's epoch *)
           nodupb N.eqb (map (fun m => snd (fst m)) got)
           && forallb (fun m => let '(ms, mr, mv, mx) := m in
                                (ms =? s) && (mr =? r) && inb N.eqb mv sgn && sg_eqb mx (SgRoot mv (s / spe p) r)) got
           (* completeness: every member with an account and a signature has its message in the
              payload handed to the submitter (whether or not the submitter then fails), whatever
              the other members lack; only a signer failing for a whole batch excuses *)
           && (if sel_fault || f_root_err f then true
               else subsetb msg_eqb (want_msgs r) got)
           (* aggregation *)
           && (let aggs := filter (spec_selected p f) pairs in
               let want_c := map (fun x => {| cp_agg := fst x; cp_slot := s; cp_subc := snd x; cp_root := r;
                                              cp_proof := if inb N.eqb (fst x) (f_sel_zero f) then SgZero else SgSel (fst x) s (snd x);
                                              cp_sig := SgCP (fst x) s (snd x) |}) aggs in
               let got_c := opt_list (o_contribs o) in
               subsetb contrib_eqb got_c want_c
               && nodupb pairN_eqb (map (fun c => (cp_agg c, cp_subc c)) got_c)
               && (if sel_fault || f_root_err f || f_submit_err f then true
                   else match want_msgs r, aggs with
                        | [], _ => true                       (* no message at all: Message fails, nothing to aggregate for *)
                        | _, [] => match o_agg_job o with None => true | Some _ => false end
                        | _, _ =>
                            option_eqb Z.eqb (o_agg_job o) (Some (Z.of_N s * slot_ns p + agg_delay p)%Z)
                            && (if f_cp_err f || existsb (fun x => inb N.eqb (snd x) (f_contrib_err f)) aggs then true
                                else subsetb contrib_eqb want_c got_c)
                        end))
           (* what the root signer is asked: the slot's epoch, the slot's head root, accounts of
              members that have one and no nil hole (a nil account fails the whole batch) *)
           && match o_root_call o with
              | None => true
              | Some (accts, e, rr) =>
                  (e =? s / spe p) && (rr =? r)
                  && forallb (fun a => match a with Some v => inb N.eqb v sgn | None => false end) accts
              end
       end
  end.

Fixpoint fires_ok (p : params) (i : sched_in) (fs : list fire_in) (os : list fire_out) : bool :=
  match fs, os with
  | [], [] => true
  | f :: fs', o :: os' => spec_fire_ok p i f o && fires_ok p i fs' os'
  | _, _ => false
  end.

(* Aggregate on its own: the contributions of the aggregators that have an account, whatever the
   others lack *)
Definition spec_agg_ok (a : agg_in) (o : option (list contrib)) : bool :=
  match (match a_cached a with Some r => Some r | None => a_head a end) with
  | None => match opt_list o with [] => true | _ => false end
  | Some r =>
      let items := flat_map (fun m => if inb N.eqb (fst m) (a_accts a) then map (fun c => (fst m, c)) (snd m) else []) (a_aggs a) in
      let want := map (fun x => {| cp_agg := fst x; cp_slot := a_slot a; cp_subc := snd x; cp_root := r;
                                   cp_proof := SgSel (fst x) (a_slot a) (snd x); cp_sig := SgCP (fst x) (a_slot a) (snd x) |}) items in
      let got := opt_list o in
      subsetb contrib_eqb got want
      && nodupb pairN_eqb (map (fun c => (cp_agg c, cp_subc c)) got)
      && (if a_cp_err a || existsb (fun x => inb N.eqb (snd x) (a_contrib_err a)) items then true
          else subsetb contrib_eqb want got)
  end.

Definition P_b_base (c : case) : bool :=
  spec_schedule_ok (c_par c) (c_in c) (c_out c)
  && fires_ok (c_par c) (c_in c) (c_fires c) (c_fouts c)
  && match c_agg c with None => true | Some (a, o) => spec_agg_ok a o end.

(* ---------------------------------------------------------------------------------------------- *)
(* Histories.  A validator of a sync committee owes a message in every slot of the window of its
   period, whatever else the controller does in the meantime: a later call for another period, or
   the refresh of ANOTHER period's duties after a reorganisation, must leave the slot's job in
   place, and a refresh of the slot's own period must replace it by a job for the refreshed duties.
   The specification keeps, per slot, the call whose duty is owed (exact arithmetic; the table
   operations are those of the scheduler, Lib/JobTab.v): a call owes its window's slots unless the
   slot is already owed; a refresh of the period of [epoch] releases exactly the slots from the one
   before the period's first slot to the one before its last and then owes the refreshed call's
   window; a slot that fired is released. *)
Definition spec_sched_slots (p : params) (i : sched_in) : list N :=
  match sched_ready i with
  | Some _ => spec_slots p (si_epoch i) (si_cur i) (si_notcur i)
  | None => []
  end.

Definition spec_period_window (p : params) (epoch s : N) : bool :=
  let period := epoch / epp p in
  let F := N.max (period * epp p) (fork p) * spe p in
  let E := N.max ((period + 1) * epp p) (fork p) * spe p in
  (F - 1 <=? s) && (s + 2 <=? E).

Definition spec_hstep (p : params) (t : jtab) (o : hop) : jtab :=
  match o with
  | HSched i => tab_add t (spec_sched_slots p i) i
  | HRefresh e i => tab_add (tab_del t (spec_period_window p e)) (spec_sched_slots p i) i
  | HFire f => match tab_get t (f_slot f) with
               | Some _ => tab_del t (N.eqb (f_slot f))
               | None => t
               end
  end.

Fixpoint hist_ok (p : params) (t : jtab) (ops : list hop) (obs : list (list job * option fire_out)) : bool :=
  match ops, obs with
  | [], [] => true
  | o :: ops', (jobs, fo) :: obs' =>
      let t' := spec_hstep p t o in
      (* the scheduler holds one prepare job, 1.5 slots early, for every slot owed, and nothing else *)
      set_eqb job_eqb (map (fun e => (JPrepare, fst e, (Z.of_N (fst e) * slot_ns p - slot_ns p * 6 / 4)%Z)) t') jobs
      && nodupb job_eqb jobs
      && match o, fo with
         | HFire f, Some out =>
             match tab_get t (f_slot f) with
             | Some i => spec_fire_ok p i f out          (* the slot is owed under call i: its members message *)
             | None => match opt_list (o_submitted out) with [] => true | _ => false end
             end
         | HFire _, None => false
         | _, None => true
         | _, Some _ => false
         end
      && hist_ok p t' ops' obs'
  | _, _ => false
  end.

Definition P_b (c : case) : bool :=
  P_b_base c && hist_ok (c_par c) [] (c_hist c) (c_hobs c).

Definition mismatches (cs : list case) : list N := failing_ids c_id agree cs.
Definition violations (cs : list case) : list N := failing_ids c_id P_b cs.
