(* C04 correspondence: cases as printed by harness/c04: a history in the format of Check.C01_Case,
   plus -- for the runs whose duty was built by the real attester.MergeDuties -- the beacon node's
   attester duties given to it and the merged duties read back from the real Duty objects. *)
From Verif Require Export Lib.Base Model.C01_Attester Model.C04_Merge Check.C01_Case.

Record case := {
  k_base : C01_Case.case;      (* for a run "from the api", r_duty is the OBSERVED merged duty of its slot
                                  (an empty duty when MergeDuties produced none for that slot) *)
  k_api : list api_duty;       (* input: what the beacon node answered (any order) *)
  k_from : list bool;          (* input: per run, whether its duty is the merged duty of its slot *)
  k_merged : list duty         (* observed: MergeDuties' result through the accessors of Duty
                                  (sizes: CommitteeSize of the duty's own committee indices) *)
}.

(* exists j, vals[j] = v /\ comms[j] = c /\ ok (poss[j]) *)
Fixpoint assigned (vals comms poss : list N) (v c : N) (ok : N -> bool) : bool :=
  match vals, comms, poss with
  | x :: vs, y :: cs, z :: ps => ((x =? v) && (y =? c) && ok z) || assigned vs cs ps v c ok
  | _, _, _ => false
  end.

(* The property evaluated on the OBSERVED calls alone, per call of Attest:
   - the signer is asked for distinct validators that are in the duty and have an
     account (in one request, or in several that name no validator twice between them), each paired with the committee index the duty assigns to that very validator, for
     the duty's slot and the root/source/target of the data the beacon node returned;
   - the submitter is called at most once, and only after the signer;
   - the submitted attestations are exactly one per validator of the signing request that was not
     left unsigned (zero signature => no attestation) and whose committee, by the duty, is not larger
     than MAX_VALIDATORS_PER_COMMITTEE (no aggregation bits are allocated for such a duty), each with: the committee index, the
     committee size and the single position bit the duty assigns to that validator (same array
     position j for all three), the duty's slot, the data's root/source/target, and the signature
     that validator's account gave over exactly these values. *)
Definition pair_ok (d : duty) (avail : list vidx) (p : vidx * N) : bool :=
  memb N.eqb (fst p) avail && assigned (d_vals d) (d_comms d) (d_poss d) (fst p) (snd p) (fun _ => true).

Definition signreq_ok (d : duty) (a : adata) (avail : list vidx) (q : signreq) : bool :=
  nodupb N.eqb (map fst (sr_pairs q)) && forallb (pair_ok d avail) (sr_pairs q) &&
  (sr_slot q =? d_slot d) && (sr_root q =? a_root a) && (sr_src q =? a_src a) &&
  (sr_src_root q =? a_src_root a) && (sr_tgt q =? a_tgt a) && (sr_tgt_root q =? a_tgt_root a).

Definition att_ok (d : duty) (a : adata) (x : att) : bool :=
  let v := fst (at_sig x) in
  let c := vt_comm (at_vote x) in
  assigned (d_vals d) (d_comms d) (d_poss d) v c (fun p => list_eqb N.eqb (at_bits x) [p]) &&
  (at_len x =? size_of d c) &&
  vote_eqb (at_vote x) (mkvote (d_slot d) c a) &&
  vote_eqb (snd (at_sig x)) (at_vote x).

(* The signer may be asked in several requests by one call (a call that splits its accounts into
   ranges and has them signed side by side is as good as one that asks once): the requests of one call
   must each be right in themselves ([signreq_ok]) and name no validator twice between them.  What is
   submitted is then judged against ALL pairs of the call's requests, keyed by validator: the signature
   an attestation carries must be the one that validator's account gave over that attestation's own
   values, whichever request it came from and whenever that request returned. *)
Definition run_ok (tr : list event) (i : nat) (r : run) : bool :=
  let d := r_duty r in
  let sc := r_script r in
  let qs := signreq_of tr i in
  let pairs := sort_by fst (flat_map sr_pairs qs) in
  match qs, filter (fun ev => match ev with Submit j _ => Nat.eqb i j | _ => false end) tr with
  | [], [] => true
  | [], _ :: _ => false
  | _ :: _, subs =>
      match s_fetch sc, s_accounts sc with
      | Some a, Some avail =>
          forallb (signreq_ok d a avail) qs && nodupb N.eqb (map fst pairs) &&
          match subs with
          | [] => true
          | [Submit _ atts] =>
              match s_sign sc with
              | Some unsigned =>
                  forallb (att_ok d a) atts &&
                  list_eqb N.eqb (map (fun x => fst (at_sig x)) atts)
                           (map fst (filter (fun p => negb (memb N.eqb (fst p) unsigned) &&
                                                      (size_of d (snd p) <=? max_committee)) pairs))
              | None => false
              end
          | _ => false
          end
      | _, _ => false
      end
  end.

Fixpoint runs_ok (tr : list event) (i : nat) (rs : list run) : bool :=
  match rs with
  | [] => true
  | r :: rs' => run_ok tr i r && runs_ok tr (S i) rs'
  end.

(* every event belongs to a call of the history, and a call's Submit comes after its SignReq *)
Fixpoint order_ok (seen : list nat) (n : nat) (tr : list event) : bool :=
  match tr with
  | [] => true
  | SignReq q :: tr' => Nat.ltb (sr_run q) n && order_ok (sr_run q :: seen) n tr'
  | Submit i _ :: tr' => memb Nat.eqb i seen && order_ok seen n tr'
  end.

(* --- duties built by MergeDuties -------------------------------------------------------------- *)
(* What the beacon node assigned at slot [s], read off its answer directly (no model involved):
   the rows of that slot; a committee's size is the CommitteeLength of a row of that committee. *)
Definition spec_duty (api : list api_duty) (s : N) : duty :=
  let rows := filter (fun r => ad_slot r =? s) api in
  {| d_slot := s; d_vals := map ad_val rows; d_comms := map ad_comm rows; d_poss := map ad_pos rows;
     d_sizes := map (fun r => (ad_comm r, ad_len r)) rows |}.

(* the duty the property speaks of: the run's own duty, or the beacon node's rows for its slot *)
Fixpoint spec_runs (api : list api_duty) (from : list bool) (rs : list run) : list run :=
  match rs with
  | [] => []
  | r :: rs' =>
      (if hd false from then {| r_duty := spec_duty api (d_slot (r_duty r)); r_script := r_script r |} else r)
        :: spec_runs api (tl from) rs'
  end.

Definition P_b (k : case) : bool :=
  let c := k_base k in
  order_ok [] (length (c_runs c)) (c_trace c) &&
  runs_ok (c_trace c) 0 (spec_runs (k_api k) (k_from k) (c_runs c)).

(* observable part of a duty: slot, the rows (validator, committee index, position) as a multiset
   -- the order of the rows inside a duty is not part of the property, and the attester model is run
   on the rows in the order observed -- and the size of each of its own committees *)
Fixpoint rows_of (vals comms poss : list N) : list (N * N * N) :=
  match vals, comms, poss with
  | v :: vs, c :: cs, p :: ps => (v, c, p) :: rows_of vs cs ps
  | _, _, _ => []
  end.

Definition row_key (r : N * N * N) : N := (fst (fst r) * two64 + snd (fst r)) * two64 + snd r.

Definition duty_rows (d : duty) : list (N * N * N) := sort_by row_key (rows_of (d_vals d) (d_comms d) (d_poss d)).

Definition duty_eqb (a b : duty) : bool :=
  (d_slot a =? d_slot b) &&
  Nat.eqb (length (d_vals a)) (length (d_vals b)) && Nat.eqb (length (d_comms a)) (length (d_comms b)) &&
  Nat.eqb (length (d_poss a)) (length (d_poss b)) &&
  list_eqb (prod_eqb (prod_eqb N.eqb N.eqb) N.eqb) (duty_rows a) (duty_rows b) &&
  forallb (fun c => size_of a c =? size_of b c) (d_comms a).

(* a run "from the api" was given the merged duty of its slot *)
Fixpoint from_ok (ds : list api_duty) (from : list bool) (rs : list run) : bool :=
  match rs with
  | [] => true
  | r :: rs' =>
      (if hd false from then
         duty_eqb (match merged_at ds (d_slot (r_duty r)) with Some d => d | None => empty_duty (d_slot (r_duty r)) end)
                  (r_duty r)
       else true) && from_ok ds (tl from) rs'
  end.

(* the model of MergeDuties gives the observed duties, the runs from the api use them, and the
   attester model run on them gives the observed calls *)
Definition agree (k : case) : bool :=
  list_eqb duty_eqb (merge_duties (k_api k)) (k_merged k) &&
  from_ok (k_api k) (k_from k) (c_runs (k_base k)) &&
  C01_Case.agree (k_base k).

Definition mismatches (cs : list case) : list N := failing_ids (fun k => c_id (k_base k)) agree cs.
Definition violations (cs : list case) : list N := failing_ids (fun k => c_id (k_base k)) P_b cs.
