(* C09 correspondence: cases as printed by harness/c09. *)
From Verif Require Export Lib.Base Model.C09_Auction.
Open Scope N_scope.

Definition obs_part : Type := Z * N * N.          (* score, category, bid uid *)

Record case := {
  c_id : N;
  (* input *)
  c_strat : strategy;
  c_mode : mode;
  c_cfgs : bconfs;
  c_relays : list relay;
  (* observed *)
  c_panic : bool;                          (* the call panicked *)
  c_has_results : bool;                    (* a blockauctioneer.Results was returned to the harness *)
  c_win : option obs_part;                 (* WinningParticipation *)
  c_providers : list N;                    (* Providers, in order *)
  c_allp : list N;                         (* AllProviders, in order *)
  c_parts : list (N * obs_part);           (* Participation, sorted by relay *)
  c_elapsed : Z;                           (* fake ms between call and return *)
  c_served : list (option N);              (* answers of the blockrelay BuilderBid calls: uid or no bid *)
  c_calls : list (Z * N * N);              (* relay-side log: (instant the relay's answer was ready = arrival of the
                                              request + scripted latency, relay, call) of every request a relay
                                              answers, by (time, relay) -- whether or not vouch still held the line *)
  c_dropped : list (Z * N * N);            (* the entries of c_calls whose request vouch had aborted (context ended)
                                              before the answer was ready: the answer never reached vouch *)
  c_stuck : bool;                          (* goroutines of the call were still blocked, for good, after the call had
                                              returned and every mock had been released *)
  (* later BuilderBid calls of the beacon node for the auction's slot / parent / proposer, made on the
     same blockrelay service after the operations of the mode (modes MAuction / MQuery only) *)
  c_late_at : list Z;                      (* input/observed: the instants of these calls (ms since the auction started) *)
  c_late_relays : list relay;              (* input: the same relays with what they answer to requests made by the
                                              later calls (bids that were not there during the auction) *)
  c_late_served : list (option N);         (* observed: what these calls answered: uid or no bid *)
  c_late_reqs : list (Z * N * N)           (* observed, relay-side: the requests that these calls made to relays
                                              (instant of arrival, relay, number), answered or not *)
}.

Definition obs_part_eqb (a b : obs_part) : bool :=
  let '(s1, c1, u1) := a in let '(s2, c2, u2) := b in (s1 =? s2)%Z && (c1 =? c2) && (u1 =? u2).
Definition call_eqb (a b : Z * N * N) : bool :=
  let '(t1, r1, k1) := a in let '(t2, r2, k2) := b in (t1 =? t2)%Z && (r1 =? r2) && (k1 =? k2).

Definition proj_part (p : part) : obs_part := (p_score p, p_cat p, b_uid (p_bid p)).

Definition calls_before_obs (c : case) : list (Z * N * N) :=
  filter (fun '(t, _, _) => (t <? cutoff (c_strat c))%Z) (c_calls c).

(* the strategy is not even invoked by auctionBlock when no relay is configured *)
Definition strategy_runs (c : case) : bool :=
  match c_mode c, c_relays c with
  | MStrategy, _ => true
  | _, [] => false
  | _, _ => true
  end.

(* the situations at the later BuilderBid calls *)
Definition late_nows (c : case) : list (strategy * list relay) :=
  match c_mode c with
  | MStrategy => []
  | _ => map (fun t => (shift (c_strat c) t, c_late_relays c)) (c_late_at c)
  end.

Definition late_match (c : case) (st : state) : bool :=
  let lq := late_queries (c_cfgs c) (auction_cache (c_relays c) st) (late_nows c) in
  list_eqb (option_eqb N.eqb) (map fst lq) (c_late_served c)
  (* no request reaches a relay unless the model's BuilderBid runs an auction *)
  && (existsb snd lq || match c_late_reqs c with [] => true | _ => false end).

Definition results_match (c : case) (st : state) : bool :=
  option_eqb obs_part_eqb (option_map proj_part (st_win st)) (c_win c)
  && list_eqb N.eqb (st_providers st) (c_providers c)
  && list_eqb (prod_eqb N.eqb obs_part_eqb)
              (sort_by fst (map (fun kp => (fst kp, proj_part (snd kp))) (st_parts st))) (c_parts c).

(* model = implementation on every projected observable; when several answers share an instant,
   for one of the possible arrival orders *)
Definition agree (c : case) : bool :=
  let s := c_strat c in
  let rs := c_relays c in
  let runs := strategy_runs c in
  negb (c_panic c) && negb (c_stuck c)
  && list_eqb call_eqb (if runs then calls_before s rs else []) (calls_before_obs c)
  (* no request is aborted by vouch while its answer would still be in time *)
  && forallb (fun '(t, _, _) => (cutoff s <=? t)%Z) (c_dropped c)
  && (c_elapsed c =? (if runs then elapsed s rs else 0))%Z
  && (if c_has_results c then list_eqb N.eqb (if runs then all_providers s rs else []) (c_allp c) else true)
  && existsb (fun ord =>
                let st := if runs then result_of (c_cfgs c) s ord else init in
                (if c_has_results c then results_match c st else true)
                && list_eqb (option_eqb N.eqb) (served (c_mode c) rs st) (c_served c)
                && late_match c st)
             (linearizations (all_events s rs)).

(* ------------------------------------------------------------------------------------------ *)
(* The property on the OBSERVED output alone.  Candidates: the bids that, by the mocks' own log,
   a relay had ready for vouch before the strategy's cut-off (hard timeout / deadline) -- delivered, or
   not delivered only because vouch had hung up -- and that are eligible at their
   relay (value >= minimum, non-zero value and fee recipient, timestamp = slot start, signature
   valid under the relay's known key).  The model's collector is not consulted. *)

Definition find_relay (i : N) (rs : list relay) : option relay := find (fun r => r_idx r =? i) rs.

Definition log_cands (c : case) : list (N * bid) :=
  flat_map (fun '(t, i, k) =>
              if (t <? cutoff (c_strat c))%Z then
                match find_relay i (c_relays c) with
                | Some r =>
                    match nth_error (r_script r) (N.to_nat k) with
                    | Some (_, RBid b) => if eligible r b then [(i, b)] else []
                    | _ => []
                    end
                | None => []
                end
              else []) (c_calls c).

(* Candidates that do not depend on what vouch chose to do: a configured relay that supplies bids
   and can unblind must be asked once its grace period is over (both strategies), so the answer
   scripted for its first call is ready at grace + latency; if that is before the cut-off and the
   bid is eligible, it is a bid that "arrived before the strategy's deadline" -- also when vouch
   never asked, or hung up early. *)
Definition first_cands (c : case) : list (N * bid) :=
  flat_map (fun r =>
              match r_kind r, r_script r with
              | KFull, (lat, RBid b) :: _ =>
                  if (r_grace r + lat <? cutoff (c_strat c))%Z && eligible r b then [(r_idx r, b)] else []
              | _, _ => []
              end) (c_relays c).

Definition cands (c : case) : list (N * bid) := log_cands c ++ first_cands c.

Definition scoring (cfgs : bconfs) (rb : N * bid) : bool := negb (score cfgs (snd rb) =? 0)%Z.

(* the winner is an on-time eligible bid with non-zero score, reported with its own score and
   category, and no on-time eligible bid with non-zero score scores higher; no winner only if no
   on-time eligible bid has a non-zero score *)
Definition win_ok (c : case) : bool :=
  let cs := filter (scoring (c_cfgs c)) (cands c) in
  match c_win c with
  | None => match cs with [] => true | _ => false end
  | Some (sc, cat, uid) =>
      existsb (fun rb => (b_uid (snd rb) =? uid) && (score (c_cfgs c) (snd rb) =? sc)%Z
                         && (cat_of (c_cfgs c) (snd rb) =? cat)) cs
      && forallb (fun rb => (score (c_cfgs c) (snd rb) <=? sc)%Z) cs
  end.

(* every relay listed for unblinding offered (on time, eligibly) a bid with the winning header,
   and a relay that offered the winning bid itself is listed; no winner, no providers *)
Definition providers_ok (c : case) : bool :=
  match c_win c with
  | None => match c_providers c with [] => true | _ => false end
  | Some (_, _, uid) =>
      existsb (fun rb =>
                 (b_uid (snd rb) =? uid) && memb N.eqb (fst rb) (c_providers c)
                 && forallb (fun j => existsb (fun rb' => (fst rb' =? j) && (b_header (snd rb') =? b_header (snd rb)))
                                              (cands c))
                            (c_providers c))
              (cands c)
  end.

(* the listed relays were all queried, and every relay that answered a call is in AllProviders *)
Definition allp_ok (c : case) : bool :=
  forallb (fun j => memb N.eqb j (c_allp c)) (c_providers c)
  && forallb (fun '(_, i, _) => memb N.eqb i (c_allp c)) (c_calls c).

(* what the beacon node is served: the best on-time eligible bid, or no bid (local payload) *)
Definition served_ok (c : case) (s : option N) : bool :=
  let cs := filter (scoring (c_cfgs c)) (cands c) in
  match s with
  | None => match cs with [] => true | _ => false end
  | Some uid =>
      existsb (fun rb => (b_uid (snd rb) =? uid)
                         && forallb (fun rb' => (score (c_cfgs c) (snd rb') <=? score (c_cfgs c) (snd rb))%Z) cs) cs
  end.

Definition served_consistent (c : case) : bool :=
  match c_mode c with
  | MStrategy => true
  | _ =>
      negb (match c_served c with [] => true | _ => false end)
      && forallb (served_ok c) (c_served c)
      && (if c_has_results c
          then forallb (fun s => option_eqb N.eqb s (option_map (fun w => snd w) (c_win c))) (c_served c)
          else true)
  end.

(* what the auction decided, as observed: the winner of the returned Results, else (BuilderBid on an
   empty cache returns no Results) the answer of the call that ran the auction *)
Definition auction_outcome (c : case) : option (option N) :=
  if c_has_results c then Some (option_map (fun w => snd w) (c_win c))
  else match c_served c with s :: _ => Some s | [] => None end.

(* the later BuilderBid calls for the auction's key: each serves the best bid that was on time and
   eligible DURING the auction, or no bid -- never a bid that a relay has only now (its uid is not
   among the candidates) -- and the same as what the auction decided *)
Definition late_ok (c : case) : bool :=
  match c_mode c with
  | MStrategy => true
  | _ =>
      forallb (served_ok c) (c_late_served c)
      && match auction_outcome c with
         | Some o => forallb (fun s => option_eqb N.eqb s o) (c_late_served c)
         | None => true
         end
  end.

Definition P_b (c : case) : bool :=
  negb (c_panic c)
  && (if c_has_results c then win_ok c && providers_ok c && allp_ok c else true)
  && served_consistent c
  && late_ok c.

Definition mismatches (cs : list case) : list N := failing_ids c_id agree cs.
Definition violations (cs : list case) : list N := failing_ids c_id P_b cs.
