(* C10 correspondence: cases as printed by harness/c10. *)
From Verif Require Export Lib.Base Model.C10_ExecConfig Model.C10_Service.

(* One case = one JSON document pushed through the real code:
     blockrelay.UnmarshalJSON(doc) -> ProposerConfig for each validator (c_out1)
     -> json.Marshal of the configurator (c_marshalled) -> blockrelay.UnmarshalJSON again
     -> ProposerConfig for each validator (c_out2);
   and one history on ONE instance of the block relay service (blockrelay/standard, created without
   a configuration): refreshes of the configuration from a scripted source (this document again,
   other documents, documents that are refused, a source that fails) and lookups through
   Service.ProposerConfig — with the validator's account, without it (as UnblindBlock and
   ValidatorRegistrations ask), through AuctionBlock — (c_ops), with the answer of every lookup
   (c_hist). *)
Record case := {
  c_id : N;
  c_doc : json;                      (* the input document *)
  c_fbfee : N; c_fbgas : N;          (* Vouch's fallback fee recipient / gas limit *)
  c_vals : list validator;           (* public key + the account patterns matching its name *)
  c_ok1 : bool;                      (* first unmarshal succeeded *)
  c_parsed : option config;          (* the Go structs after the first unmarshal *)
  c_out1 : list outcome;
  c_shown : list outcome;            (* the JSON printed by --proposer-config-check, decoded again *)
  c_marshalled : option json;        (* what the implementation marshalled after the lookups *)
  c_ok2 : bool;                      (* unmarshal of the marshalled text succeeded *)
  c_out2 : list outcome;
  c_ops : list sop;                  (* the history on one service instance *)
  c_hist : list outcome;             (* what its lookups answered, in order *)
  c_v1_per_value : bool              (* judge legacy lookups by the per-value reading of docs/execlayer.md
                                        (set by the harness when known_findings.json registers
                                        C10-v1-entry-not-fieldwise; see [P_b]) *)
}.

(* ---- equality on the projected observables ---- *)
Definition optN_eqb := option_eqb N.eqb.
Definition optdec_eqb := option_eqb dec_eqb.

Definition relay_cfg_eqb (a b : relay_cfg) : bool :=
  (rc_addr a =? rc_addr b) && optN_eqb (rc_pk a) (rc_pk b) && (rc_fee a =? rc_fee b)
  && (rc_gas a =? rc_gas b) && (rc_grace a =? rc_grace b) && dec_eqb (rc_min a) (rc_min b).

(* relay lists are compared sorted by address: the implementation's order is Go map order *)
Definition prop_cfg_eqb (a b : prop_cfg) : bool :=
  (pc_fee a =? pc_fee b)
  && list_eqb relay_cfg_eqb (sort_by rc_addr (pc_relays a)) (sort_by rc_addr (pc_relays b)).

Definition outcome_eqb (a b : outcome) : bool :=
  match a, b with
  | OOk p, OOk q => prop_cfg_eqb p q
  | OErr, OErr => true
  | OPanic, OPanic => true
  | _, _ => false
  end.

Definition leaf_eqb (a b : leaf) : bool :=
  match a, b with
  | LEmpty, LEmpty | LBad, LBad => true
  | LAddr x, LAddr y | LKey x, LKey y | LNum x, LNum y | LRegex x, LRegex y | LRelay x, LRelay y => x =? y
  | LDec x, LDec y => dec_eqb x y
  | _, _ => false
  end.

(* canonical form: struct fields by field index, map entries by key *)
Fixpoint canon (j : json) : json :=
  match j with
  | JArr l => JArr (map canon l)
  | JObj l => JObj (sort_by (fun p => fld_idx (fst p)) (map (fun '(f, x) => (f, canon x)) l))
  | JMap l => JMap (sort_by fst (map (fun '(k, x) => (k, canon x)) l))
  | _ => j
  end.

Fixpoint json_eqb (a b : json) {struct a} : bool :=
  match a, b with
  | JNull, JNull => true
  | JBool x, JBool y => Bool.eqb x y
  | JNum x, JNum y => x =? y
  | JStr x, JStr y => leaf_eqb x y
  | JArr l1, JArr l2 =>
      (fix go (l1 l2 : list json) : bool :=
         match l1, l2 with
         | [], [] => true
         | x :: l1', y :: l2' => json_eqb x y && go l1' l2'
         | _, _ => false
         end) l1 l2
  | JObj l1, JObj l2 =>
      (fix go (l1 l2 : list (fld * json)) : bool :=
         match l1, l2 with
         | [], [] => true
         | (f, x) :: l1', (g, y) :: l2' => fld_eqb f g && json_eqb x y && go l1' l2'
         | _, _ => false
         end) l1 l2
  | JMap l1, JMap l2 =>
      (fix go (l1 l2 : list (N * json)) : bool :=
         match l1, l2 with
         | [], [] => true
         | (f, x) :: l1', (g, y) :: l2' => (f =? g) && json_eqb x y && go l1' l2'
         | _, _ => false
         end) l1 l2
  | _, _ => false
  end.

(* configurations compared through their canonical marshalled form plus the fields the
   marshalled form does not determine (none: [marshal] is injective on what unmarshal yields) *)
Definition config_eqb (a b : config) : bool :=
  match a, b with
  | CV1 _, CV1 _ | CV2 _, CV2 _ => json_eqb (canon (marshal a)) (canon (marshal b))
  | _, _ => false
  end.

(* the hypothesis of the theorems, checked on every case: relay maps are key-unique *)
Definition wf_config_b (c : config) : bool :=
  match c with
  | CV1 c1 => nodupb (map fst (c1_props c1))
  | CV2 c2 => nodupb (map fst (e_relays c2))
              && forallb (fun p => nodupb (map fst (p_relays p))) (e_props c2)
  end.

(* ---- the model's prediction of the whole pipeline ---- *)
(* the history: the service model answers every lookup as the service did, and every document a
   refresh accepted has key-unique relay maps (the hypothesis of C10_service_history) *)
Definition op_wf_b (o : sop) : bool :=
  match o with
  | SRefresh (FDoc j) => match unmarshal j with Some cfg => wf_config_b cfg | None => true end
  | _ => true
  end.

Definition hist_agree (c : case) : bool :=
  list_eqb outcome_eqb (svc_run None (c_ops c) (c_fbfee c) (c_fbgas c)) (c_hist c)
  && forallb op_wf_b (c_ops c).

Definition agree_doc (c : case) : bool :=
  match unmarshal (c_doc c) with
  | None => negb (c_ok1 c)
  | Some cfg0 =>
      c_ok1 c
      && wf_config_b cfg0
      && option_eqb config_eqb (Some cfg0) (c_parsed c)
      && (let r1 := lookups cfg0 (c_vals c) (c_fbfee c) (c_fbgas c) in
          list_eqb outcome_eqb r1 (c_out1 c)
          && list_eqb outcome_eqb r1 (c_shown c)
          && match c_marshalled c with
             | None => false
             | Some m =>
                 (* the lookups left the configuration as it was *)
                 json_eqb (canon (marshal cfg0)) (canon m)
                 && match unmarshal m with
                    | None => negb (c_ok2 c)
                    | Some cfg2 =>
                        c_ok2 c
                        && list_eqb outcome_eqb (lookups cfg2 (c_vals c) (c_fbfee c) (c_fbgas c)) (c_out2 c)
                    end
             end)
  end.

Definition agree (c : case) : bool := agree_doc c && hist_agree c.

(* ---- the property on the OBSERVED outputs (the procedural model is not consulted) ----
   [unmarshal] gives the document its meaning (which fields are present at which level);
   [resolve] is the documented precedence.  A document without meaning must be refused; a
   document with a meaning must be accepted, every validator must get exactly the settings the
   precedence gives, nothing may panic, what --proposer-config-check prints must be those
   settings, after marshal -> unmarshal every validator must get the same settings again, and
   the marshalled document must mean the configuration the input document means. *)
(* the marshalled document, read as a document, is the configuration the input document is: every
   entry, value and presence the same, account patterns the same on every probe name (patterns are
   numbered by what they match), relay maps up to order.  By C10_roundtrip_meaning-style reasoning
   this gives the same settings to EVERY validator, not only to those of the case. *)
Definition same_meaning (cfg : config) (m : option json) : bool :=
  match m with
  | None => false
  | Some j => match unmarshal j with
              | None => false
              | Some cfg' => config_eqb cfg cfg'
              end
  end.

Definition P_with (spec : config -> validator -> N -> N -> outcome) (c : case) : bool :=
  match unmarshal (c_doc c) with
  | None => negb (c_ok1 c)
  | Some cfg =>
      c_ok1 c
      && list_eqb outcome_eqb (map (fun v => spec cfg v (c_fbfee c) (c_fbgas c)) (c_vals c)) (c_out1 c)
      && list_eqb outcome_eqb (c_out1 c) (c_shown c)
      && c_ok2 c
      && list_eqb outcome_eqb (c_out1 c) (c_out2 c)
      && same_meaning cfg (c_marshalled c)
  end.

(* The legacy format has two documented readings.  The property's own wording ("legacy lookup
   proposer -> default -> fallback") selects a whole entry: [resolve].  docs/execlayer.md words
   the precedence per value: [resolve_doc]; the code does not do that (theorem
   C10_v1_fieldwise_refuted), which is known finding C10-v1-entry-not-fieldwise.  Once that
   finding is registered in known_findings.json the harness sets [c_v1_per_value] and the cases
   tagged "v1-fieldwise" are reported as KNOWN-FINDING; until then the whole-entry reading is
   the oracle.  Version 2 documents are judged identically by both. *)
(* The history: every lookup on the service got the settings the documented precedence gives for
   ITS OWN arguments (public key, and the account that was passed or none) under the last document
   a refresh accepted before it (the fallback fee recipient without relays before the first one) —
   whatever was asked before, with or without account, and however often the configuration was
   refreshed, refused or unavailable in between. *)
Definition hist_ok (spec : config -> validator -> N -> N -> outcome) (c : case) : bool :=
  list_eqb outcome_eqb (svc_spec_run spec [] None (c_ops c) (c_fbfee c) (c_fbgas c)) (c_hist c).

Definition P_b (c : case) : bool :=
  if c_v1_per_value c then P_with resolve_doc c && hist_ok resolve_doc c
  else P_with resolve c && hist_ok resolve c.

Definition mismatches (cs : list case) : list N := failing_ids c_id agree cs.
Definition violations (cs : list case) : list N := failing_ids c_id P_b cs.
