(* C06 correspondence: cases as printed by harness/c06. *)
From Verif Require Export Lib.Base Lib.Ssz Model.C06_Signer.
From Verif Require Import Lib.Sha256 Lib.Sha256Fast.

(* The hash used to evaluate cases: SHA-256 of the two chunks (primitive-integer implementation,
   cross-checked against the reference in Lib/Sha256Fast.v), with the two lowest zero-hashes
   short-cut (they are recomputed for every odd merkle layer otherwise). *)
Definition zh1 : N := Eval vm_compute in sha256_2 0 0.
Definition zh2 : N := Eval vm_compute in sha256_2 zh1 zh1.
Example zh_ok : sha256_2_fast 0 0 = zh1 /\ sha256_2_fast zh1 zh1 = zh2.
Proof. vm_compute. split; reflexivity. Qed.
Definition Hc (a b : N) : N :=
  match a, b with
  | 0, 0 => zh1
  | _, _ => if (a =? zh1) && (b =? zh1) then zh2 else sha256_2_fast a b
  end.

(* Provenance of a signature: the account method call that produced it, with all its arguments.
   The harness's mock accounts remember it for every signature they make; the model's environment
   below builds the same terms. *)
Inductive psig :=
| PZero                                              (* the all-zero signature *)
| PUnknown                                           (* bytes that no mock account produced *)
| PSign (k data : N)
| PGeneric (k root domain : N)
| PAtt (k : N) (d : att_data) (domain : N)
| PProp (k : N) (h : block_header) (domain : N)
| PMultiGeneric (k0 k root domain : N)               (* entry for key k of SignGenericMulti called on key k0's account *)
| PMultiAtt (k0 k : N) (d : att_data) (domain : N).

Definition att_eqb (a b : att_data) : bool :=
  (ad_slot a =? ad_slot b) && (ad_index a =? ad_index b) && (ad_block_root a =? ad_block_root b)
  && (ad_source_epoch a =? ad_source_epoch b) && (ad_source_root a =? ad_source_root b)
  && (ad_target_epoch a =? ad_target_epoch b) && (ad_target_root a =? ad_target_root b).

Definition header_eqb (a b : block_header) : bool :=
  (bh_slot a =? bh_slot b) && (bh_proposer a =? bh_proposer b) && (bh_parent a =? bh_parent b)
  && (bh_state a =? bh_state b) && (bh_body a =? bh_body b).

Definition psig_eqb (x y : psig) : bool :=
  match x, y with
  | PZero, PZero => true
  | PUnknown, PUnknown => true
  | PSign k d, PSign k' d' => (k =? k') && (d =? d')
  | PGeneric k r d, PGeneric k' r' d' => (k =? k') && (r =? r') && (d =? d')
  | PAtt k a d, PAtt k' a' d' => (k =? k') && att_eqb a a' && (d =? d')
  | PProp k h d, PProp k' h' d' => (k =? k') && header_eqb h h' && (d =? d')
  | PMultiGeneric k0 k r d, PMultiGeneric k0' k' r' d' => (k0 =? k0') && (k =? k') && (r =? r') && (d =? d')
  | PMultiAtt k0 k a d, PMultiAtt k0' k' a' d' => (k0 =? k0') && (k =? k') && att_eqb a a' && (d =? d')
  | _, _ => false
  end.

(* the recording environment: what the harness's mock accounts do, as provenance terms.  The
   transient failures scripted for the request (by account key): [bf] a multi-signature call has a
   nil (or all-zero) entry for this member, [be] a multi-signature call made ON this account
   fails as a whole, [sf] the single-signature methods of this account fail. *)
Definition mem (k : N) (l : list N) : bool := existsb (N.eqb k) l.

Definition rec_single (sf : list N) (a : account) (p : psig) : option psig :=
  if a_fail a || mem (a_key a) sf then None else Some p.
Definition rec_member (bf : list N) (a : account) (p : psig) : option psig :=
  if a_fail a || mem (a_key a) bf then None else Some p.

Definition rec_env_for (bf be sf : list N) : env psig := {|
  e_sign := fun a data => rec_single sf a (PSign (a_key a) data);
  e_generic := fun a root domain => rec_single sf a (PGeneric (a_key a) root domain);
  e_att := fun a d domain => rec_single sf a (PAtt (a_key a) d domain);
  e_prop := fun a h domain => rec_single sf a (PProp (a_key a) h domain);
  e_multi_generic := fun a0 accs roots domain =>
    if negb (Nat.eqb (length accs) (length roots)) || mem (a_key a0) be then None
    else Some (map (fun '(a, root) => rec_member bf a (PMultiGeneric (a_key a0) (a_key a) root domain)) (combine accs roots));
  e_multi_att := fun a0 accs idxs shared domain =>
    if negb (Nat.eqb (length accs) (length idxs)) || mem (a_key a0) be then None
    else Some (map (fun '(a, idx) => rec_member bf a (PMultiAtt (a_key a0) (a_key a) (att_with_index shared idx) domain)) (combine accs idxs))
|}.

(* no transient failure *)
Definition rec_env : env psig := rec_env_for [] [] [].

Inductive ores := OErr | OPanic | OOk (sigs : list psig).

Record case := {
  c_id : N;
  c_chain : chain;              (* the fork schedule etc. the harness's domain provider computes domains from *)
  c_svc : service;              (* what the harness's spec provider served (absent optional domain types = None) *)
  c_dom_fail : bool;            (* the domain provider returns errors *)
  c_batch_fail : list N;        (* keys: multi-signature calls made for this request have no signature for this member *)
  c_batch_err : list N;         (* keys: a multi-signature call made on this account for this request fails as a whole *)
  c_single_fail : list N;       (* keys: the single-signature methods of this account fail during this request *)
  c_req : request;
  c_out : ores;                 (* outcome; for OOk the provenance of every returned signature *)
  c_verified : list bool;       (* i-th returned signature BLS-verifies under the i-th account's validator key against c_roots[i] *)
  c_roots : list N              (* the harness's own computation of the spec signing root of the i-th message *)
}.

Definition failing_provider : provider := {| p_domain := fun _ _ => None; p_genesis := fun _ => None |}.

(* the node as it answers during the case's request *)
Definition case_provider (c : case) : provider :=
  if c_dom_fail c then failing_provider else spec_provider Hc (c_chain c).

Definition to_ores (r : res (list psig)) : ores :=
  match r with
  | Ok sigs => OOk sigs
  | Err => OErr
  | Panic => OPanic
  end.

(* the accounts' signers as they answer during the case's request *)
Definition case_env (c : case) : env psig := rec_env_for (c_batch_fail c) (c_batch_err c) (c_single_fail c).

(* Every case is ONE request; the harness makes it to a service fresh from New, or as a later
   request of a session on one service instance (sequentially or from several goroutines at once).
   In both situations the model's prediction is that of the request made alone (for a session
   this is [run_session_env], lemma [session_cases_agree] below). *)
Definition model_out (c : case) : ores :=
  to_ores (run Hc psig PZero (case_provider c) (case_env c) (c_svc c) (c_req c)).

Definition ores_eqb (x y : ores) : bool :=
  match x, y with
  | OErr, OErr => true
  | OPanic, OPanic => true
  | OOk a, OOk b => list_eqb psig_eqb a b
  | _, _ => false
  end.

Definition agree (c : case) : bool := ores_eqb (model_out c) (c_out c).

(* The property on the OBSERVED output alone (the model is not consulted): when signatures are
   returned there is exactly one per (account, message) of the request, and the i-th one
   - BLS-verifies (real keys, checked by the harness) under the i-th account's validator key
     against the harness's root for the i-th message, and that root is the specification's signing
     root for the i-th message as Lib/Ssz.v computes it (domain type of the duty, fork of the
     duty's epoch); or
   - is the zero signature (vouch's "no signature") and the i-th account is one that cannot sign,
     or one that the signer had no signature for in a batch call of this request ([bf]).
   In particular EVERY non-zero signature returned -- whether it came out of the batch call or out
   of anything done about a member that the batch call left out -- must verify against the
   signing root of ITS OWN message. *)
Definition cannot_sign (bf : list N) (a : account) : bool := a_fail a || mem (a_key a) bf.
(* [bf] below is c_batch_fail ++ c_single_fail: the accounts that the signer, during this request,
   had no signature for in a batch call or failed for when asked alone *)

Fixpoint sigs_ok (bf : list N) (ch : chain) (items : list (account * message)) (sigs : list psig) (ver : list bool) (roots : list N) : bool :=
  match items, sigs with
  | [], [] => true
  | (a, m) :: items', s :: sigs' =>
      match ver, roots with
      | v :: ver', r :: roots' =>
          (match s with
           | PZero => cannot_sign bf a
           | _ => v && (r =? spec_signing_root Hc ch m)
           end) && sigs_ok bf ch items' sigs' ver' roots'
      | _, _ => false
      end
  | _, _ => false
  end.

Definition P_b (c : case) : bool :=
  match c_out c with
  | OOk sigs => sigs_ok (c_batch_fail c ++ c_single_fail c) (c_chain c) (request_items (c_req c)) sigs (c_verified c) (c_roots c)
  | _ => true
  end.

Definition mismatches (cs : list case) : list N := failing_ids c_id agree cs.
Definition violations (cs : list case) : list N := failing_ids c_id P_b cs.

(* What P_b = true says, position by position (P_b is the boolean form of the property on the
   observed output). *)
Lemma sigs_ok_sound bf ch : forall items sigs ver roots,
  sigs_ok bf ch items sigs ver roots = true ->
  length sigs = length items /\
  forall i a m s, nth_error items i = Some (a, m) -> nth_error sigs i = Some s ->
    (s = PZero /\ cannot_sign bf a = true) \/
    (s <> PZero /\ nth_error ver i = Some true /\ nth_error roots i = Some (spec_signing_root Hc ch m)).
Proof.
  induction items as [|[a0 m0] items IH]; intros [|s0 sigs] ver roots Hok; cbn [sigs_ok] in Hok; try discriminate.
  - split; [reflexivity|]. intros [|i] a m s Hi; discriminate.
  - destruct ver as [|v ver]; [discriminate|]. destruct roots as [|r roots]; [discriminate|].
    apply andb_true_iff in Hok as [Hhd Htl]. destruct (IH _ _ _ Htl) as [Hlen Hnth].
    split; [cbn; congruence|].
    intros [|i] a m s Hi Hs; cbn in Hi, Hs.
    + injection Hi as <- <-. injection Hs as <-.
      assert (Hnz : s0 <> PZero -> v && (r =? spec_signing_root Hc ch m0) = true).
      { intro Hne. destruct s0; try exact Hhd. congruence. }
      destruct s0; try (right; split; [discriminate|]; specialize (Hnz ltac:(discriminate));
                        apply andb_true_iff in Hnz as [Hv Hr]; apply N.eqb_eq in Hr; rewrite Hv, Hr; split; reflexivity).
      left. split; [reflexivity | exact Hhd].
    + cbn. eapply Hnth; eassumption.
Qed.

Lemma P_b_sound c sigs :
  P_b c = true -> c_out c = OOk sigs ->
  length sigs = length (request_items (c_req c)) /\
  forall i a m s, nth_error (request_items (c_req c)) i = Some (a, m) -> nth_error sigs i = Some s ->
    (s = PZero /\ cannot_sign (c_batch_fail c ++ c_single_fail c) a = true) \/
    (s <> PZero /\ nth_error (c_verified c) i = Some true /\
     nth_error (c_roots c) i = Some (spec_signing_root Hc (c_chain c) m)).
Proof. unfold P_b. intros Hp Ho. rewrite Ho in Hp. apply sigs_ok_sound. exact Hp. Qed.

(* The cases that the harness prints for the requests of one session (same service [Sv]; each with
   the node and the accounts' signers as they answered that request) agree one by one exactly when the session model
   [run_session_env] on that one service predicts the observed outcomes in order. *)
Lemma session_cases_agree (Sv : service) (cs : list case) :
  Forall (fun c => c_svc c = Sv) cs ->
  forallb agree cs = true ->
  Forall2 (fun r c => ores_eqb (to_ores r) (c_out c) = true)
          (run_session_env Hc psig PZero Sv (map (fun c => (case_provider c, case_env c, c_req c)) cs)) cs.
Proof.
  induction cs as [|c r IH]; intros Hsv Hag; cbn [map run_session_env handle_env fst snd].
  - constructor.
  - inversion Hsv as [|? ? Hc0 Hr]; subst. cbn [forallb] in Hag. apply andb_true_iff in Hag as [Hc1 Hr1].
    constructor.
    + exact Hc1.
    + apply IH; assumption.
Qed.
