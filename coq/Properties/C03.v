(* C03 — property theorems (stub while the pipeline is brought up). *)
From Verif Require Import Lib.Base Model.C03_ChainTime Proofs.C03_ChainTime.
Open Scope Z_scope.

Theorem C03_current_slot_in_slot : forall p s t,
  params_ok p -> slot_in_range p (s + 1) ->
  start_of_slot p s <= t < start_of_slot p (s + 1) ->
  current_slot p t = s.
Proof. exact current_slot_in_slot. Qed.
Print Assumptions C03_current_slot_in_slot.
