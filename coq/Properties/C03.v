(* C03 — every duty is scheduled once, for the right time, across restarts and reorgs.
   Property theorems only.  The model is in Model/C03_ChainTime.v (chain time, written from
   services/chaintime/standard/service.go) and Model/C03_Controller.v (the controller over the
   abstract scheduler, written from services/controller/standard/*.go and
   services/attester/helpers.go); the declarative reading of each scheduling function and the
   vocabulary of the history-level theorems (discipline of a history, table invariants) are in
   Model/C03_Spec.v; the lemmas are in Proofs/C03_*.v.

   Reading guide.  [tget t n] is the job filed under name [n] in the scheduler's table [t];
   [sched_att / sched_prop / sched_sync] are scheduleAttestations / scheduleProposals /
   scheduleSyncCommitteeMessages, [refresh_*] the refreshes after a change of dependent root,
   [head_event] HandleHeadEvent, [epoch_tick] the epoch ticker, [start] the constructor, [fire]
   the scheduler running a job; [run c st ops] folds [step] over a history of such events.
   Every theorem quantifies over all configurations, all answers of the beacon node (any slots,
   any validators, duplicates), all clock positions and all histories. *)
From Verif Require Import Lib.Base Model.C03_ChainTime Model.C03_Controller Model.C03_Spec
     Proofs.C03_ChainTime Proofs.C03_Table Proofs.C03_Sched Proofs.C03_Hist Proofs.C03_More Proofs.C03_SyncStart Proofs.C03_Merge Proofs.C03_Witness Check.C03 Proofs.C03_Check.
From Coq Require Import Permutation Sorted.
Open Scope Z_scope.

(* =========================================================================================== *)
(* Chain time.  Domain: a slot lasts a whole, positive number of seconds and an epoch has at least
   one slot ([params_ok]); the slot's start fits Go's int64 nanoseconds ([slot_in_range]). *)

(* an instant inside slot s is reported as slot s *)
Theorem C03_current_slot_in_slot : forall p s t,
  params_ok p -> slot_in_range p (s + 1) ->
  start_of_slot p s <= t < start_of_slot p (s + 1) ->
  current_slot p t = s.
Proof. exact current_slot_in_slot. Qed.
Print Assumptions C03_current_slot_in_slot.

(* conversely, at or after genesis the present instant lies inside the slot CurrentSlot reports *)
Theorem C03_now_in_current_slot : forall p t,
  params_ok p -> ct_genesis p <= t -> slot_in_range p (current_slot p t + 1) ->
  start_of_slot p (current_slot p t) <= t < start_of_slot p (current_slot p t + 1).
Proof. exact now_in_current_slot. Qed.
Print Assumptions C03_now_in_current_slot.

Theorem C03_epoch_of_first_slot : forall p e,
  (0 < ct_spe p)%N -> (e * ct_spe p < two64)%N ->
  slot_to_epoch p (first_slot_of_epoch p e) = e.
Proof. exact epoch_of_first_slot. Qed.
Print Assumptions C03_epoch_of_first_slot.

(* a slot lies between the first slot of its epoch and the first slot of the next one *)
Theorem C03_first_slot_le : forall p s,
  (0 < ct_spe p)%N -> ((slot_to_epoch p s + 1) * ct_spe p < two64)%N ->
  (first_slot_of_epoch p (slot_to_epoch p s) <= s < first_slot_of_epoch p (slot_to_epoch p s + 1))%N.
Proof. exact first_slot_le. Qed.
Print Assumptions C03_first_slot_le.

(* unconditionally, wrap-around included: both compute genesis + int64(uint64(e*spe)) * duration *)
Theorem C03_start_of_epoch_is_start_of_first_slot : forall p e,
  start_of_epoch p e = start_of_slot p (first_slot_of_epoch p e).
Proof. exact start_of_epoch_is_start_of_first_slot. Qed.
Print Assumptions C03_start_of_epoch_is_start_of_first_slot.

Theorem C03_current_epoch_is_epoch_of_current_slot : forall p t,
  params_ok p -> (Z.to_N (slot_secs p) * ct_spe p < two64)%N ->
  current_epoch p t = slot_to_epoch p (current_slot p t).
Proof. exact current_epoch_is_epoch_of_current_slot. Qed.
Print Assumptions C03_current_epoch_is_epoch_of_current_slot.

Theorem C03_start_of_slot_monotone : forall p s s',
  params_ok p -> slot_in_range p s' -> (s < s')%N -> start_of_slot p s < start_of_slot p s'.
Proof. exact start_of_slot_lt. Qed.
Print Assumptions C03_start_of_slot_monotone.

(* a job timed "slot start + delay" runs inside its slot exactly when 0 <= delay < slot duration *)
Theorem C03_job_time_in_slot : forall p s delay,
  params_ok p -> slot_in_range p (s + 1) -> 0 <= delay < ct_dur p ->
  current_slot p (start_of_slot p s + delay) = s.
Proof. exact job_time_in_slot. Qed.
Print Assumptions C03_job_time_in_slot.

(* non-vacuity: mainnet parameters, a slot seven years after genesis *)
Example C03_chain_time_nonvacuous :
  let p := {| ct_genesis := 1606824023000000000; ct_dur := 12000000000; ct_spe := 32 |} in
  params_ok p /\ slot_in_range p (18000000 + 1) /\
  current_slot p (start_of_slot p 18000000 + 11999999999) = 18000000%N /\
  current_epoch p (start_of_slot p 18000000) = 562500%N.
Proof.
  cbv zeta. split; [exists 12; repeat split; reflexivity|]. split; [reflexivity|]. split; vm_compute; reflexivity.
Qed.

(* the defect repaired in the repository (c6f662e): through float64 seconds the last 16 ns before
   this slot boundary of a five-year-old chain were already counted as the next second *)
Example C03_float_seconds_boundary :
  seconds_f64_trunc 159999995999999990 = 159999996 /\ whole_seconds 159999995999999990 = 159999995.
Proof. split; vm_compute; reflexivity. Qed.

Open Scope N_scope.

(* =========================================================================================== *)
(* The scheduling functions, exactly.  For every configuration [c], clock [cur], answer [ds] of the
   node, requested [epoch], flag [notcur] and table [t]: the table afterwards, name by name. *)

(* scheduleAttestations: an existing job stays; otherwise slot s gets a job iff some duty names it,
   it lies in the requested epoch and it has not passed; that job is timed at the slot's start
   plus maxAttestationDelay; nothing else changes; one job per name is preserved. *)
Theorem C03_att_jobs_exact : forall c cur have_vals ds epoch notcur t,
  (forall n, tget (sched_att c cur have_vals ds epoch notcur t) n =
             match tget t n with
             | Some j => Some j
             | None => match n with
                       | JAtt s => if have_vals && (existsb (fun d => ad_slot d =? s) ds && in_epoch c epoch s && due cur notcur s)
                                   then Some {| j_name := JAtt s;
                                                j_time := (start_of_slot (c_ct c) s + c_att_delay c)%Z;
                                                j_pay := j_pay (att_job c ds epoch s) |}
                                   else None
                       | _ => None
                       end
             end) /\
  (twf t -> twf (sched_att c cur have_vals ds epoch notcur t)).
Proof.
  intros c cur have_vals ds epoch notcur t. split; [|apply sched_att_wf].
  intro n. exact (sched_att_exact c cur have_vals ds epoch notcur t n).
Qed.
Print Assumptions C03_att_jobs_exact.

(* ... and the job of a slot of the requested epoch covers exactly the (validator, committee,
   position) entries the node reported for that slot, duplicates included *)
Theorem C03_att_job_covers_duties : forall c ds epoch s,
  in_epoch c epoch s = true ->
  Permutation (j_pay (att_job c ds epoch s))
              (map (fun d => (ad_val d, ad_comm d, ad_vci d)) (filter (fun d => ad_slot d =? s) ds)).
Proof. exact att_job_payload. Qed.
Print Assumptions C03_att_job_covers_duties.

(* scheduleProposals: likewise, with the early-proposal check at the slot's start when
   maxProposalDelay > 0 *)
Theorem C03_prop_jobs_exact : forall c cur have_vals ds epoch notcur t,
  (forall n, tget (sched_prop c cur have_vals ds epoch notcur t) n =
             match tget t n with
             | Some j => Some j
             | None =>
                 let wanted s := have_vals && (existsb (fun d => pd_slot d =? s) ds && in_epoch c epoch s && due cur notcur s) in
                 match n with
                 | JProp s => if wanted s
                              then Some {| j_name := JProp s;
                                           j_time := (start_of_slot (c_ct c) s + c_prop_delay c)%Z;
                                           j_pay := j_pay (prop_job c ds epoch s) |}
                              else None
                 | JEarly s => if wanted s && (0 <? c_prop_delay c)%Z
                               then Some {| j_name := JEarly s; j_time := start_of_slot (c_ct c) s; j_pay := [] |}
                               else None
                 | _ => None
                 end
             end) /\
  (twf t -> twf (sched_prop c cur have_vals ds epoch notcur t)).
Proof.
  intros c cur have_vals ds epoch notcur t. split; [|apply sched_prop_wf].
  intro n. exact (sched_prop_exact c cur have_vals ds epoch notcur t n).
Qed.
Print Assumptions C03_prop_jobs_exact.

Theorem C03_prop_job_covers_duties : forall c ds epoch s,
  in_epoch c epoch s = true ->
  j_pay (prop_job c ds epoch s) = map (fun d => (pd_val d, 0, 0)) (filter (fun d => pd_slot d =? s) ds).
Proof. exact prop_job_payload. Qed.
Print Assumptions C03_prop_job_covers_duties.

(* scheduleSyncCommitteeMessages: one preparation job per slot of the window [fs, ls] computed by
   [sync_window] (first slot - 1 of the period clamped to the fork epoch and to now .. last slot - 1),
   1.5 slots ahead, for the validators the node names for the period; nothing before the fork *)
Theorem C03_sync_jobs_exact : forall c ae cur e epoch notcur t,
  (forall n, tget (sched_sync c ae cur e epoch notcur t) n = spec_sched_sync c ae cur e epoch notcur t n) /\
  (twf t -> twf (sched_sync c ae cur e epoch notcur t)) /\
  (forall fe fs ls, sync_window c ae cur epoch = (fe, fs, ls) -> cur <= fs).
Proof.
  intros c ae cur e epoch notcur t. split; [|split].
  - intro n. apply sched_sync_exact.
  - apply sched_sync_wf.
  - intros fe fs ls H. exact (sync_window_first c ae cur epoch fe fs ls H).
Qed.
Print Assumptions C03_sync_jobs_exact.

(* non-vacuity of the exactness theorems: duties inside and outside the epoch, past, current and
   future; the table afterwards has exactly the two jobs the statement predicts *)
Example C03_att_jobs_nonvacuous :
  let ds := [ {| ad_slot := 9; ad_val := 1; ad_comm := 2; ad_vci := 3 |};      (* current slot *)
              {| ad_slot := 8; ad_val := 2; ad_comm := 0; ad_vci := 1 |};      (* passed *)
              {| ad_slot := 11; ad_val := 3; ad_comm := 1; ad_vci := 0 |};
              {| ad_slot := 11; ad_val := 4; ad_comm := 0; ad_vci := 7 |};
              {| ad_slot := 12; ad_val := 5; ad_comm := 0; ad_vci := 0 |} ] in (* next epoch *)
  map (fun j => (j_name j, j_pay j)) (sched_att wcfg 9 true ds 2 false []) =
  [ (JAtt 9, [(1, 2, 3)]); (JAtt 11, [(4, 0, 7); (3, 1, 0)]) ].
Proof. vm_compute. reflexivity. Qed.

(* "ignores duties outside the requested epoch": the slot filter of the scheduling functions keeps
   exactly the slots whose chain-time epoch is the requested one *)
Theorem C03_in_epoch_is_chain_time_epoch : forall c e s,
  0 < ct_spe (c_ct c) -> (e + 1) * ct_spe (c_ct c) < two64 ->
  (in_epoch c e s = true <-> slot_to_epoch (c_ct c) s = e).
Proof. exact in_epoch_iff. Qed.
Print Assumptions C03_in_epoch_is_chain_time_epoch.

(* the sync committee window in plain arithmetic: from the slot before the period's first slot
   (clamped to the fork epoch, to slot 0 and to now) to two slots before the next period's first slot *)
Theorem C03_sync_window_plain : forall c ae cur ep,
  let P := ep / c_period c in
  let ce := cur_epoch c cur in
  let hiE := N.max ((P + 1) * c_period c) ae in
  let fe := N.max (N.max (P * c_period c) ae) ce in
  N.max hiE ce * ct_spe (c_ct c) < two64 -> 2 <= hiE * ct_spe (c_ct c) -> 0 < c_period c ->
  sync_window c ae cur ep = (fe, N.max (fe * ct_spe (c_ct c) - 1) cur, hiE * ct_spe (c_ct c) - 2).
Proof. exact sync_window_plain. Qed.
Print Assumptions C03_sync_window_plain.

(* =========================================================================================== *)
(* Every history, disciplined or not: the scheduler never holds two jobs of one name, and every
   attestation / proposal / early-proposal / sync-preparation job is timed at its slot's start
   plus the configured delay. *)
Theorem C03_one_job_per_name_rightly_timed : forall shadowed c ops st,
  tbl_ok c (st_jobs st) -> tbl_ok c (st_jobs (run shadowed c st ops)).
Proof. intros shadowed c ops st. exact (run_ok c shadowed ops st). Qed.
Print Assumptions C03_one_job_per_name_rightly_timed.

Example C03_tbl_ok_nonvacuous : forall h ae, tbl_ok wcfg (st_jobs (init_state h ae)).
Proof. intros h ae. apply tbl_ok_nil. Qed.

(* ... hence, with the chain-time theorems: in every history every attestation / proposal job is
   timed inside the slot of its duty (for delays shorter than a slot) *)
Theorem C03_jobs_run_in_their_slot : forall shadowed c ops st n j,
  tbl_ok c (st_jobs st) -> params_ok (c_ct c) ->
  tget (st_jobs (run shadowed c st ops)) n = Some j ->
  match n with
  | JAtt s => slot_in_range (c_ct c) (s + 1) -> (0 <= c_att_delay c < ct_dur (c_ct c))%Z ->
              current_slot (c_ct c) (j_time j) = s
  | JProp s => slot_in_range (c_ct c) (s + 1) -> (0 <= c_prop_delay c < ct_dur (c_ct c))%Z ->
               current_slot (c_ct c) (j_time j) = s
  | JEarly s => slot_in_range (c_ct c) (s + 1) -> current_slot (c_ct c) (j_time j) = s
  | _ => True
  end.
Proof. exact jobs_in_slot_run. Qed.
Print Assumptions C03_jobs_run_in_their_slot.

(* A scheduled job stays in the table, unchanged, through every event except: it runs (its own
   firing, the early-proposal check finding the head up to date, the fast track of the current
   slot's attestation), a detected change of dependent root refreshes its kind, or the process
   restarts.  [may_drop] (Proofs/C03_More.v) spells these cases out per operation. *)
Theorem C03_jobs_persist : forall shadowed c st o n j,
  tget (st_jobs st) n = Some j ->
  tget (st_jobs (step shadowed c st o)) n = Some j \/
  match o with
  | Start => True
  | Fire m h => m = n \/ (exists s, m = JEarly s /\ n = JProp s /\ h = sub64 s 1)
  | Head slot pr cr =>
      slot = st_cur st /\
      let d := reorg_decide (st_last_epoch st) (st_prev_root st) (st_cur_root st) (slot_to_epoch (c_ct c) slot) pr cr in
      ((c_ft_att c = true /\ n = JAtt slot) \/
       (fst d = true /\ is_att n = true) \/
       (snd d = true /\ (is_att n = true \/ is_prop n = true \/ is_sync n = true)))
  | RefreshAtt _ => is_att n = true
  | RefreshProp _ => is_prop n = true
  | RefreshSync _ => is_sync n = true
  | _ => False
  end.
Proof. exact jobs_persist. Qed.
Print Assumptions C03_jobs_persist.

(* =========================================================================================== *)
(* Start-up and restart at any instant, whatever the node answers: every job of the fresh process
   concerns a slot strictly after the current one, and there is no epoch-preparation job. *)
Theorem C03_restart_strictly_later : forall shadowed c st n j,
  tget (st_jobs (start shadowed c st)) n = Some j ->
  match n with
  | JAtt s | JProp s | JEarly s | JSync s => st_cur st < s
  | JPrep _ => False
  end.
Proof. intros shadowed c st n j H. exact (start_later shadowed c st n j H). Qed.
Print Assumptions C03_restart_strictly_later.

Example C03_restart_nonvacuous :
  map j_name (st_jobs (start false wcfg (set_env (set_cur (init_state false 0) 8) wenv))) = [JProp 9; JAtt 9].
Proof. vm_compute. reflexivity. Qed.

(* ... and it schedules every strictly later duty the node reports for the current and the next
   epoch, with the reported validator and the right time *)
Theorem C03_restart_schedules_later_duties : forall shadowed c,
  0 < ct_spe (c_ct c) ->
  forall st d,
    bounded c (st_cur st) -> e_vals (st_env st) = true ->
    let ce := cur_epoch c (st_cur st) in
    st_cur st < ad_slot d ->
    (In d (alookup (e_att (st_env st)) ce) /\ in_epoch c ce (ad_slot d) = true) \/
    (In d (alookup (e_att (st_env st)) (add64 ce 1)) /\ in_epoch c (add64 ce 1) (ad_slot d) = true) ->
    exists j, tget (st_jobs (start shadowed c st)) (JAtt (ad_slot d)) = Some j /\
              In (ad_val d, ad_comm d, ad_vci d) (j_pay j) /\
              j_time j = (start_of_slot (c_ct c) (ad_slot d) + c_att_delay c)%Z.
Proof. exact start_schedules_later_duties. Qed.
Print Assumptions C03_restart_schedules_later_duties.

(* =========================================================================================== *)
(* Start-up / restart completeness for sync committee duties.  [in_sync_window ae cur ep s]: slot
   [s] lies in the window scheduleSyncCommitteeMessages computes at clock [cur] for the period of
   epoch [ep] (Altair fork epoch [ae]); [sync_active]: validators are known, the chain is at or past
   the fork and the node names a validator for that period.  Wherever in a period the process is
   (re)started: the rest of the current period has its jobs at once; so has the whole next period
   when its first epoch is at most 5 epochs away; otherwise the epoch 5 before the boundary is
   still to come and its epoch tick sets the next period up; the two conditions leave no gap
   ([C03_next_sync_period_by_start_or_by_tick]: weakening either of them, e.g. "<" for "<=" at
   start-up or the ticker's test at start-up, falsifies it); the jobs then stay in the table. *)
Theorem C03_restart_schedules_sync_period : forall shadowed c st ae s,
  altair_details shadowed c = (true, ae) ->
  let cur := st_cur st in
  let this := feosp c ae (cur_epoch c cur / c_period c)%N in
  sync_active c ae cur (st_env st) this = true ->
  in_sync_window c ae cur this s -> s <> cur ->
  texists (st_jobs (start shadowed c st)) (JSync s) = true.
Proof. exact start_schedules_sync_period. Qed.
Print Assumptions C03_restart_schedules_sync_period.

Theorem C03_restart_schedules_next_sync_period : forall shadowed c st ae s,
  altair_details shadowed c = (true, ae) ->
  let cur := st_cur st in
  let next := feosp c ae (cur_epoch c cur / c_period c + 1)%N in
  (sub64 next (cur_epoch c cur) <= 5)%N ->
  sync_active c ae cur (st_env st) next = true ->
  in_sync_window c ae cur next s -> s <> cur ->
  texists (st_jobs (start shadowed c st)) (JSync s) = true.
Proof. exact start_schedules_next_sync_period. Qed.
Print Assumptions C03_restart_schedules_next_sync_period.

Theorem C03_epoch_tick_schedules_next_sync_period : forall c st s,
  let cur := st_cur st in
  let ce := cur_epoch c cur in
  st_altair st = true -> (st_tick st < Z.of_N ce)%Z ->
  (ce mod c_period c)%N = sub64 (c_period c) 5 ->
  sync_active c (st_altair_epoch st) cur (st_env st) (add64 ce 5) = true ->
  in_sync_window c (st_altair_epoch st) cur (add64 ce 5) s ->
  texists (st_jobs (epoch_tick c st)) (JSync s) = true.
Proof. exact tick_schedules_next_sync_period. Qed.
Print Assumptions C03_epoch_tick_schedules_next_sync_period.

Theorem C03_fork_epoch_tick_schedules_sync_periods : forall c st s,
  let cur := st_cur st in
  let ce := cur_epoch c cur in
  let ae := st_altair_epoch st in
  let next := mul64 (add64 (ae / c_period c)%N 1) (c_period c) in
  st_altair st = true -> (st_tick st < Z.of_N ce)%Z -> ce = ae ->
  (sync_active c ae cur (st_env st) ae = true /\ in_sync_window c ae cur ae s) \/
  ((sub64 next ae <= 5)%N /\ sync_active c ae cur (st_env st) next = true /\ in_sync_window c ae cur next s) ->
  texists (st_jobs (epoch_tick c st)) (JSync s) = true.
Proof. exact fork_tick_schedules_sync_periods. Qed.
Print Assumptions C03_fork_epoch_tick_schedules_sync_periods.

Theorem C03_next_sync_period_by_start_or_by_tick : forall c ae ce,
  let len := c_period c in
  let P := (ce / len)%N in
  (5 <= len)%N -> (ae <= ce)%N -> ((P + 2) * len < two64)%N ->
  (sub64 (feosp c ae (P + 1)) ce <= 5)%N \/
  exists e', (ce < e')%N /\ (e' < (P + 1) * len)%N /\ (e' / len)%N = P /\
             (e' mod len)%N = sub64 len 5 /\ add64 e' 5 = ((P + 1) * len)%N /\ (ae <= e')%N.
Proof. exact next_period_by_start_or_by_tick. Qed.
Print Assumptions C03_next_sync_period_by_start_or_by_tick.

Theorem C03_job_persists_over_run : forall shadowed c ops st n j,
  tget (st_jobs st) n = Some j -> never_drops shadowed c st ops n ->
  tget (st_jobs (run shadowed c st ops)) n = Some j.
Proof. exact job_persists_over_run. Qed.
Print Assumptions C03_job_persists_over_run.

(* non-vacuity (period of 8 epochs of 2 slots, fork at 0; the next period begins at epoch 16, its
   window at slot 31): a start-up in epoch 11 (5 before the boundary) and one in epoch 14 set the
   next period up at once; a start-up in epoch 10 does not, the tick of epoch 11 does, and the job
   is still there when the clock reaches the eve of the period *)
Example C03_sync_boundary_nonvacuous :
  let c := {| c_ct := {| ct_genesis := 0; ct_dur := 12000000000; ct_spe := 2 |}; c_att_delay := 4000000000;
              c_prop_delay := 0; c_ft_att := false; c_period := 8%N; c_spec_altair := Some 0%N; c_have_agg := true |} in
  let e := {| e_att := []; e_prop := []; e_sync := [(1%N, [7%N]); (2%N, [9%N])]; e_vals := true |} in
  let at_slot s := set_env (set_cur (init_state false 0) s) e in
  texists (st_jobs (start false c (at_slot 23%N))) (JSync 31%N) = true /\
  texists (st_jobs (start false c (at_slot 28%N))) (JSync 31%N) = true /\
  texists (st_jobs (start false c (at_slot 21%N))) (JSync 31%N) = false /\
  texists (st_jobs (run false c (at_slot 21%N) [Start; Advance 22%N; Tick])) (JSync 31%N) = true /\
  texists (st_jobs (run false c (at_slot 21%N) [Start; Advance 22%N; Tick; Advance 24%N; Tick; Advance 30%N])) (JSync 31%N) = true.
Proof. vm_compute. repeat split. Qed.

(* =========================================================================================== *)
(* The once-per-epoch guard.  After the ticker has run, any further tick of the same process while
   the clock is in that epoch (or an earlier one) changes nothing, whatever happened in between. *)
Theorem C03_epoch_tick_once : forall shadowed c st ops,
  Forall not_start ops ->
  let st2 := run shadowed c (epoch_tick c st) ops in
  cur_epoch c (st_cur st2) <= cur_epoch c (st_cur st) ->
  epoch_tick c st2 = st2.
Proof. exact tick_once. Qed.
Print Assumptions C03_epoch_tick_once.

Theorem C03_epoch_tick_idempotent : forall c st, epoch_tick c (epoch_tick c st) = epoch_tick c st.
Proof. exact tick_idempotent. Qed.
Print Assumptions C03_epoch_tick_idempotent.

(* =========================================================================================== *)
(* Reorg detection.  [reorg_decide last ps cs ep pr cr] is checkEventForReorg for an event of
   epoch [ep] with roots (pr, cr) when the stored state is (last, ps, cs); 0 is the zero root. *)
Theorem C03_reorg_detect : forall last ps cs ep pr cr,
  (fst (reorg_decide last ps cs ep pr cr) = true <->          (* previous-root handler *)
     last <> 0 /\ ps <> 0 /\ ((last < ep /\ cs <> pr) \/ (ep <= last /\ ps <> pr))) /\
  (snd (reorg_decide last ps cs ep pr cr) = true <->          (* current-root handler *)
     last <> 0 /\ ep <= last /\ cs <> 0 /\ cs <> cr).
Proof. exact reorg_decide_spec. Qed.
Print Assumptions C03_reorg_detect.

(* what a head event for the current slot does to the job table: the refreshes selected by the
   rule above, in order, then the fast track of the slot's attestation job; and the roots stored *)
Theorem C03_head_event_effect : forall c st slot pr cr,
  slot = st_cur st ->
  let ep := slot_to_epoch (c_ct c) slot in
  let d := reorg_decide (st_last_epoch st) (st_prev_root st) (st_cur_root st) ep pr cr in
  let ce := cur_epoch c (st_cur st) in
  let t1 := if fst d then refresh_att c (st_cur st) (st_env st) ce (st_jobs st) else st_jobs st in
  let t2 := if snd d then
              refresh_att c (st_cur st) (st_env st) (add64 ce 1)
                (let tp := refresh_prop c (st_cur st) (st_env st) ce t1 in
                 if ce mod c_period c =? 0
                 then refresh_sync c (st_altair st) (st_altair_epoch st) (st_cur st) (st_env st) (add64 ce (c_period c)) tp
                 else tp)
            else t1 in
  let st' := head_event c st slot pr cr in
  (forall n, tget (st_jobs st') n = if c_ft_att c && jname_eqb (JAtt slot) n then None else tget t2 n) /\
  st_last_epoch st' = ep /\ st_prev_root st' = pr /\ st_cur_root st' = cr.
Proof.
  intros c st slot pr cr Hs. cbv zeta. split.
  - intro n. exact (head_event_jobs c st slot pr cr n Hs).
  - exact (head_event_roots c st slot pr cr Hs).
Qed.
Print Assumptions C03_head_event_effect.

Theorem C03_head_event_other_slot_ignored : forall c st slot pr cr,
  slot <> st_cur st -> head_event c st slot pr cr = st.
Proof. exact head_event_other_slot. Qed.
Print Assumptions C03_head_event_other_slot_ignored.

(* A refresh replaces.  Unless the epoch still waits for its preparation job, afterwards the
   attestation jobs of the epoch are exactly those of the duties the node reports NOW (none of the
   old ones survives; the current slot is rescheduled only if its job had not run yet), and no
   other job is touched. *)
Theorem C03_reorg_replaces : forall c cur e ep t n,
  texists t (JPrep ep) = false ->
  0 < first_slot_of_epoch (c_ct c) (add64 ep 1) ->
  let ds := alookup (e_att e) ep in
  let notcur := negb (epoch_has c ep cur && texists t (JAtt cur)) in
  tget (refresh_att c cur e ep t) n =
  match n with
  | JAtt s => if epoch_has c ep s
              then if e_vals e && att_wanted c cur notcur ds ep s then Some (att_job c ds ep s) else None
              else tget t n
  | _ => tget t n
  end.
Proof. exact refresh_att_replaces. Qed.
Print Assumptions C03_reorg_replaces.

Theorem C03_reorg_replaces_proposals : forall c cur e ep t n,
  0 < first_slot_of_epoch (c_ct c) (add64 ep 1) ->
  let ds := alookup (e_prop e) ep in
  tget (refresh_prop c cur e ep t) n =
  match n with
  | JProp s => if epoch_has c ep s
               then if e_vals e && prop_wanted c cur true ds ep s then Some (prop_job c ds ep s) else None
               else tget t n
  | JEarly s => if epoch_has c ep s
                then if e_vals e && prop_wanted c cur true ds ep s && (0 <? c_prop_delay c)%Z then Some (early_job c s) else None
                else tget t n
  | _ => tget t n
  end.
Proof. exact refresh_prop_replaces. Qed.
Print Assumptions C03_reorg_replaces_proposals.

(* the property's sentence in one statement: a head event for the current slot whose previous
   dependent root changed (and only that) replaces the current epoch's attestation jobs by exactly
   those of the duties the node reports now *)
Theorem C03_reorg_replaces_on_head_event : forall c st slot pr cr s,
  slot = st_cur st ->
  let ce := cur_epoch c (st_cur st) in
  let d := reorg_decide (st_last_epoch st) (st_prev_root st) (st_cur_root st) (slot_to_epoch (c_ct c) slot) pr cr in
  fst d = true -> snd d = false ->
  texists (st_jobs st) (JPrep ce) = false ->
  0 < first_slot_of_epoch (c_ct c) (add64 ce 1) ->
  epoch_has c ce s = true ->
  (c_ft_att c = false \/ s <> slot) ->
  let ds := alookup (e_att (st_env st)) ce in
  let notcur := negb (epoch_has c ce (st_cur st) && texists (st_jobs st) (JAtt (st_cur st))) in
  tget (st_jobs (head_event c st slot pr cr)) (JAtt s) =
  if e_vals (st_env st) && att_wanted c (st_cur st) notcur ds ce s then Some (att_job c ds ce s) else None.
Proof. exact head_event_prev_root_replaces. Qed.
Print Assumptions C03_reorg_replaces_on_head_event.

Example C03_reorg_on_head_event_nonvacuous :
  let env1 := {| e_att := [(1, [ {| ad_slot := 6; ad_val := 1; ad_comm := 0; ad_vci := 5 |} ])];
                 e_prop := []; e_sync := []; e_vals := true |} in
  let env2 := {| e_att := [(1, [ {| ad_slot := 7; ad_val := 2; ad_comm := 0; ad_vci := 6 |} ])];
                 e_prop := []; e_sync := []; e_vals := true |} in
  let st := run false wcfg (init_state false 0) [Advance 4; SetEnv env1; Start; Head 4 1 2; SetEnv env2] in
  let d := reorg_decide (st_last_epoch st) (st_prev_root st) (st_cur_root st) (slot_to_epoch (c_ct wcfg) 4) 5 2 in
  fst d = true /\ snd d = false /\ texists (st_jobs st) (JPrep 1) = false /\
  map j_name (st_jobs st) = [JAtt 6] /\
  map (fun j => (j_name j, j_pay j)) (st_jobs (head_event wcfg st 4 5 2)) = [(JAtt 7, [(2, 0, 6)])].
Proof. vm_compute. repeat split; reflexivity. Qed.

(* the guard of the refresh: while "Prepare for epoch ep" is pending nothing is touched *)
Theorem C03_refresh_waits_for_preparation : forall c cur e ep t,
  texists t (JPrep ep) = true -> refresh_att c cur e ep t = t.
Proof. intros c cur e ep t H. unfold refresh_att. rewrite H. reflexivity. Qed.
Print Assumptions C03_refresh_waits_for_preparation.

Example C03_reorg_nonvacuous :
  (* epoch 2 = slots 8..11, clock at 9; old jobs for 9 and 10; the node now reports 9 and 11 *)
  let old := [ {| j_name := JAtt 9; j_time := 0%Z; j_pay := [(7, 0, 0)] |};
               {| j_name := JAtt 10; j_time := 0%Z; j_pay := [(8, 0, 0)] |};
               {| j_name := JAtt 13; j_time := 0%Z; j_pay := [(9, 0, 0)] |} ] in
  let e := {| e_att := [(2, [ {| ad_slot := 9; ad_val := 1; ad_comm := 0; ad_vci := 5 |};
                              {| ad_slot := 11; ad_val := 2; ad_comm := 0; ad_vci := 6 |} ])];
              e_prop := []; e_sync := []; e_vals := true |} in
  map (fun j => (j_name j, j_pay j)) (refresh_att wcfg 9 e 2 old) =
  [ (JAtt 13, [(9, 0, 0)]); (JAtt 9, [(1, 0, 5)]); (JAtt 11, [(2, 0, 6)]) ].
Proof. vm_compute. reflexivity. Qed.

(* =========================================================================================== *)
(* No obtained future duty is left without a job. *)
Theorem C03_no_future_duty_without_job : forall c cur ds ep nc t d,
  In d ds -> in_epoch c ep (ad_slot d) = true -> due cur nc (ad_slot d) = true ->
  exists j, tget (sched_att c cur true ds ep nc t) (JAtt (ad_slot d)) = Some j /\
            (tget t (JAtt (ad_slot d)) = None ->
             j = att_job c ds ep (ad_slot d) /\ In (ad_val d, ad_comm d, ad_vci d) (j_pay j)).
Proof. exact att_duty_has_job. Qed.
Print Assumptions C03_no_future_duty_without_job.

Theorem C03_no_future_proposal_without_job : forall c cur ds ep nc t d,
  In d ds -> in_epoch c ep (pd_slot d) = true -> due cur nc (pd_slot d) = true ->
  exists j, tget (sched_prop c cur true ds ep nc t) (JProp (pd_slot d)) = Some j /\
            (tget t (JProp (pd_slot d)) = None ->
             j = prop_job c ds ep (pd_slot d) /\ In (pd_val d, 0, 0) (j_pay j)).
Proof. exact prop_duty_has_job. Qed.
Print Assumptions C03_no_future_proposal_without_job.

(* after a reorg refresh every later duty slot of the epoch has a job built from the NEW duties *)
Theorem C03_no_future_duty_without_job_after_reorg : forall c cur e ep t d,
  texists t (JPrep ep) = false -> e_vals e = true ->
  0 < first_slot_of_epoch (c_ct c) (add64 ep 1) ->
  In d (alookup (e_att e) ep) -> in_epoch c ep (ad_slot d) = true -> cur < ad_slot d ->
  tget (refresh_att c cur e ep t) (JAtt (ad_slot d)) = Some (att_job c (alookup (e_att e) ep) ep (ad_slot d)) /\
  In (ad_val d, ad_comm d, ad_vci d) (j_pay (att_job c (alookup (e_att e) ep) ep (ad_slot d))).
Proof. exact refresh_att_duty_has_job. Qed.
Print Assumptions C03_no_future_duty_without_job_after_reorg.

(* =========================================================================================== *)
(* No slot is attested for or proposed for twice.

   Full statement: for EVERY history [ops] from a freshly built controller, the slots of the
   Attest calls and of the Propose calls are duplicate-free.  The faithful model refutes it for
   histories in which the epoch ticker or the epoch-preparation job runs a slot / half an epoch
   late after a dependent-root change (the two [_refuted] theorems below: known findings
   C03-late-epoch-tick and C03-late-epoch-preparation).  Proved here for the disciplined histories
   [hist_ok] (Model/C03_Spec.v): the clock moves forward, a job runs at or after the start of its
   slot, the ticker really runs only in the first slot of an epoch after the start-up epoch, the
   preparation of an epoch runs before that epoch begins.  Also: nothing is ever attested or
   proposed for a future slot, and a slot whose job is still pending has not been served. *)
Theorem C03_no_slot_twice_partial : forall shadowed c,
  0 < ct_spe (c_ct c) -> bounded c 0 ->
  forall h ae ops,
    hist_ok shadowed c 0 (init_state h ae) ops ->
    let st := run shadowed c (init_state h ae) ops in
    NoDup (att_slots st) /\ NoDup (prop_slots st) /\
    (forall s, In s (att_slots st) \/ In s (prop_slots st) -> s <= st_cur st) /\
    (forall s, tget (st_jobs st) (JAtt s) <> None -> ~ In s (att_slots st)) /\
    (forall s, tget (st_jobs st) (JProp s) <> None -> ~ In s (prop_slots st)).
Proof. exact no_slot_twice. Qed.
Print Assumptions C03_no_slot_twice_partial.

(* non-vacuity: a disciplined history with a start-up, two reorgs, ticks, the preparation job and
   fired jobs, in which slot 9 is both attested and proposed (once) *)
Example C03_no_slot_twice_nonvacuous :
  hist_ok false wcfg 0 (init_state false 0) w_timely /\
  (let st := run false wcfg (init_state false 0) w_timely in
   att_slots st = [9] /\ prop_slots st = [9]).
Proof. split; [exact w_timely_ok | exact w_timely_once]. Qed.

Theorem C03_no_slot_twice_refuted_late_tick :
  exists c ops, ~ NoDup (prop_slots (run false c (init_state false 0) ops)).
Proof.
  exists wcfg, w_late_tick. unfold prop_slots. rewrite w_late_tick_twice.
  intro H. inversion H as [|? ? Hn _]. apply Hn. left. reflexivity.
Qed.
Print Assumptions C03_no_slot_twice_refuted_late_tick.

Theorem C03_no_slot_twice_refuted_late_prepare :
  exists c ops, ~ NoDup (att_slots (run false c (init_state false 0) ops)).
Proof.
  exists wcfg, w_late_prepare. unfold att_slots. rewrite w_late_prepare_twice.
  intro H. inversion H as [|? ? Hn _]. apply Hn. left. reflexivity.
Qed.
Print Assumptions C03_no_slot_twice_refuted_late_prepare.

(* =========================================================================================== *)
(* MergeDuties.  For every list of duties (any slots, duplicates, inconsistent committee data):
   parallel arrays of equal length and not empty; one merged duty per slot, slots ascending; the
   (validator, committee, position) entries are exactly the reported ones, as often as reported;
   every committee named has a size. *)
Theorem C03_merge_duties_wf : forall ds,
  let out := merge_duties ds in
  Forall wf_m out /\
  StronglySorted N.lt (map md_slot out) /\
  Permutation (flat out) (map entry ds) /\
  (forall m cm, In m out -> In cm (md_comms m) -> clen_lookup (md_clens m) cm <> None).
Proof. exact merge_duties_wf. Qed.
Print Assumptions C03_merge_duties_wf.

Theorem C03_merge_duties_one_per_slot : forall ds, NoDup (map md_slot (merge_duties ds)).
Proof. exact merge_duties_one_per_slot. Qed.
Print Assumptions C03_merge_duties_one_per_slot.

Theorem C03_merge_duties_covers : forall ds slot v cm vci,
  In (slot, (v, cm, vci)) (flat (merge_duties ds)) <->
  exists d, In d ds /\ fd_slot d = slot /\ fd_val d = v /\ fd_comm d = cm /\ fd_vci d = vci.
Proof. exact merge_duties_covers. Qed.
Print Assumptions C03_merge_duties_covers.

Example C03_merge_nonvacuous :
  map (fun m => (md_slot m, md_vals m, md_comms m))
      (merge_duties [ {| fd_slot := 5; fd_val := 3; fd_comm := 1; fd_vci := 0; fd_clen := 10; fd_cas := 4 |};
                      {| fd_slot := 4; fd_val := 9; fd_comm := 0; fd_vci := 2; fd_clen := 11; fd_cas := 4 |};
                      {| fd_slot := 5; fd_val := 1; fd_comm := 0; fd_vci := 7; fd_clen := 12; fd_cas := 4 |} ]) =
  [ (4, [9], [0]); (5, [1; 3], [0; 1]) ].
Proof. vm_compute. reflexivity. Qed.

(* =========================================================================================== *)
(* What the check's predicates mean (Check/C03.v).  P_b is evaluated on the OBSERVED outputs of the
   implementation alone; its MergeDuties and "no slot twice" parts imply the property's relations;
   and whenever [agree] holds for a history run on the real controller, the model's theorem
   transfers to the observed Attest / Propose invocations. *)
Theorem C03_P_merge_sound : forall ds out,
  P_merge ds out = true ->
  Forall merged_ok out /\
  Sorted N.lt (map md_slot out) /\
  (forall d, In d ds -> count_in d ds = count_out d out) /\
  fold_right (fun m acc => Nat.add (length (md_vals m)) acc) 0%nat out = length ds.
Proof. exact P_merge_sound. Qed.
Print Assumptions C03_P_merge_sound.

Theorem C03_P_hist_no_twice_sound : forall c init ops snaps al pl,
  P_hist c init ops snaps al pl true = true -> NoDup (map fst al) /\ NoDup (map fst pl).
Proof. exact P_hist_no_twice. Qed.
Print Assumptions C03_P_hist_no_twice_sound.

Theorem C03_agree_transfers_no_slot_twice : forall c init ops snaps al pl reorg,
  agree_hist c init ops snaps al pl reorg = true ->
  0 < ct_spe (c_ct c) -> bounded c 0 ->
  hist_ok shadowed c 0 (init_of c init) ops ->
  NoDup (map fst al) /\ NoDup (map fst pl).
Proof. exact agree_transfers_no_slot_twice. Qed.
Print Assumptions C03_agree_transfers_no_slot_twice.

(* for a case the harness declares well-formed, [agree] checks the discipline itself (hist_ok_b),
   so agreement with the model alone implies that the real controller served no slot twice *)
Theorem C03_agree_wf_case_no_slot_twice : forall id c init ops snaps al pl reorg,
  agree {| c_id := id; c_body := BHist c init ops snaps al pl reorg true |} = true ->
  NoDup (map fst al) /\ NoDup (map fst pl).
Proof. exact agree_wf_case_no_slot_twice. Qed.
Print Assumptions C03_agree_wf_case_no_slot_twice.
