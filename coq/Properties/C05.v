(* C05 — property theorems only (stub while the pipeline is brought up). *)
From Verif Require Import Lib.Base Model.C05_Proposer Proofs.C05.

Theorem C05_stop_no_submit : forall e evs, o_submit (stop e evs) = None.
Proof. exact stop_no_submit. Qed.
Print Assumptions C05_stop_no_submit.
