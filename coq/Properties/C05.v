(* C05 — a proposal signs only the selected block of the duty slot and submits it intact.
   Property theorems only.  The model is Model/C05_Proposer.v: [prepare] (service.go), [propose] =
   [sign_phase] ; [deliver_phase] (propose.go, with the signer's requests to the account), run on an
   arbitrary environment [env]: every answer of the accounts provider, domain provider, account
   (remote signer), graffiti provider, auctioneer, beacon node, each relay on each attempt (with its
   latency) and submitter, any configuration, any context deadline.  All statements are over ALL
   environments, configurations and duties. *)
From Verif Require Import Lib.Base Model.C05_Proposer Proofs.C05 Check.C05 Proofs.C05_Check Proofs.C05_History.

(* 1. Over a whole run (Prepare if asked, then Propose, whatever Prepare returned): a RANDAO reveal
   is asked only by Prepare, of the account the accounts provider holds for the duty's validator,
   over the epoch of the duty's slot in the RANDAO domain of that epoch; a block signature is asked
   only for the duty's slot and validator index, in the proposer domain of the slot's epoch, of the
   account of the duty (the provider's, or the one the duty already carried); and each at most once. *)
Theorem C05_sign_only_duty_slot :
  forall (c : config) (e : env) (d : duty) (prep : bool),
    (forall a ep dom, In (ESignRandao a ep dom) (run_events c e d prep) ->
       prep = true /\ ep = d_slot d / c_spe c /\ dom = (DOMAIN_RANDAO, d_slot d / c_spe c)
       /\ exists m, e_accounts e = AccOk m /\ length m = 1%nat /\ lookup_account (d_validator d) m = Some a)
    /\ (forall a s p pa st bo dom, In (ESignBlock a s p pa st bo dom) (run_events c e d prep) ->
       s = d_slot d /\ p = d_validator d /\ dom = (DOMAIN_BEACON_PROPOSER, d_slot d / c_spe c)
       /\ duty_account_ok e d a)
    /\ (count_if is_sign_randao (run_events c e d prep) <= 1)%nat
    /\ (count_if is_sign_block (run_events c e d prep) <= 1)%nat.
Proof. exact sign_only_duty_slot. Qed.
Print Assumptions C05_sign_only_duty_slot.

(* 2. Whatever block signature is asked is over the parent, state and body roots of the very block
   the beacon node returned, and that block is a block of the duty's slot. *)
Theorem C05_roots_of_obtained_block :
  forall c e d a s p pa st bo dom,
    In (ESignBlock a s p pa st bo dom) (o_events (propose c e d)) ->
    exists pr h, e_proposal e = POk pr /\ p_block pr = Some h /\ known_version (p_version pr) = true
      /\ h_slot h = d_slot d /\ s = h_slot h
      /\ pa = h_parent h /\ st = h_state h /\ bo = h_body h.
Proof. exact roots_of_obtained_block. Qed.
Print Assumptions C05_roots_of_obtained_block.

(* 3. A block that is not blinded: what is submitted is exactly the obtained block (same version,
   same container, the deneb blobs with it) with the signature the account gave for the one
   signature request of the run; at once, and no relay is asked anything. *)
Theorem C05_submit_is_signed_block :
  forall c e d pr t sp,
    e_proposal e = POk pr -> p_blinded pr = false ->
    o_submit (propose c e d) = Some (t, sp) ->
    exists acct h sig code,
      d_account d = Some acct /\ p_block pr = Some h /\ h_slot h = d_slot d
      /\ e_sig_block e = Some sig /\ signed_container (p_version pr) false = Some code
      /\ sp = signed_proposal pr h sig code
      /\ In (sign_block_event c d acct h) (o_events (propose c e d))
      /\ t = 0 /\ all_nil (o_unblind (propose c e d)).
Proof. exact submit_is_signed_block. Qed.
Print Assumptions C05_submit_is_signed_block.

(* 4. A blinded block: what is submitted is the full block that some relay returned, before the
   deadline, in answer to a call that was really made to it and that carried precisely the signed
   blinded block (the obtained block with the account's signature). *)
Theorem C05_blinded_submit_from_relay_given_signed_block :
  forall c e d pr t sp,
    e_proposal e = POk pr -> p_blinded pr = true ->
    o_submit (propose c e d) = Some (t, sp) ->
    exists acct h sig code fc i rl calls k st,
      d_account d = Some acct /\ p_block pr = Some h /\ h_slot h = d_slot d
      /\ e_sig_block e = Some sig /\ signed_container (p_version pr) true = Some code
      /\ In (sign_block_event c d acct h) (o_events (propose c e d))
      /\ let req := unblind_request (signed_proposal pr h sig code) in
         let answer := snd (script_nth (r_script rl) k) in
         nth_error (e_relays e) i = Some rl
         /\ nth_error (o_unblind (propose c e d)) i = Some calls
         /\ nth_error calls k = Some (st, req)
         /\ is_ok answer = true
         /\ t = st + fst (script_nth (r_script rl) k) /\ t < e_deadline e
         /\ full_container (p_version pr) = Some fc
         /\ sp = {| sp_version := p_version pr; sp_blinded := false;
                    sp_conts := match response req answer with Some b => [(fc, b)] | None => [] end |}.
Proof. exact blinded_submit_from_relay. Qed.
Print Assumptions C05_blinded_submit_from_relay_given_signed_block.

(* 4b. Every request to a relay, answered or not, whenever it is made -- also a retry made after
   another relay's block has been taken -- carries precisely the signed blinded block of the duty's
   slot (the requests are built before the relay goroutines start; before that repair a retry made
   after the first delivery carried the version and no block).  Every
   request goes to a relay that can unblind and that returned the winning bid (or any relay of the
   auction when configured so or when nobody won), at most three times per relay. *)
Theorem C05_relays_sent_signed_blinded_block :
  forall c e d i calls k st rq,
    nth_error (o_unblind (propose c e d)) i = Some calls ->
    nth_error calls k = Some (st, rq) ->
    exists acct pr h sig code w a rl,
      d_account d = Some acct /\ e_proposal e = POk pr /\ p_blinded pr = true
      /\ p_block pr = Some h /\ h_slot h = d_slot d /\ e_sig_block e = Some sig
      /\ signed_container (p_version pr) true = Some code
      /\ rq = unblind_request (signed_proposal pr h sig code)
      /\ In (sign_block_event c d acct h) (o_events (propose c e d))
      /\ e_auction e = AOk w a /\ In i (candidates c w a)
      /\ nth_error (e_relays e) i = Some rl /\ r_can rl = true
      /\ (length calls <= 3)%nat.
Proof. exact unblind_requests. Qed.
Print Assumptions C05_relays_sent_signed_blinded_block.

(* 4c. The first full block wins: what is submitted for a blinded block is submitted at the instant
   of the earliest full-block answer any of the relays asked would give within its three tries. *)
Theorem C05_first_full_block_wins :
  forall c e d pr t sp w a i rl k cl,
    e_proposal e = POk pr -> p_blinded pr = true ->
    o_submit (propose c e d) = Some (t, sp) ->
    e_auction e = AOk w a -> In i (candidates c w a) ->
    nth_error (e_relays e) i = Some rl -> r_can rl = true ->
    nth_error (free_calls (e_deadline e) relay_tries 0 (r_script rl)) k = Some cl ->
    is_ok (k_out cl) = true ->
    t <= k_finish cl.
Proof. exact first_full_block_wins. Qed.
Print Assumptions C05_first_full_block_wins.

(* 4d. ... and it is not held back by the other relays: EVERY call that is made and that is answered
   with a full block before the deadline has something submitted no later than the instant it returns
   -- whatever the other relays are doing then (still inside their call, hanging until the context
   ends, failing, slow to give up).  With 4 and 4c: the block submitted is the earliest full block any
   relay hands back, at the instant it is back. *)
Theorem C05_full_block_in_time_is_submitted :
  forall c e d pr i rl calls k st rq fc,
    e_proposal e = POk pr -> full_container (p_version pr) = Some fc ->
    nth_error (e_relays e) i = Some rl ->
    nth_error (o_unblind (propose c e d)) i = Some calls ->
    nth_error calls k = Some (st, rq) ->
    is_ok (snd (script_nth (r_script rl) k)) = true ->
    st + fst (script_nth (r_script rl) k) < e_deadline e ->
    exists t sp, o_submit (propose c e d) = Some (t, sp) /\ t <= st + fst (script_nth (r_script rl) k).
Proof. exact full_block_in_time_submitted. Qed.
Print Assumptions C05_full_block_in_time_is_submitted.

(* 5. Nothing is submitted if no relay returns a full block: neither when no relay would ever
   answer with one, nor when none of the calls actually made is answered with one before the
   deadline. *)
Theorem C05_no_relay_no_submit :
  forall c e d pr,
    e_proposal e = POk pr -> p_blinded pr = true ->
    (forall i rl k, nth_error (e_relays e) i = Some rl -> (k < 3)%nat -> r_can rl = true ->
                    is_ok (snd (script_nth (r_script rl) k)) = false) ->
    o_submit (propose c e d) = None.
Proof. exact no_relay_no_submit. Qed.
Print Assumptions C05_no_relay_no_submit.

Theorem C05_no_answer_in_time_no_submit :
  forall c e d pr,
    e_proposal e = POk pr -> p_blinded pr = true ->
    (forall i rl calls k st rq,
       nth_error (e_relays e) i = Some rl -> nth_error (o_unblind (propose c e d)) i = Some calls ->
       nth_error calls k = Some (st, rq) ->
       is_ok (snd (script_nth (r_script rl) k)) = false \/ e_deadline e <= st + fst (script_nth (r_script rl) k)) ->
    o_submit (propose c e d) = None.
Proof. exact no_answer_no_submit. Qed.
Print Assumptions C05_no_answer_in_time_no_submit.

(* 6. Failure to obtain graffiti or relay bids does not skip the proposal: a complete duty always
   gets its request to the beacon node, for the duty's slot, with the duty's RANDAO reveal, with the
   graffiti obtained or zero graffiti; a good block that is not blinded is signed and submitted
   whatever graffiti lookup and auction did; and what is submitted for it does not depend on them. *)
Theorem C05_degrades_not_skips :
  forall c e d acct,
    d_randao d <> 0 -> d_account d = Some acct ->
    In (EProposal (d_slot d) (d_randao d) (graffiti_value e) (c_boost c)) (o_events (propose c e d))
    /\ (e_graffiti e = GErr -> graffiti_value e = 0)
    /\ (forall pr h sig, signable e d pr h -> p_blinded pr = false -> e_dom_block e = true -> e_sig_block e = Some sig ->
          exists code, signed_container (p_version pr) false = Some code
                       /\ o_submit (propose c e d) = Some (0, signed_proposal pr h sig code))
    /\ (forall pr g a, e_proposal e = POk pr -> p_blinded pr = false ->
          o_submit (propose c (with_graffiti_auction e g a) d) = o_submit (propose c e d)).
Proof. exact degrades_not_skips. Qed.
Print Assumptions C05_degrades_not_skips.

(* 7. A proposal for another slot (or one whose slot cannot be read) is refused: nothing is signed,
   no relay is asked, nothing is submitted. *)
Theorem C05_other_slot_refused_unsigned :
  forall c e d pr,
    e_proposal e = POk pr -> proposal_slot pr <> Some (d_slot d) ->
    (forall ev, In ev (o_events (propose c e d)) -> is_sign_block ev = false)
    /\ all_nil (o_unblind (propose c e d))
    /\ o_submit (propose c e d) = None /\ o_ret (propose c e d) = 0.
Proof. exact other_slot_refused_unsigned. Qed.
Print Assumptions C05_other_slot_refused_unsigned.

(* 8. A duty without RANDAO reveal or without account asks nothing of anybody; in particular a duty
   whose Prepare failed. *)
Theorem C05_unready_duty_silent :
  forall c e d, d_randao d = 0 \/ d_account d = None -> propose c e d = stop e [].
Proof. exact unready_duty_silent. Qed.
Print Assumptions C05_unready_duty_silent.

Theorem C05_failed_prepare_silent :
  forall c e d, d_account d = None -> d_randao d = 0 -> snd (prepare c e d) = false ->
    propose c e (fst (fst (prepare c e d))) = stop e [].
Proof. exact failed_prepare_silent. Qed.
Print Assumptions C05_failed_prepare_silent.

(* 9. A successful Prepare asked for the accounts of exactly the duty's validator in the epoch of
   the duty's slot, and left the duty with that validator's account and its RANDAO signature. *)
Theorem C05_prepare_for_duty_validator :
  forall c e d, snd (prepare c e d) = true ->
    exists m a s, e_accounts e = AccOk m /\ length m = 1%nat /\ lookup_account (d_validator d) m = Some a
      /\ e_dom_randao e = true /\ e_sig_randao e = Some s
      /\ fst (fst (prepare c e d)) = {| d_slot := d_slot d; d_validator := d_validator d; d_account := Some a; d_randao := s |}
      /\ snd (fst (prepare c e d)) = [EAccounts (d_slot d / c_spe c) [d_validator d]; EDomain DOMAIN_RANDAO (d_slot d / c_spe c);
                                      ESignRandao a (d_slot d / c_spe c) (DOMAIN_RANDAO, d_slot d / c_spe c)].
Proof. exact prepare_ok. Qed.
Print Assumptions C05_prepare_for_duty_validator.

(* 10. Propose never crashes, whatever the environment answers (in particular a blinded proposal
   without auction results is an error, not a nil dereference). *)
Theorem C05_propose_never_panics : forall c e d, o_panic (propose c e d) = false.
Proof. exact propose_no_panic. Qed.
Print Assumptions C05_propose_never_panics.

(* 10b. Propose returns no later than the deadline of the context it was given (and when every relay
   asked has given up, as soon as the last one has). *)
Theorem C05_returns_by_deadline : forall c e d, o_ret (propose c e d) <= e_deadline e.
Proof. exact returns_by_deadline. Qed.
Print Assumptions C05_returns_by_deadline.

(* ------------------------------------------------------------------------------------------- *)
(* The correspondence check (Check/C05.v) *)

(* 11. The boolean property the check evaluates on the implementation's observed behaviour is true of
   the model's own behaviour on EVERY input (any configuration, environment, latencies of the
   providers, duty; no hypothesis): P_b -- its clauses on what is asked, signed and submitted, evaluated
   on the answers the providers give under the one deadline, and its clauses on time -- is a theorem
   of the model.  Hence a case on which P_b is false is a case on which the implementation differs
   from the model, and P_b never raises an alarm on a tree that does what the model does. *)
Theorem C05_model_satisfies_P_b :
  forall id cf e l d prep, P_b (model_case_t id cf e l d prep) = true.
Proof. exact model_satisfies_P_b. Qed.
Print Assumptions C05_model_satisfies_P_b.

(* 12. On a case where nothing is left to Go's scheduler (no answer due at the instant the context
   ends, no two relay goroutines acting at one instant), [agree] is true exactly when everything
   observed (every request of Prepare and of Propose with its arguments, Prepare's result, the duty
   handed to Propose, the instant of every request of Propose and whether its context was alive, every
   relay call with its time and content, the submission with its time and whether it was cut short,
   the instant Propose returns) equals what the model does. *)
Theorem C05_agree_decides_equality_with_model :
  forall c,
    case_tie_free c = true ->
    (agree c = true <->
     fst (run (c_cfg c) (c_env c) (c_duty c) (c_prepare c)) = (c_prep_events c, c_prep_ok c)
     /\ d_account (duty_after (c_cfg c) (c_env c) (c_duty c) (c_prepare c)) = c_post_account c
     /\ d_randao (duty_after (c_cfg c) (c_env c) (c_duty c) (c_prepare c)) = c_post_randao c
     /\ t_res (case_model c) = c_obs c /\ t_times (case_model c) = c_times c /\ t_live (case_model c) = c_live c
     /\ t_t0 (case_model c) = c_t0 c /\ t_ret (case_model c) = c_ret c /\ t_sub_cut (case_model c) = c_sub_cut c).
Proof. exact agree_sound. Qed.
Print Assumptions C05_agree_decides_equality_with_model.

(* 12b. Time.  Every provider takes its time and gives up with the context's error when the context
   ends first ([propose_t]: Propose hands the ONE context it was given to every step).  For every
   configuration, environment, latencies and complete duty: whatever is cut short, the beacon node is
   asked for a block of the duty's slot with the duty's RANDAO reveal, with the graffiti obtained -- or
   zero graffiti when the graffiti provider's answer was cut; and when the scripted time line up to
   the signature fits into the context, NO answer is cut and a good block that is not blinded is
   signed and submitted the moment the signature is there -- however long the graffiti provider and
   the auctioneer took and whatever they answered.  A slow graffiti lookup or auction degrades; it
   takes nothing but its own time from the steps that follow. *)
Theorem C05_slow_steps_degrade_not_skip :
  forall c e l d acct,
    d_randao d <> 0 -> d_account d = Some acct ->
    let m := propose_t c e l d in
    (exists g, In (EProposal (d_slot d) (d_randao d) g (c_boost c)) (o_events (t_res m))
               /\ (g = graffiti_value e \/ (x_graffiti (t_cuts m) = true /\ g = 0)))
    /\ (budget e l < e_deadline e ->
        t_cuts m = no_cuts
        /\ In (EProposal (d_slot d) (d_randao d) (graffiti_value e) (c_boost c)) (o_events (t_res m))
        /\ forall pr h sig, signable e d pr h -> p_blinded pr = false -> e_dom_block e = true -> e_sig_block e = Some sig ->
             exists code, signed_container (p_version pr) false = Some code
                          /\ o_submit (t_res m) = Some (0, signed_proposal pr h sig code)).
Proof. exact slow_steps_degrade. Qed.
Print Assumptions C05_slow_steps_degrade_not_skip.

(* 12c. ... and what the timed model does IS [propose] on the answers as they are given under the one
   deadline, so theorems 1-10 hold of it. *)
Theorem C05_timed_is_propose_on_given_answers :
  forall c e l d,
    t_res (propose_t c e l d)
    = propose c (apply_cuts e (cuts_of e l) (e_deadline e - t_t0 (propose_t c e l d))) d
    /\ t_cuts (propose_t c e l d) = cuts_of e l
    /\ t_live (propose_t c e l d) = map (fun t => t <? e_deadline e) (t_times (propose_t c e l d)).
Proof. intros c e l d. destruct (propose_t_parts c e l d) as (H1 & H2 & _ & H4 & _). auto. Qed.
Print Assumptions C05_timed_is_propose_on_given_answers.

(* 13. P_b is sound for the property's clauses on the OBSERVED behaviour (no model involved).  [actual c]
   is the case with the answers the providers were SEEN to give: a scripted answer that the provider
   cut short with the context's error is that error, every other answer is the scripted one
   ([C05_actual_answers]). *)
Theorem C05_actual_answers :
  forall c,
    let e := c_env c in let a := c_env (actual c) in
    (forall p, e_proposal a = POk p -> e_proposal e = POk p)
    /\ (forall s, e_sig_block a = Some s -> e_sig_block e = Some s)
    /\ (e_dom_block a = true -> e_dom_block e = true)
    /\ (forall w al, e_auction a = AOk w al -> e_auction e = AOk w al)
    /\ (forall g, e_graffiti a = GOk g -> e_graffiti e = GOk g)
    /\ e_accounts a = e_accounts e /\ e_sig_randao a = e_sig_randao e /\ e_relays a = e_relays e.
Proof. exact actual_answers. Qed.
Print Assumptions C05_actual_answers.

(* 13b. P_b on time: every request seen before the deadline came with a live context; in budget, the
   beacon node, the domain provider and the account were not cut short; nor was the submitter while
   the context had time left. *)
Theorem C05_P_b_sound_time :
  forall c,
    P_b c = true ->
    (forall k t, nth_error (c_times c) k = Some t -> t < e_deadline (c_env c) -> nth_error (c_live c) k = Some true)
    /\ (budget (c_env c) (c_lat c) < e_deadline (c_env c) ->
        x_proposal (c_cut c) = false /\ x_domain (c_cut c) = false /\ x_sign (c_cut c) = false)
    /\ (forall s sp, o_submit (c_obs c) = Some (s, sp) -> s + c_t0 c + l_submit (c_lat c) < e_deadline (c_env c) ->
        c_sub_cut c = false).
Proof. exact P_b_sound_time. Qed.
Print Assumptions C05_P_b_sound_time.

Theorem C05_P_b_sound_sign_block :
  forall c a s p pa st bo dom,
    P_b c = true -> In (ESignBlock a s p pa st bo dom) (o_events (c_obs c)) ->
    duty_account c = Some a /\ s = d_slot (c_duty c) /\ p = d_validator (c_duty c)
    /\ dom = (DOMAIN_BEACON_PROPOSER, d_slot (c_duty c) / c_spe (c_cfg c))
    /\ exists pr h, e_proposal (c_env (actual c)) = POk pr /\ p_block pr = Some h /\ h_slot h = d_slot (c_duty c)
         /\ pa = h_parent h /\ st = h_state h /\ bo = h_body h.
Proof. intros c a s p pa st bo dom H Hin. exact (P_core_sound_sign_block (actual c) a s p pa st bo dom (P_b_core c H) Hin). Qed.
Print Assumptions C05_P_b_sound_sign_block.

Theorem C05_P_b_sound_sign_randao :
  forall c a ep dom,
    P_b c = true -> In (ESignRandao a ep dom) (c_prep_events c) ->
    provided_account c = Some a /\ ep = d_slot (c_duty c) / c_spe (c_cfg c)
    /\ dom = (DOMAIN_RANDAO, d_slot (c_duty c) / c_spe (c_cfg c)).
Proof. intros c a ep dom H Hin. exact (P_core_sound_sign_randao (actual c) a ep dom (P_b_core c H) Hin). Qed.
Print Assumptions C05_P_b_sound_sign_randao.

Theorem C05_P_b_sound_submit_local :
  forall c t sp,
    P_b c = true -> proposal_blinded (actual c) = false -> o_submit (c_obs c) = Some (t, sp) ->
    exists pr h sig code,
      e_proposal (c_env (actual c)) = POk pr /\ p_block pr = Some h /\ e_sig_block (c_env (actual c)) = Some sig
      /\ signed_container (p_version pr) (p_blinded pr) = Some code
      /\ sp = signed_proposal pr h sig code
      /\ concat (o_unblind (c_obs c)) = [].
Proof. intros c t sp H Hb Hs. exact (P_core_sound_submit_local (actual c) t sp (P_b_core c H) Hb Hs). Qed.
Print Assumptions C05_P_b_sound_submit_local.

Theorem C05_P_b_sound_submit_blinded :
  forall c t sp,
    P_b c = true -> proposal_blinded (actual c) = true -> o_submit (c_obs c) = Some (t, sp) ->
    exists signed fc b,
      expected_signed (actual c) = Some signed /\ full_container (sp_version signed) = Some fc
      /\ sp = {| sp_version := sp_version signed; sp_blinded := false; sp_conts := [(fc, b)] |}
      /\ delivered_by (actual c) t b = true.
Proof. intros c t sp H Hb Hs. exact (P_core_sound_submit_blinded (actual c) t sp (P_b_core c H) Hb Hs). Qed.
Print Assumptions C05_P_b_sound_submit_blinded.

Theorem C05_P_b_sound_no_relay_no_submit :
  forall c, P_b c = true -> proposal_blinded (actual c) = true -> some_call_answered (actual c) = false ->
    o_submit (c_obs c) = None.
Proof. intros c H Hb Hs. exact (P_core_sound_no_relay_no_submit (actual c) (P_b_core c H) Hb Hs). Qed.
Print Assumptions C05_P_b_sound_no_relay_no_submit.

(* 13c. P_b on a full block that came back: a call that was SEEN made, whose scripted answer is a full
   block handed back before the end of the context, has something seen submitted no later than that
   instant -- also when another relay's call returns without a block at that very instant (a relay
   that has a block always hands it over).  With [C05_P_b_sound_submit_blinded] (what was submitted had been delivered by
   then): the earliest full block returned is submitted the moment it is back, not when the other
   relays have answered or given up. *)
Theorem C05_P_b_sound_first_block_submitted :
  forall c p fc i calls k st rq r,
    P_b c = true ->
    e_proposal (c_env (actual c)) = POk p -> p_blinded p = true -> full_container (p_version p) = Some fc ->
    nth_error (o_unblind (c_obs c)) i = Some calls -> nth_error calls k = Some (st, rq) ->
    nth_error (e_relays (c_env c)) i = Some r -> is_ok (scripted r k) = true ->
    st + scripted_lat r k < e_deadline (c_env c) - c_t0 c ->
    exists t sp, o_submit (c_obs c) = Some (t, sp) /\ t <= st + scripted_lat r k.
Proof.
  intros c p fc i calls k st rq r H Hp Hbl Hfc Hc Hk Hr Hok Hlt.
  exact (P_core_sound_first_block (actual c) p fc i calls k st rq r (P_b_core c H) Hp Hbl Hfc Hc Hk Hr Hok Hlt).
Qed.
Print Assumptions C05_P_b_sound_first_block_submitted.

Theorem C05_P_b_sound_prepared_duty_own :
  forall c, P_b c = true -> c_prepare c = true -> c_prep_ok c = true ->
    exists a, c_post_account c = Some a /\ provided_account c = Some a
              /\ e_sig_randao (c_env c) = Some (c_post_randao c).
Proof. intros c H Hp Hok. exact (P_core_sound_prepared_duty_own (actual c) (P_b_core c H) Hp Hok). Qed.
Print Assumptions C05_P_b_sound_prepared_duty_own.

(* 14. Histories: one service instance handles any number of duties, the Prepare and Propose calls in
   ANY order ([history]: each duty has its own object and the answers the environment gives while it
   is handled).  Whatever was done for other duties before or in between:
   (a) the k-th call, a call for duty i, asks and produces exactly what that call does on duty i's
       own object prepared as often as duty i was prepared before -- nothing of another duty enters; *)
Theorem C05_history_call_local :
  forall (c : config) (ops : list op) (ds : list dstate) (k : nat) (o : op) (s : dstate),
    nth_error ops k = Some o ->
    nth_error ds (op_duty o) = Some s ->
    nth_error (history c ds ops) k
    = Some (call_alone c s (prepares_of (op_duty o) (firstn k ops)) o).
Proof. exact history_call_local. Qed.
Print Assumptions C05_history_call_local.

(* (b) every Prepare call of a history asks for a RANDAO reveal only of the account held for ITS OWN
       duty's validator, over the epoch of ITS OWN duty's slot (and for no block signature); *)
Theorem C05_history_prepare_own_duty :
  forall (c : config) (ops : list op) (ds : list dstate) (k i : nat) (s : dstate),
    nth_error ops k = Some (OPrepare i) ->
    nth_error ds i = Some s ->
    exists evs ok,
      nth_error (history c ds ops) k = Some (OutPrepare i evs ok)
      /\ forall ev, In ev evs ->
           is_sign_block ev = false
           /\ (is_sign_randao ev = true ->
               exists m a, e_accounts (s_env s) = AccOk m /\ length m = 1%nat
                           /\ lookup_account (d_validator (s_duty s)) m = Some a
                           /\ ev = ESignRandao a (d_slot (s_duty s) / c_spe c)
                                               (DOMAIN_RANDAO, d_slot (s_duty s) / c_spe c)).
Proof. exact history_prepare_own_duty. Qed.
Print Assumptions C05_history_prepare_own_duty.

(* (c) every Propose call of a history asks for no RANDAO reveal, and for a block signature only for
       ITS OWN duty's slot and validator, over the roots of the block the beacon node returned for it,
       which is a block of that slot; *)
Theorem C05_history_propose_own_duty :
  forall (c : config) (ops : list op) (ds : list dstate) (k i : nat) (s : dstate),
    nth_error ops k = Some (OPropose i) ->
    nth_error ds i = Some s ->
    exists r,
      nth_error (history c ds ops) k = Some (OutPropose i r)
      /\ forall ev, In ev (o_events r) ->
           is_sign_randao ev = false
           /\ (is_sign_block ev = true ->
               exists acct p h,
                 e_proposal (s_env s) = POk p /\ p_block p = Some h /\ h_slot h = d_slot (s_duty s)
                 /\ ev = ESignBlock acct (d_slot (s_duty s)) (d_validator (s_duty s))
                                    (h_parent h) (h_state h) (h_body h)
                                    (DOMAIN_BEACON_PROPOSER, d_slot (s_duty s) / c_spe c)).
Proof. exact history_propose_own_duty. Qed.
Print Assumptions C05_history_propose_own_duty.

(* (d) in the orders the controller produces (a duty is prepared once -- or was filled in by hand --
       before it is proposed) the Propose call gives exactly the result of that duty run alone, so
       theorems 1-11 hold of every duty of every history. *)
Theorem C05_history_propose_as_alone :
  forall (c : config) (ops : list op) (ds : list dstate) (k i : nat) (s : dstate),
    nth_error ops k = Some (OPropose i) ->
    nth_error ds i = Some s ->
    forall prep : bool,
    prepares_of i (firstn k ops) = (if prep then 1%nat else 0%nat) ->
    nth_error (history c ds ops) k = Some (OutPropose i (snd (run c (s_env s) (s_duty s) prep))).
Proof. exact history_propose_as_alone. Qed.
Print Assumptions C05_history_propose_as_alone.

(* ------------------------------------------------------------------------------------------- *)
(* Non-vacuity: concrete environments in which the hypotheses hold and the interesting branch runs *)

Definition ex_hdr : hdr := {| h_slot := 100; h_proposer := 7; h_parent := 11; h_state := 12; h_body := 13 |}.
Definition ex_cfg : config := {| c_unblind_all := false; c_boost := 90; c_spe := 32 |}.
Definition ex_duty : duty := {| d_slot := 100; d_validator := 7; d_account := None; d_randao := 0 |}.

Definition ex_env (p : proposal) (a : aout) (g : gout) (rs : list relay) : env :=
  {| e_accounts := AccOk [(7, Some 3)]; e_dom_randao := true; e_sig_randao := Some 55;
     e_graffiti := g; e_head := 9; e_auction := a; e_proposal := POk p;
     e_dom_block := true; e_sig_block := Some 66; e_relays := rs; e_submit_ok := true; e_deadline := 4000 |}.

Definition ex_local : proposal :=
  {| p_version := VDeneb; p_blinded := false; p_block := Some ex_hdr; p_body_present := true; p_blobs := 5 |}.
Definition ex_blinded : proposal :=
  {| p_version := VCapella; p_blinded := true; p_block := Some ex_hdr; p_body_present := true; p_blobs := 0 |}.

(* a local deneb block, graffiti and auction both failing: signed for slot 100 / validator 7 over
   roots 11, 12, 13 and submitted with that signature and its blobs *)
Example C05_example_local :
  let r := snd (run ex_cfg (ex_env ex_local AErr GErr []) ex_duty true) in
  o_events r = [EGraffiti 100 7; EAuction 100 9 3; EProposal 100 55 0 90; EDomain DOMAIN_BEACON_PROPOSER 3;
                ESignBlock 3 100 7 11 12 13 (DOMAIN_BEACON_PROPOSER, 3)]
  /\ o_submit r = Some (0, {| sp_version := VDeneb; sp_blinded := false;
                              sp_conts := [(CDeneb, {| sb_hdr := Some ex_hdr; sb_sig := 66; sb_blobs := 5 |})] |}).
Proof. vm_compute. split; reflexivity. Qed.

(* a blinded capella block, two relays: relay 0 fails twice then would answer at 1400 ms, relay 1
   answers at 700 ms with the full block: relay 0 is asked twice (0 ms, 550 ms), relay 1 once, the
   block of relay 1 is submitted at 700 ms *)
Definition ex_relays : list relay :=
  [ {| r_can := true; r_script := [(300, UErr); (400, UErr); (200, UEcho 0)] |};
    {| r_can := true; r_script := [(700, UEcho 0)] |} ].

Example C05_example_blinded :
  let r := snd (run ex_cfg (ex_env ex_blinded (AOk [0%nat; 1%nat] [0%nat; 1%nat]) (GOk 8) ex_relays) ex_duty true) in
  let req := {| u_version := VCapella; u_conts := [(CCapellaBlinded, {| sb_hdr := Some ex_hdr; sb_sig := 66; sb_blobs := 0 |})] |} in
  o_unblind r = [[(0, req); (550, req)]; [(0, req)]]
  /\ o_submit r = Some (700, {| sp_version := VCapella; sp_blinded := false;
                                sp_conts := [(CCapella, {| sb_hdr := Some ex_hdr; sb_sig := 66; sb_blobs := 0 |})] |})
  /\ o_ret r = 700.
Proof. vm_compute. repeat split; reflexivity. Qed.

(* every relay fails: four calls, nothing submitted, Propose returns when the last relay goroutine
   has given up (relay 0: third failure at 1400 ms, plus the 250 ms it sleeps before finding no try left) *)
Example C05_example_all_relays_fail :
  let rs := [ {| r_can := true; r_script := [(300, UErr); (400, UErr); (200, UErr)] |};
              {| r_can := true; r_script := [(100, U400)] |} ] in
  let r := snd (run ex_cfg (ex_env ex_blinded (AOk [] [0%nat; 1%nat]) GNone rs) ex_duty true) in
  map (@length _) (o_unblind r) = [3%nat; 1%nat] /\ o_submit r = None /\ o_ret r = 1650.
Proof. vm_compute. repeat split; reflexivity. Qed.

(* a blinded capella block, two relays: relay 0 never answers (it hangs until the context ends), relay 1
   hands back the full block at 300 ms: it is submitted at 300 ms, Propose does not wait for relay 0 *)
Example C05_example_first_block_not_held_back :
  let rs := [ {| r_can := true; r_script := [(0, UHang); (0, UHang); (0, UHang)] |};
              {| r_can := true; r_script := [(300, UEcho 0)] |} ] in
  let r := snd (run ex_cfg (ex_env ex_blinded (AOk [0%nat; 1%nat] [0%nat; 1%nat]) GNone rs) ex_duty true) in
  map (@length _) (o_unblind r) = [1%nat; 1%nat]
  /\ o_submit r = Some (300, {| sp_version := VCapella; sp_blinded := false;
                                sp_conts := [(CCapella, {| sb_hdr := Some ex_hdr; sb_sig := 66; sb_blobs := 0 |})] |})
  /\ o_ret r = 300.
Proof. vm_compute. repeat split; reflexivity. Qed.

(* a block for slot 101 on a duty for slot 100: asked for, then nothing *)
Example C05_example_other_slot :
  let p := {| p_version := VAltair; p_blinded := false;
              p_block := Some {| h_slot := 101; h_proposer := 7; h_parent := 11; h_state := 12; h_body := 13 |};
              p_body_present := true; p_blobs := 0 |} in
  let r := snd (run ex_cfg (ex_env p ANone GNone []) ex_duty true) in
  o_events r = [EProposal 100 55 0 90] /\ o_submit r = None.
Proof. vm_compute. split; reflexivity. Qed.

(* a blinded block and a failed auction: signed, then an error (no crash), nothing submitted *)
Example C05_example_blinded_failed_auction :
  let r := snd (run ex_cfg (ex_env ex_blinded AErr GNone ex_relays) ex_duty true) in
  o_panic r = false /\ o_submit r = None /\ o_unblind r = [[]; []].
Proof. vm_compute. repeat split; reflexivity. Qed.

(* two duties of one epoch (slots 100 and 101 of epoch 3) for two validators (7: account 3, reveal 55;
   9: account 4, reveal 77) on one service, both prepared before either is proposed: each Prepare
   asks its own account, each proposal request carries its own reveal *)
Example C05_example_history :
  let e2 := {| e_accounts := AccOk [(9, Some 4)]; e_dom_randao := true; e_sig_randao := Some 77;
               e_graffiti := GNone; e_head := 9; e_auction := ANone; e_proposal := PErr;
               e_dom_block := true; e_sig_block := Some 67; e_relays := []; e_submit_ok := true; e_deadline := 4000 |} in
  let ds := [ {| s_env := ex_env ex_local ANone GNone []; s_duty := ex_duty |};
              {| s_env := e2; s_duty := {| d_slot := 101; d_validator := 9; d_account := None; d_randao := 0 |} |} ] in
  match history ex_cfg ds [OPrepare 0; OPrepare 1; OPropose 1; OPropose 0] with
  | [OutPrepare 0 ev0 true; OutPrepare 1 ev1 true; OutPropose 1 r1; OutPropose 0 r0] =>
      In (ESignRandao 3 3 (DOMAIN_RANDAO, 3)) ev0 /\ In (ESignRandao 4 3 (DOMAIN_RANDAO, 3)) ev1
      /\ o_events r1 = [EProposal 101 77 0 90]
      /\ In (EProposal 100 55 0 90) (o_events r0)
  | _ => False
  end.
Proof. vm_compute. intuition. Qed.

(* time: the graffiti provider answers after 3 s of a 4 s context, the beacon node needs 200 ms, the
   account 100 ms, the submitter 500 ms: nothing is cut, the requests are made at 0 / 3000 / 3000 /
   3200 / 3200 ms with a live context, the block carries the graffiti, is handed to the submitter when
   the signature is there (3300 ms) and Propose returns at 3800 ms *)
Example C05_example_slow_graffiti :
  let l := {| l_graffiti := 3000; l_auction := 0; l_proposal := 200; l_domain := 0; l_sign := 100; l_submit := 500 |} in
  let e := ex_env ex_local AErr (GOk 8) [] in
  let d := duty_after ex_cfg e ex_duty true in
  let m := propose_t ex_cfg e l d in
  budget e l < e_deadline e
  /\ t_cuts m = no_cuts
  /\ o_events (t_res m) = [EGraffiti 100 7; EAuction 100 9 3; EProposal 100 55 8 90; EDomain DOMAIN_BEACON_PROPOSER 3;
                           ESignBlock 3 100 7 11 12 13 (DOMAIN_BEACON_PROPOSER, 3)]
  /\ t_times m = [0; 3000; 3000; 3200; 3200] /\ t_live m = [true; true; true; true; true]
  /\ t_t0 m = 3300 /\ t_ret m = 3800 /\ t_sub_cut m = false
  /\ o_submit (t_res m) = Some (0, {| sp_version := VDeneb; sp_blinded := false;
                                      sp_conts := [(CDeneb, {| sb_hdr := Some ex_hdr; sb_sig := 66; sb_blobs := 5 |})] |}).
Proof. vm_compute. repeat split; reflexivity. Qed.

(* time: a graffiti provider that never answers holds Propose until its context ends (the code gives
   the lookup no deadline of its own); the beacon node is then asked with a context that is over, and
   nothing is signed.  A provider that fails after 3 s costs 3 s: the beacon node is asked for an
   ungraffitied block with 1 s left, and the block is submitted. *)
Example C05_example_hanging_and_failing_graffiti :
  let e g := ex_env ex_local ANone g [] in
  let d := duty_after ex_cfg (e GErr) ex_duty true in
  let hang := propose_t ex_cfg (e (GOk 8))
                {| l_graffiti := 10000000; l_auction := 0; l_proposal := 0; l_domain := 0; l_sign := 0; l_submit := 0 |} d in
  let fail := propose_t ex_cfg (e GErr)
                {| l_graffiti := 3000; l_auction := 0; l_proposal := 0; l_domain := 0; l_sign := 0; l_submit := 0 |} d in
  (o_events (t_res hang) = [EGraffiti 100 7; EProposal 100 55 0 90] /\ t_times hang = [0; 4000]
   /\ t_live hang = [true; false] /\ o_submit (t_res hang) = None /\ t_ret hang = 4000)
  /\ (t_times fail = [0; 3000; 3000; 3000] /\ t_live fail = [true; true; true; true]
      /\ In (EProposal 100 55 0 90) (o_events (t_res fail)) /\ is_some (o_submit (t_res fail)) = true /\ t_ret fail = 3000).
Proof. vm_compute. intuition. Qed.

(* ------------------------------------------------------------------------------------------- *)
(* The bytes of the graffiti (obtainGraffiti): a text of any length, with or without the "{{CLIENT}}"
   placeholder, a proposal provider that is or is not a NodeClientProvider, a node whose client string
   is anything at all (none, empty, without a '/', longer than the graffiti, the placeholder itself). *)
From Verif Require Import Proofs.C05_Graffiti.

(* The only failure of the graffiti lookup is the graffiti provider's own: whatever the node says its
   client is -- or fails to say -- the lookup has a value, the text with every placeholder replaced by
   the whole client string (left as it is when the node cannot be asked or fails), cut to 32 bytes. *)
Theorem C05_any_client_string_is_a_graffiti :
  forall text nc,
    resolve_graffiti (GSBytes text nc) = GOk (graffiti_n (client_text text nc))
    /\ (forall s, resolve_graffiti s = GErr -> s = GSErr)
    /\ ((nc = NCNone \/ nc = NCErr) -> client_text text nc = text)
    /\ (contains_b placeholder text = false -> client_text text nc = text /\ node_client_asked (GSBytes text nc) = false)
    /\ (forall client, contains_b placeholder text = false -> replace_all placeholder client text = text).
Proof.
  intros text nc. split; [apply resolve_bytes_value|]. split; [exact resolve_err_only_provider|].
  split; [apply client_text_unavailable|]. split.
  - intro H. split; [apply client_text_absent; exact H|]. cbn. destruct nc; auto.
  - intros client H. apply replace_absent. exact H.
Qed.
Print Assumptions C05_any_client_string_is_a_graffiti.

(* ... it always is 32 bytes' worth, however long the text and the client string are *)
Theorem C05_graffiti_fits_32_bytes :
  forall bs, Forall (fun b => b < 256) bs -> graffiti_n bs < 256 ^ 32.
Proof. exact graffiti_n_fits. Qed.
Print Assumptions C05_graffiti_fits_32_bytes.

(* ... and the proposal is made with it: for every configuration, environment, complete duty and every
   source of graffiti, the beacon node is asked for the duty's slot with the graffiti the source resolves
   to, and what is submitted for a local block is what is submitted with any other graffiti. *)
Theorem C05_any_client_string_proposes :
  forall c e s d acct,
    d_randao d <> 0 -> d_account d = Some acct ->
    In (EProposal (d_slot d) (d_randao d) (graffiti_value (with_source e s)) (c_boost c))
       (o_events (propose c (with_source e s) d))
    /\ (forall text nc, s = GSBytes text nc ->
          graffiti_value (with_source e s) = graffiti_n (client_text text nc))
    /\ (forall pr, e_proposal e = POk pr -> p_blinded pr = false ->
          o_submit (propose c (with_source e s) d) = o_submit (propose c e d)).
Proof. exact any_client_string_proposes. Qed.
Print Assumptions C05_any_client_string_proposes.

(* "vouch {{CLIENT}}" on a node that calls itself "Grandine 0.4.0" (no '/') is "vouch Grandine 0.4.0";
   on a node with an empty client string "vouch "; with "{{CLIENT}}/{{CLIENT}}" and Lighthouse's string the
   graffiti is the first 32 bytes; a node that answers "{{CLIENT}}" is not asked again. *)
Example C05_example_client_graffiti :
  let vouch := [118; 111; 117; 99; 104; 32] in
  let grandine := [71; 114; 97; 110; 100; 105; 110; 101; 32; 48; 46; 52; 46; 48] in
  client_text (vouch ++ placeholder) (NCOk grandine) = vouch ++ grandine
  /\ client_text (vouch ++ placeholder) (NCOk []) = vouch
  /\ client_text (vouch ++ placeholder) NCErr = vouch ++ placeholder
  /\ client_text (placeholder ++ placeholder) (NCOk placeholder) = placeholder ++ placeholder
  /\ pad32 (client_text (placeholder ++ [47] ++ placeholder) (NCOk (repeat 76 20))) = repeat 76 20 ++ [47] ++ repeat 76 11
  /\ resolve_graffiti (GSBytes (repeat 0 31 ++ [9]) NCNone) = GOk 9
  /\ node_client_asked (GSBytes (vouch ++ placeholder) (NCOk [])) = true.
Proof. vm_compute. repeat split; reflexivity. Qed.
