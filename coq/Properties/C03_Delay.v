(* C03 — duties requests that the beacon node answers late (Model/C03_Delay.v): the jobs set up
   when the answer arrives are for slots that have not passed AT THAT MOMENT.

   The controller reads the clock at particular statements.  scheduleAttestations and
   scheduleProposals read chainTimeService.CurrentSlot() after the AttesterDuties / ProposerDuties
   answer has arrived and filter "past slot" / "current slot when told not to" against that
   value; Model/C03_Delay.v writes every operation with one request answered [dl_slots] slots late
   ([step_d]: what does not wait happens at the old clock, [step_imm]; then the clock moves on and
   the waiting calls finish, [finish]).  The harness runs the real controller against a node that
   answers late (family slow-fetch) and the check compares tables and clocks with [trace_d]. *)
From Verif Require Import Lib.Base Model.C03_ChainTime Model.C03_Controller Model.C03_Spec Model.C03_Delay
     Proofs.C03_Delay.
Open Scope N_scope.

(* With no late answer the operations -- and so every history -- are those of
   Model/C03_Controller.v, about which Properties/C03.v speaks. *)
Theorem C03_no_delay_is_the_controller_model : forall shadowed c st o,
  step_d shadowed c None st o = step shadowed c st o.
Proof. exact step_d_none. Qed.
Print Assumptions C03_no_delay_is_the_controller_model.

Theorem C03_no_delay_history_is_the_controller_model : forall shadowed c ops st,
  run_d shadowed c st (map (fun o => (o, None)) ops) = run shadowed c st ops.
Proof. exact run_d_none. Qed.
Print Assumptions C03_no_delay_history_is_the_controller_model.

(* For every configuration, state (so: after any history, with or without late answers), operation
   and late answer: an attestation / proposal / early-proposal job that exists after the operation
   and was not there when everything that does not wait for the answer had been done -- a job set
   up when the answer arrived -- is for a slot not earlier than the current slot of that moment. *)
Theorem C03_slow_answer_no_past_job : forall shadowed c d st o n s,
  duty_slot n = Some s ->
  texists (st_jobs (step_d shadowed c d st o)) n = true ->
  texists (st_jobs (fst (step_imm shadowed c d st o))) n = false ->
  st_cur (step_d shadowed c d st o) <= s.
Proof. exact slow_answer_no_past_job. Qed.
Print Assumptions C03_slow_answer_no_past_job.

(* "When started or restarted it schedules only strictly later slots": also when the node answers
   the start-up's requests late (a restart late in slot N whose answer arrives in slot N+1 must
   not set up a job for slot N+1). *)
Theorem C03_slow_answer_restart_strictly_later : forall shadowed c d st n s,
  duty_slot n = Some s ->
  texists (st_jobs (step_d shadowed c d st Start)) n = true ->
  texists (st_jobs (fst (step_imm shadowed c d st Start))) n = false ->
  st_cur (step_d shadowed c d st Start) < s.
Proof. exact slow_answer_restart_strictly_later. Qed.
Print Assumptions C03_slow_answer_restart_strictly_later.

(* the waiting call itself, whichever operation it belongs to: new names are due at the clock of
   the answer, with the notCurrentSlot the call was given *)
Theorem C03_late_call_schedules_due_slots : forall c cur1 e pd t n s,
  duty_slot n = Some s ->
  texists (late c cur1 e pd t) n = true -> texists t n = false ->
  cur1 <= s /\ (pd_notcur pd = true -> cur1 < s).
Proof.
  intros c cur1 e pd t n s Hn H1 H0. pose proof (late_new_due c cur1 e pd t n s Hn H1 H0) as Hd.
  unfold due in Hd. apply andb_true_iff in Hd. destruct Hd as [Ha Hb].
  split; [apply N.ltb_ge; destruct (s <? cur1); [discriminate | reflexivity]|].
  intro Hnc. rewrite Hnc, andb_true_r in Hb.
  assert (cur1 <= s) by (apply N.ltb_ge; destruct (s <? cur1); [discriminate | reflexivity]).
  assert (s <> cur1) by (intro E; subst s; rewrite N.eqb_refl in Hb; discriminate).
  apply N.le_neq. split; [assumption | intro E; apply H2; symmetry; exact E].
Qed.
Print Assumptions C03_late_call_schedules_due_slots.

(* Sync committee preparation jobs.  scheduleSyncCommitteeMessages fixes the window's lower bound
   BEFORE its SyncCommitteeDuties request (clock [cur0]) and tests "current slot when told not to"
   after it (clock [cur1]): a job set up when the answer arrives lies in the window of [cur0] and is
   not the slot current at [cur1] when told so ... *)
Theorem C03_slow_sync_answer_window : forall c ae cur0 cur1 e ep nc t s,
  texists (sched_sync2 c ae cur0 cur1 e ep nc t) (JSync s) = true -> texists t (JSync s) = false ->
  let '(_, fs, ls) := sync_window c ae cur0 ep in
  fs <= s <= ls /\ ((s =? cur1) && nc = false).
Proof. exact sched_sync2_new. Qed.
Print Assumptions C03_slow_sync_answer_window.

(* ... and NOT more: the faithful model sets up preparation jobs for slots that passed while the
   request was outstanding (the statement "no job for a passed slot" is refuted for this kind of
   job; the real controller reproduces the witness, corpus/C03/slow-sync-answer-passed-slot.json;
   see notes/C03.md). *)
Definition wit_c : config :=
  {| c_ct := {| ct_genesis := 0; ct_dur := 12000000000; ct_spe := 2 |};
     c_att_delay := 4000000000; c_prop_delay := 0; c_ft_att := false;
     c_period := 4; c_spec_altair := Some 0; c_have_agg := true |}.
Definition wit_st : state :=
  set_cur (set_env (init_state true 0)
             {| e_att := []; e_prop := []; e_sync := [(0, [1])]; e_vals := true |}) 3.
Definition wit_d : option fdelay := Some {| dl_kind := RSync; dl_key := 0; dl_slots := 2 |}.

Theorem C03_slow_sync_answer_passed_slot_refuted :
  exists c st o d s,
    texists (st_jobs (fst (step_imm false c d st o))) (JSync s) = false /\
    texists (st_jobs (step_d false c d st o)) (JSync s) = true /\
    s < st_cur (step_d false c d st o).
Proof.
  exists wit_c, wit_st, (SchedSync 1 false), wit_d, 3.
  split; [vm_compute; reflexivity | split; vm_compute; reflexivity].
Qed.
Print Assumptions C03_slow_sync_answer_passed_slot_refuted.

(* non-vacuity: a restart in slot 4 whose attester duties of epoch 1 (slots 4..7) arrive one slot
   later sets up the jobs of slots 6 and 7 then, and none for slot 5 *)
Definition nv_st : state :=
  set_cur (set_env (init_state false 0)
             {| e_att := [(1, [ {| ad_slot := 4; ad_val := 1; ad_comm := 0; ad_vci := 0 |};
                                {| ad_slot := 5; ad_val := 2; ad_comm := 0; ad_vci := 0 |};
                                {| ad_slot := 6; ad_val := 3; ad_comm := 0; ad_vci := 0 |};
                                {| ad_slot := 7; ad_val := 1; ad_comm := 0; ad_vci := 0 |} ])];
                e_prop := []; e_sync := []; e_vals := true |}) 4.
Definition nv_c : config :=
  {| c_ct := {| ct_genesis := 0; ct_dur := 12000000000; ct_spe := 4 |};
     c_att_delay := 4000000000; c_prop_delay := 0; c_ft_att := false;
     c_period := 4; c_spec_altair := None; c_have_agg := false |}.
Example C03_slow_answer_nonvacuous :
  let d := Some {| dl_kind := RAtt; dl_key := 1; dl_slots := 1 |} in
  texists (st_jobs (fst (step_imm false nv_c d nv_st Start))) (JAtt 6) = false /\
  texists (st_jobs (step_d false nv_c d nv_st Start)) (JAtt 6) = true /\
  texists (st_jobs (step_d false nv_c d nv_st Start)) (JAtt 5) = false /\
  st_cur (step_d false nv_c d nv_st Start) = 5.
Proof. vm_compute. repeat split; reflexivity. Qed.
