(* C03 — duties requests that the beacon node answers late (Model/C03_Delay.v): the jobs set up
   when the answer arrives are for slots that have not passed AT THAT MOMENT.

   The controller reads the clock at particular statements.  scheduleAttestations and
   scheduleProposals read chainTimeService.CurrentSlot() after the AttesterDuties / ProposerDuties
   answer has arrived and filter "past slot" / "current slot when told not to" against that
   value; Model/C03_Delay.v writes every operation with one request answered [dl_slots] slots late
   ([step_d]: what does not wait happens at the old clock, [step_imm]; then the clock moves on and
   the waiting calls finish, [finish]).  The harness runs the real controller against a node that
   answers late (family slow-fetch) and the check compares tables and clocks with [trace_d]. *)
From Verif Require Import Lib.Base Model.C03_ChainTime Model.C03_Controller Model.C03_Spec Model.C03_Delay
     Proofs.C03_Delay.
Open Scope N_scope.

(* With no late answer the operations -- and so every history -- are those of
   Model/C03_Controller.v, about which Properties/C03.v speaks. *)
Theorem C03_no_delay_is_the_controller_model : forall shadowed c st o,
  step_d shadowed c None st o = step shadowed c st o.
Proof. exact step_d_none. Qed.
Print Assumptions C03_no_delay_is_the_controller_model.

Theorem C03_no_delay_history_is_the_controller_model : forall shadowed c ops st,
  run_d shadowed c st (map (fun o => (o, None)) ops) = run shadowed c st ops.
Proof. exact run_d_none. Qed.
Print Assumptions C03_no_delay_history_is_the_controller_model.

(* For every configuration, state (so: after any history, with or without late answers), operation
   and late answer: an attestation / proposal / early-proposal / sync committee preparation job that exists after the operation
   and was not there when everything that does not wait for the answer had been done -- a job set
   up when the answer arrived -- is for a slot not earlier than the current slot of that moment. *)
Theorem C03_slow_answer_no_past_job : forall shadowed c d st o n s,
  duty_slot n = Some s ->
  texists (st_jobs (step_d shadowed c d st o)) n = true ->
  texists (st_jobs (fst (step_imm shadowed c d st o))) n = false ->
  st_cur (step_d shadowed c d st o) <= s.
Proof. exact slow_answer_no_past_job. Qed.
Print Assumptions C03_slow_answer_no_past_job.

(* "When started or restarted it schedules only strictly later slots": also when the node answers
   the start-up's requests late (a restart late in slot N whose answer arrives in slot N+1 must
   not set up a job for slot N+1). *)
Theorem C03_slow_answer_restart_strictly_later : forall shadowed c d st n s,
  duty_slot n = Some s ->
  texists (st_jobs (step_d shadowed c d st Start)) n = true ->
  texists (st_jobs (fst (step_imm shadowed c d st Start))) n = false ->
  st_cur (step_d shadowed c d st Start) < s.
Proof. exact slow_answer_restart_strictly_later. Qed.
Print Assumptions C03_slow_answer_restart_strictly_later.

(* the waiting call itself, whichever operation it belongs to: new names are due at the clock of
   the answer, with the notCurrentSlot the call was given *)
Theorem C03_late_call_schedules_due_slots : forall c cur1 e pd t n s,
  duty_slot n = Some s ->
  texists (late c cur1 e pd t) n = true -> texists t n = false ->
  cur1 <= s /\ (pd_notcur pd = true -> cur1 < s).
Proof.
  intros c cur1 e pd t n s Hn H1 H0. pose proof (late_new_due c cur1 e pd t n s Hn H1 H0) as Hd.
  unfold due in Hd. apply andb_true_iff in Hd. destruct Hd as [Ha Hb].
  split; [apply N.ltb_ge; destruct (s <? cur1); [discriminate | reflexivity]|].
  intro Hnc. rewrite Hnc, andb_true_r in Hb.
  assert (cur1 <= s) by (apply N.ltb_ge; destruct (s <? cur1); [discriminate | reflexivity]).
  assert (s <> cur1) by (intro E; subst s; rewrite N.eqb_refl in Hb; discriminate).
  apply N.le_neq. split; [assumption | intro E; apply H2; symmetry; exact E].
Qed.
Print Assumptions C03_late_call_schedules_due_slots.

(* Sync committee preparation jobs ([duty_slot] covers them: the four theorems above hold for
   "Prepare sync committee messages for slot s" as well).  scheduleSyncCommitteeMessages computes
   the window BEFORE its SyncCommitteeDuties request (clock [cur0]); once the duties and the
   accounts have been obtained (clock [cur1]) it clamps the first slot to the current slot again
   and skips the current slot when told so.  A job set up when the answer arrives lies in the
   window of [cur0], is not earlier than [cur1], and is not [cur1] itself when told so.
   (Before the repair "fix: sync committee preparation jobs are not set up for slots that passed
   while the duties request was outstanding" the second clamp was missing and the faithful model
   refuted the statement: C03_slow_sync_answer_passed_slot_refuted in the history of this file;
   corpus/C03/slow-sync-answer-passed-slot.json is the witness run on the real controller.) *)
Theorem C03_slow_sync_answer_window : forall c ae cur0 cur1 e ep nc t s,
  texists (sched_sync2 c ae cur0 cur1 e ep nc t) (JSync s) = true -> texists t (JSync s) = false ->
  let '(_, fs, ls) := sync_window c ae cur0 ep in
  fs <= s <= ls /\ cur1 <= s /\ ((s =? cur1) && nc = false).
Proof. exact sched_sync2_new. Qed.
Print Assumptions C03_slow_sync_answer_window.

(* the positive statement that replaces the refutation, on the witness's own terms: for every
   state, operation and late answer, a sync committee preparation job set up when the answer
   arrives is for a slot not earlier than the clock of that moment, strictly later in a restart *)
Theorem C03_slow_sync_answer_no_passed_slot : forall shadowed c d st o s,
  texists (st_jobs (fst (step_imm shadowed c d st o))) (JSync s) = false ->
  texists (st_jobs (step_d shadowed c d st o)) (JSync s) = true ->
  st_cur (step_d shadowed c d st o) <= s /\
  (o = Start -> st_cur (step_d shadowed c d st o) < s).
Proof.
  intros shadowed c d st o s H0 H1. split.
  - exact (slow_answer_no_past_job shadowed c d st o (JSync s) s eq_refl H1 H0).
  - intro E. subst o. exact (slow_answer_restart_strictly_later shadowed c d st (JSync s) s eq_refl H1 H0).
Qed.
Print Assumptions C03_slow_sync_answer_no_passed_slot.

(* with no time passing during the request the second clamp does nothing: the function of
   Model/C03_Controller.v (and so C15's model of the same function) stays valid *)
Theorem C03_sync_second_clamp_idle_without_delay : forall c ae cur e ep nc t,
  sched_sync2 c ae cur cur e ep nc t = sched_sync c ae cur e ep nc t.
Proof. exact sched_sync2_same. Qed.
Print Assumptions C03_sync_second_clamp_idle_without_delay.

(* the former witness: the request sent in slot 3 is answered in slot 5; the jobs of slots 3 and 4
   are no longer set up, the one of slot 5 is *)
Definition wit_c : config :=
  {| c_ct := {| ct_genesis := 0; ct_dur := 12000000000; ct_spe := 2 |};
     c_att_delay := 4000000000; c_prop_delay := 0; c_ft_att := false;
     c_period := 4; c_spec_altair := Some 0; c_have_agg := true |}.
Definition wit_st : state :=
  set_cur (set_env (init_state true 0)
             {| e_att := []; e_prop := []; e_sync := [(0, [1])]; e_vals := true |}) 3.
Definition wit_d : option fdelay := Some {| dl_kind := RSync; dl_key := 0; dl_slots := 2 |}.

Example C03_slow_sync_answer_nonvacuous :
  let st' := step_d false wit_c wit_d wit_st (SchedSync 1 false) in
  st_cur st' = 5 /\ texists (st_jobs st') (JSync 3) = false /\ texists (st_jobs st') (JSync 4) = false /\
  texists (st_jobs st') (JSync 5) = true /\ texists (st_jobs st') (JSync 6) = true /\
  texists (st_jobs (fst (step_imm false wit_c wit_d wit_st (SchedSync 1 false)))) (JSync 5) = false.
Proof. vm_compute. repeat split; reflexivity. Qed.

(* non-vacuity: a restart in slot 4 whose attester duties of epoch 1 (slots 4..7) arrive one slot
   later sets up the jobs of slots 6 and 7 then, and none for slot 5 *)
Definition nv_st : state :=
  set_cur (set_env (init_state false 0)
             {| e_att := [(1, [ {| ad_slot := 4; ad_val := 1; ad_comm := 0; ad_vci := 0 |};
                                {| ad_slot := 5; ad_val := 2; ad_comm := 0; ad_vci := 0 |};
                                {| ad_slot := 6; ad_val := 3; ad_comm := 0; ad_vci := 0 |};
                                {| ad_slot := 7; ad_val := 1; ad_comm := 0; ad_vci := 0 |} ])];
                e_prop := []; e_sync := []; e_vals := true |}) 4.
Definition nv_c : config :=
  {| c_ct := {| ct_genesis := 0; ct_dur := 12000000000; ct_spe := 4 |};
     c_att_delay := 4000000000; c_prop_delay := 0; c_ft_att := false;
     c_period := 4; c_spec_altair := None; c_have_agg := false |}.
Example C03_slow_answer_nonvacuous :
  let d := Some {| dl_kind := RAtt; dl_key := 1; dl_slots := 1 |} in
  texists (st_jobs (fst (step_imm false nv_c d nv_st Start))) (JAtt 6) = false /\
  texists (st_jobs (step_d false nv_c d nv_st Start)) (JAtt 6) = true /\
  texists (st_jobs (step_d false nv_c d nv_st Start)) (JAtt 5) = false /\
  st_cur (step_d false nv_c d nv_st Start) = 5.
Proof. vm_compute. repeat split; reflexivity. Qed.
