(* C20 — tie of the pruning conditions of the bookkeeping model to the source by translation:
   gotrans transcribes, on every run, the conditions of the `if` statements that decide which keys
   are deleted in housekeepAttestedMap (attester), HandleHeadEvent (controller subscriptionInfos),
   SetBeaconBlockRoot (sync committee aggregator) and cacheBid (block relay); the model of
   Model/C20_Bookkeeping.v, about which the C20_*_bounded theorems are proved, keeps a key exactly
   when the transcribed "stale" condition is false. *)
From Coq Require Import ZArith NArith List Bool.
From Verif Require Import Lib.Base Lib.GoInt Gen.Pure_C20 Model.C20_Bookkeeping Proofs.TieLib Proofs.Tie_C20.

Theorem C20_tie_housekeep : forall (e : N) (l : list N), nu64 e ->
  housekeep true e l =
  if attester_housekeepGuard (Z.of_N e)
  then filter (fun y => negb (attester_attestedEpochStale (Z.of_N y) (Z.of_N e))) l else l.
Proof. exact tie_housekeep. Qed.
Print Assumptions C20_tie_housekeep.

Theorem C20_tie_head_clean : forall (e : N) (l : list N), Forall (fun k => nu64 (k + 1)) l ->
  head_clean true e l = filter (fun k => negb (controller_subscriptionInfoStale (Z.of_N k) (Z.of_N e))) l.
Proof. exact tie_head_clean. Qed.
Print Assumptions C20_tie_head_clean.

Theorem C20_tie_root_kept : forall (spe s k : N), nu64 (k + spe) ->
  (s <=? k + spe)%N = negb (syncaggregator_rootStale (Z.of_N spe) (Z.of_N k) (Z.of_N s)).
Proof. exact tie_root_kept. Qed.
Print Assumptions C20_tie_root_kept.

Theorem C20_tie_bid_kept : forall (s k : N), nu64 (k + bid_window) ->
  (s <=? k + bid_window)%N = negb (blockrelay_cachedBidStale (Z.of_N k) (Z.of_N s) true).
Proof. exact tie_bid_kept. Qed.
Print Assumptions C20_tie_bid_kept.

Example C20_tie_example :
  attester_attestedEpochStale 3 5 = true /\ attester_attestedEpochStale 4 5 = false /\
  controller_subscriptionInfoStale 3 5 = true /\ controller_subscriptionInfoStale 4 5 = false /\
  syncaggregator_rootStale 32 67 100 = true /\ syncaggregator_rootStale 32 68 100 = false /\
  blockrelay_cachedBidStale 67 100 true = true /\ blockrelay_cachedBidStale 68 100 true = false /\
  blockrelay_cachedBidStale 1 100 false = false.
Proof. vm_compute. repeat split. Qed.
