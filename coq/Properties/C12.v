(* C12 -- the block relay keeps answering whatever the config source does.  Property theorems only.

   Statement (properties.jsonl): whatever the execution-configuration source returns over time,
   Vouch keeps using the last configuration it obtained successfully (or its fallback values), every
   request for proposer settings, every auction and every registration round returns, and no
   sequence of refreshes interleaved with such requests leaves an internal lock held or blocks
   later refreshes or requests.

   The model (Model/C12_ConfigLock.v): the configuration state machine of fetchExecutionConfig;
   Go's writer-preferring RWMutex with any number of threads running control-flow graphs of lock
   operations under any schedule.  The theorems hold for EVERY program family accepted by the
   boolean [wf_prog]; that the service's own code is such a family is [C12_blockrelay_wf], computed
   against the graph the translator extracts from the source on every run. *)
From Verif Require Import Lib.Base Lib.Sched Lib.Lockset Model.C12_ConfigLock Proofs.C12 Proofs.C12_Data Proofs.C12_ReadOnly Proofs.C12_NoAccount Proofs.C12_Relay Gen.C17_Extracted.

(* ------------------------------------------------------------------------------------------- *)
(* 1. Keeps the last good configuration                                                         *)

(* After ANY sequence of refreshes (accounts provider failing / empty / fine; source answering a
   valid document, an error, nothing, or malformed content) the active configuration is the last
   document obtained successfully, and the initial one (nil or the empty default: the fallback
   values) if there never was one. *)
Theorem C12_keeps_last_good :
  forall (rs : list refresh) (init : cfgstate),
    refresh_all true rs init = last_good rs init.
Proof. exact refresh_all_last_good. Qed.
Print Assumptions C12_keeps_last_good.

(* the same, relationally: either no refresh succeeded and the state is the initial one, or the
   state is the document of a successful refresh after which none succeeded *)
Theorem C12_keeps_last_good_rel :
  forall (rs : list refresh) (init : cfgstate),
    (goods rs = [] /\ refresh_all true rs init = init) \/
    (exists pre r post d, rs = pre ++ r :: post /\ good r = [d] /\ goods post = [] /\
                          refresh_all true rs init = Some d).
Proof. intros rs init. rewrite refresh_all_last_good. apply last_good_split. Qed.
Print Assumptions C12_keeps_last_good_rel.

(* without a configuration URL nothing a refresh does changes the active configuration *)
Theorem C12_no_url_keeps_initial :
  forall (rs : list refresh) (init : cfgstate), refresh_all false rs init = init.
Proof. exact refresh_all_no_url. Qed.
Print Assumptions C12_no_url_keeps_initial.

(* a failing source never takes the configuration away: once a document was obtained the active
   configuration is never nil again, and lookups answer from the last good document *)
Theorem C12_lookup_uses_last_good :
  forall (rs : list refresh) (init : cfgstate) (v : N),
    proposer_config (refresh_all true rs init) v = proposer_config (last_good rs init) v /\
    auction_block (refresh_all true rs init) v = auction_block (last_good rs init) v /\
    (forall d, In d (goods rs) -> refresh_all true rs init <> None).
Proof.
  intros rs init v. rewrite refresh_all_last_good. split; [reflexivity|]. split; [reflexivity|].
  intros d Hd. rewrite <- refresh_all_last_good. eapply never_nil_after_good; eauto.
Qed.
Print Assumptions C12_lookup_uses_last_good.

(* The same under concurrency, for EVERY interleaving of the scenario machine (any number of
   lookups, auctions, registration rounds and refreshes laid out as their programs; threads advanced
   in any order; gates opened at any time): provided configuration refreshes do not overlap each
   other (no reached state has two fetching refreshes between their start and their write -- the
   scheduler's guarantee for a periodic job), the active configuration is the fold of the refreshes
   that have written so far, in write order -- hence (C12_keeps_last_good) their last good document
   -- and every lookup and auction that has answered was answered from the last good configuration
   of a prefix of those writes. *)
Theorem C12_concurrent_keeps_last_good :
  forall (mprog : list mstep) (g : prog) (init : cfgstate) (acts : list xact),
    Forall (act_ok mprog g) acts ->
    (forall n, no_overlap (grun true mprog g (firstn n acts) (g0 init))) ->
    let s := grun true mprog g acts (g0 init) in
    x_cfg (g_x s) = last_good (g_log s) init /\
    forall i ti, nth_error (x_info (g_x s)) i = Some ti ->
      is_reader_kind (sp_kind (ti_sp ti)) = true ->
      ti_res ti = RAny \/
      exists pre post, g_log s = pre ++ post /\
        ti_res ti = answer (sp_kind (ti_sp ti)) (last_good pre init) (sp_v (ti_sp ti)).
Proof.
  intros mprog g init acts Hok Hno s.
  pose proof (GI_run true mprog g init acts (g0 init) (GI_init true mprog g init) Hno Hok) as (Hl1 & Hl2 & Hcfg & Hall).
  fold s in Hl1, Hl2, Hcfg, Hall. split.
  - rewrite Hcfg. apply refresh_all_last_good.
  - intros i ti Hti Hr.
    assert (Hlt : (i < length (x_info (g_x s)))%nat) by (apply nth_error_Some; congruence).
    destruct (nth_error (s_threads (x_sys (g_x s))) i) as [t|] eqn:Et; [|apply nth_error_None in Et; lia].
    destruct (nth_error (g_ents s) i) as [e|] eqn:Ee; [|apply nth_error_None in Ee; lia].
    destruct (Hall i t ti e Et Hti Ee) as (_ & _ & _ & Hrd).
    destruct (Hrd Hr) as [Ha|(pre & post & Hlog & Ha)]; [left; exact Ha|].
    right. exists pre, post. split; [exact Hlog|]. rewrite Ha, refresh_all_last_good. reflexivity.
Qed.
Print Assumptions C12_concurrent_keeps_last_good.

(* ------------------------------------------------------------------------------------------- *)
(* 2. The lock: invariant, no deadlock, free at quiescence -- any number of threads, any schedule *)

(* counters = threads' program counters: in every reachable state the reader count is the number
   of threads standing at a node whose static hold is "read", a writer holds iff exactly one thread
   stands at a "write" node, a thread that has returned holds nothing, and a reader and a writer
   are never inside together. *)
Theorem C12_lock_invariant :
  forall (g : prog) (entries : list nat),
    wf_prog g entries = true ->
    forall (es : list nat), (forall e, In e es -> In e entries) ->
    forall (sch : list (nat * nat)),
      let s := run (cstep g) sch (init_sys es) in
      let ls := hinfer g entries in
      l_readers (s_lock s) = count_static ls HR (s_threads s) /\
      count_static ls HW (s_threads s) = (match l_writer (s_lock s) with WHeld _ => 1 | _ => 0 end)%nat /\
      (forall t, In t (s_threads s) -> t_pc t = PDone -> t_r t = 0%nat /\ t_w t = false) /\
      (forall i, l_writer (s_lock s) = WHeld i -> l_readers (s_lock s) = 0%nat).
Proof.
  intros g entries Hwf es Hes sch s ls.
  pose proof (inv_run g entries ls Hwf es sch Hes) as HI. fold s in HI.
  destruct (inv_counters g ls s HI) as [H1 H2]. split; [exact H1|]. split; [exact H2|]. split.
  - intros t Ht Hd. exact (done_holds_nothing g ls s t HI Ht Hd).
  - intros i Hi. pose proof (excl_run g es sch) as He. fold s in He. unfold excl_ok in He. rewrite Hi in He. exact He.
Qed.
Print Assumptions C12_lock_invariant.

(* every reachable state with an unfinished thread has an enabled thread *)
Theorem C12_no_deadlock :
  forall (g : prog) (entries : list nat),
    wf_prog g entries = true ->
    forall (es : list nat), (forall e, In e es -> In e entries) ->
    forall (sch : list (nat * nat)),
      let s := run (cstep g) sch (init_sys es) in
      (exists t, In t (s_threads s) /\ t_pc t <> PDone) ->
      exists a s', cstep g s a = Some s'.
Proof.
  intros g entries Hwf es Hes sch s Hunf.
  apply (no_deadlock g entries (hinfer g entries) Hwf s).
  - exact (inv_run g entries _ Hwf es sch Hes).
  - apply all_finished_false_iff. exact Hunf.
Qed.
Print Assumptions C12_no_deadlock.

(* when every thread has returned, nobody holds the lock and no writer is queued *)
Theorem C12_lock_free_at_quiescence :
  forall (g : prog) (entries : list nat),
    wf_prog g entries = true ->
    forall (es : list nat), (forall e, In e es -> In e entries) ->
    forall (sch : list (nat * nat)),
      let s := run (cstep g) sch (init_sys es) in
      all_finished s = true -> s_lock s = free_lock.
Proof.
  intros g entries Hwf es Hes sch s Hall.
  exact (quiescent_free g _ s (inv_run g entries _ Hwf es sch Hes) Hall).
Qed.
Print Assumptions C12_lock_free_at_quiescence.

(* said the other way round: whenever nothing more can happen, every request has returned and the
   lock is free -- no run can end with a request stuck *)
Theorem C12_maximal_runs_finish :
  forall (g : prog) (entries : list nat),
    wf_prog g entries = true ->
    forall (es : list nat), (forall e, In e es -> In e entries) ->
    forall (sch : list (nat * nat)),
      let s := run (cstep g) sch (init_sys es) in
      (forall a, cstep g s a = None) -> all_finished s = true /\ s_lock s = free_lock.
Proof.
  intros g entries Hwf es Hes sch s Hq.
  pose proof (inv_run g entries _ Hwf es sch Hes) as HI. fold s in HI.
  assert (Hf : all_finished s = true).
  { destruct (all_finished s) eqn:E; [reflexivity|].
    destruct (no_deadlock g entries _ Hwf s HI E) as (a & s' & Hs). rewrite Hq in Hs. discriminate. }
  split; [exact Hf|]. exact (quiescent_free g _ s HI Hf).
Qed.
Print Assumptions C12_maximal_runs_finish.

(* the lock is never wedged: whenever it is held or a writer has announced itself, one of the threads
   involved (a holder, or the announced writer once the readers have drained) can take its next
   step, and that step is not a wait for anything foreign: [wf_prog] rejects the acquisition of
   another mutex (OBlock) while the lock is held.  So the progress of the lock does not depend on
   any other lock of the service. *)
Theorem C12_lock_never_wedged :
  forall (g : prog) (entries : list nat),
    wf_prog g entries = true ->
    forall (es : list nat), (forall e, In e es -> In e entries) ->
    forall (sch : list (nat * nat)),
      let s := run (cstep g) sch (init_sys es) in
      s_lock s <> free_lock ->
      exists i t s', nth_error (s_threads s) i = Some t /\ involved t = true /\
                     foreign_wait g t = false /\ cstep g s (i, 0%nat) = Some s'.
Proof.
  intros g entries Hwf es Hes sch s Hnf.
  exact (never_wedged g entries _ Hwf s (inv_run g entries _ Hwf es sch Hes) Hnf).
Qed.
Print Assumptions C12_lock_never_wedged.

(* every request returns: for programs without cycles (checked ranking), however the threads are
   scheduled only a bounded number of steps can be taken, and from every reachable state the
   requests in flight can all be completed -- together with C12_no_deadlock: every maximal run ends
   with all requests returned and (C12_lock_free_at_quiescence) the lock free. *)
Theorem C12_every_request_returns :
  forall (g : prog) (entries : list nat) (rank : list nat),
    wf_prog g entries = true -> rank_ok rank g = true ->
    forall (es : list nat), (forall e, In e es -> In e entries) ->
    forall (sch : list (nat * nat)),
      let s0 := init_sys es in
      let s := run (cstep g) sch s0 in
      (taken (cstep g) sch s0 + weight rank s <= weight rank s0)%nat /\
      exists sch', all_finished (run (cstep g) (sch ++ sch') s0) = true /\
                   s_lock (run (cstep g) (sch ++ sch') s0) = free_lock.
Proof.
  intros g entries rank Hwf Hrank es Hes sch s0 s. split.
  - apply bounded_work; exact Hrank.
  - pose proof (inv_run g entries _ Hwf es sch Hes) as HI.
    destruct (can_finish g entries _ rank Hwf Hrank (weight rank s) s HI (le_n _)) as [sch' Hf].
    assert (Hf' : all_finished (run (cstep g) (sch ++ sch') s0) = true) by (rewrite run_app; exact Hf).
    exists sch'. split; [exact Hf'|].
    exact (quiescent_free g _ _ (inv_run g entries _ Hwf es (sch ++ sch') Hes) Hf').
Qed.
Print Assumptions C12_every_request_returns.

(* ------------------------------------------------------------------------------------------- *)
(* 3. The service's own code is such a family (re-derived from the source on every run)          *)

(* every mutex of services/blockrelay/standard -- executionConfigMu among them -- taken alone is
   balanced on every path of every entry point, never acquired while held, and only released when
   held, in the graph the translator extracted from the working tree *)
Theorem C12_blockrelay_wf :
  wf_graph g_blockrelay_standard entries_blockrelay_standard = true.
Proof. vm_compute. reflexivity. Qed.
Print Assumptions C12_blockrelay_wf.

(* hence, for the code as it is now: any number of concurrent invocations of any entry points
   (ProposerConfig, AuctionBlock, BuilderBid, the periodic refresh, the registration round, ...)
   under any schedule never deadlock on any of the service's mutexes, and leave them free *)
Theorem C12_blockrelay_never_wedged :
  forall (mu : mutex), In mu (mutexes_of g_blockrelay_standard) ->
    forall (es : list nat), (forall e, In e es -> In e entries_blockrelay_standard) ->
    forall (sch : list (nat * nat)),
      let g := project mu g_blockrelay_standard in
      let s := run (cstep g) sch (init_sys es) in
      ((exists t, In t (s_threads s) /\ t_pc t <> PDone) -> exists a s', cstep g s a = Some s') /\
      (all_finished s = true -> s_lock s = free_lock) /\
      (forall t, In t (s_threads s) -> t_pc t = PDone -> t_r t = 0%nat /\ t_w t = false).
Proof.
  intros mu Hmu es Hes sch g s.
  pose proof (wf_graph_mutex _ _ mu C12_blockrelay_wf Hmu) as Hwf.
  split; [|split].
  - exact (C12_no_deadlock _ _ Hwf es Hes sch).
  - exact (C12_lock_free_at_quiescence _ _ Hwf es Hes sch).
  - exact (proj1 (proj2 (proj2 (C12_lock_invariant _ _ Hwf es Hes sch)))).
Qed.
Print Assumptions C12_blockrelay_never_wedged.

(* for the leaf mutexes of the service (those inside whose critical sections no other mutex is
   acquired; executionConfigMu is one, see C12_hand_programs_match_source) the lock is never wedged,
   whatever the other mutexes do *)
Theorem C12_blockrelay_leaf_never_wedged :
  forall (mu : mutex), In mu (leaf_mutexes g_blockrelay_standard entries_blockrelay_standard) ->
    forall (es : list nat), (forall e, In e es -> In e entries_blockrelay_standard) ->
    forall (sch : list (nat * nat)),
      let g := project_leaf mu g_blockrelay_standard in
      let s := run (cstep g) sch (init_sys es) in
      s_lock s <> free_lock ->
      exists i t s', nth_error (s_threads s) i = Some t /\ involved t = true /\
                     foreign_wait g t = false /\ cstep g s (i, 0%nat) = Some s'.
Proof.
  intros mu Hmu es Hes sch g s Hnf.
  exact (C12_lock_never_wedged _ _ (leaf_mutex_wf _ _ mu Hmu) es Hes sch Hnf).
Qed.
Print Assumptions C12_blockrelay_leaf_never_wedged.

(* the hand transcription of the four request kinds (what the correspondence check runs against
   the implementation) is well-formed and acyclic: all of the above, and every request returns *)
Theorem C12_hand_programs_return :
  wf_prog hand_prog hand_entries = true /\ rank_ok (rank_infer hand_prog) hand_prog = true /\
  forall (es : list nat), (forall e, In e es -> In e hand_entries) ->
  forall (sch : list (nat * nat)),
    exists sch', all_finished (run (cstep hand_prog) (sch ++ sch') (init_sys es)) = true /\
                 s_lock (run (cstep hand_prog) (sch ++ sch') (init_sys es)) = free_lock.
Proof.
  assert (H1 : wf_prog hand_prog hand_entries = true) by (vm_compute; reflexivity).
  assert (H2 : rank_ok (rank_infer hand_prog) hand_prog = true) by (vm_compute; reflexivity).
  split; [exact H1|]. split; [exact H2|]. intros es Hes sch.
  exact (proj2 (C12_every_request_returns hand_prog hand_entries _ H1 H2 es Hes sch)).
Qed.
Print Assumptions C12_hand_programs_return.

(* the hand transcription is not out of date: some LEAF mutex of the extracted service has an entry
   with exactly the lock traces of the refresh (return early | RLock RUnlock Lock Unlock), and every
   lock trace of every hand program is a lock trace of some entry on that mutex *)
Theorem C12_hand_programs_match_source :
  hand_matches_source g_blockrelay_standard entries_blockrelay_standard = true.
Proof. vm_compute. reflexivity. Qed.
Print Assumptions C12_hand_programs_match_source.

(* ------------------------------------------------------------------------------------------- *)
(* 4. The code before 6cf77a3 is refuted                                                         *)

(* auctionBlock took the read lock around ProposerConfig (which takes it again) and returned on
   error without releasing it.  [wf_prog] rejects that program, and the model deadlocks:
   (a) nested read lock: an auction is inside its outer read lock, a refresh announces its write
       lock, the auction's inner RLock waits for the writer, the writer waits for the reader;
   (b) leak: an auction whose settings cannot be resolved returns holding the read lock; the next
       refresh waits for ever, and every later lookup waits behind it. *)
Theorem C12_deadlock_refuted :
  wf_prog prefix_prog prefix_entries = false /\
  (exists es sch, (forall e, In e es -> In e prefix_entries) /\
     let s := run (cstep prefix_prog) sch (init_sys es) in
     (forall t, In t (s_threads s) -> t_pc t <> PDone) /\
     forall a, cstep prefix_prog s a = None) /\
  (exists es sch, (forall e, In e es -> In e prefix_entries) /\
     let s := run (cstep prefix_prog) sch (init_sys es) in
     (exists t, In t (s_threads s) /\ t_pc t = PDone /\ t_r t = 1%nat) /\
     (exists t, In t (s_threads s) /\ t_pc t <> PDone) /\
     forall a, cstep prefix_prog s a = None).
Proof.
  split; [vm_compute; reflexivity|]. split.
  - (* threads: 0 = auction (entry 4), 1 = refresh (entry 19) *)
    exists [4%nat; 19%nat], [(0, 0); (1, 0); (1, 0); (1, 0); (1, 0); (1, 0)]%nat.
    split; [intros e [<-|[<-|[]]]; vm_compute; tauto|].
    split.
    + vm_compute. intros t [<-|[<-|[]]]; discriminate.
    + intros [i c]. destruct i as [|[|i]]; vm_compute; try reflexivity. destruct i; reflexivity.
  - (* threads: 0 = auction of an unresolvable validator, 1 = refresh, 2 = lookup *)
    exists [4%nat; 19%nat; 0%nat],
      [(0, 0); (0, 0); (0, 0); (0, 0); (0, 0); (0, 1); (0, 0); (1, 0); (1, 0); (1, 0); (1, 0); (1, 0); (2, 0)]%nat.
    split; [intros e [<-|[<-|[<-|[]]]]; vm_compute; tauto|].
    split; [|split].
    + eexists. split; [vm_compute; left; reflexivity|]. vm_compute. auto.
    + eexists. split; [vm_compute; right; left; reflexivity|]. vm_compute. discriminate.
    + intros [i c]. destruct i as [|[|[|i]]]; vm_compute; try reflexivity. destruct i; reflexivity.
Qed.
Print Assumptions C12_deadlock_refuted.

(* ------------------------------------------------------------------------------------------- *)
(* Non-vacuity                                                                                   *)

Definition ex_d1 : doc := {| d_id := 1; d_bad := [3]; d_relay := true |}.
Definition ex_d2 : doc := {| d_id := 2; d_bad := []; d_relay := false |}.
Definition ex_rf (o : fetch_outcome) : refresh := {| rf_acc := AccSome; rf_fetch := o |}.

(* a history with every kind of outcome: the state is the last good document, lookups answer from it *)
Example C12_ex_history :
  let rs := [ex_rf FErr; ex_rf (FOk ex_d1); ex_rf FMalformed; {| rf_acc := AccErr; rf_fetch := FOk ex_d2 |};
             ex_rf FNil; {| rf_acc := AccNone; rf_fetch := FOk ex_d2 |}] in
  refresh_all true rs None = Some ex_d1 /\
  proposer_config (refresh_all true rs None) 1 = RFee 1 /\
  proposer_config (refresh_all true rs None) 3 = RErr /\
  proposer_config (refresh_all true [ex_rf FErr; ex_rf FMalformed] None) 1 = RFee 0.
Proof. vm_compute. auto. Qed.

(* the hypotheses of the lock theorems are met by a non-trivial run: two lookups, an auction and a
   refresh interleaved; a writer announced while a reader is inside *)
Example C12_ex_run :
  let s := run (cstep hand_prog) [(0, 0); (3, 0); (3, 0); (3, 0); (3, 0); (3, 0); (1, 0)]%nat
               (init_sys [0; 4; 8; 15]%nat) in
  l_readers (s_lock s) = 1%nat /\ l_writer (s_lock s) = WPending 3 /\
  cstep hand_prog s (1, 0)%nat = None /\ cstep hand_prog s (3, 0)%nat = None /\
  cstep hand_prog s (0, 0)%nat <> None.
Proof. vm_compute. repeat split; discriminate. Qed.

(* the scenario interpreter on the two programs: the current code answers everything; the code
   before 6cf77a3 wedges on "unresolvable settings, then refresh, then lookup" *)
Definition ex_sp (k : kind) (v : N) (o : fetch_outcome) : spawn :=
  {| sp_kind := k; sp_v := v; sp_gate := false; sp_ref := ex_rf o |}.
Definition ex_scenario : list cmd :=
  [Spawn (ex_sp KRefresh 0 (FOk ex_d1)); Spawn (ex_sp KAuction 3 FErr); Spawn (ex_sp KRefresh 0 FErr); Spawn (ex_sp KLookup 1 FErr)].

Example C12_ex_scenario_now :
  predict false true None ex_scenario = ([(true, RDone); (true, RErr); (true, RDone); (true, RFee 1)], true, Some ex_d1).
Proof. vm_compute. reflexivity. Qed.

Example C12_ex_scenario_before_fix :
  predict true true None ex_scenario = ([(true, RDone); (true, RErr); (false, RAny); (false, RAny)], false, Some ex_d1).
Proof. vm_compute. reflexivity. Qed.

(* the projection of the extracted graph on executionConfigMu is not trivial: it contains read
   and write acquisitions *)
Example C12_ex_projection_nontrivial :
  existsb (fun mu => existsb (fun nd => match p_op nd with OLock => true | _ => false end) (project mu g_blockrelay_standard) &&
                     existsb (fun nd => match p_op nd with ORLock => true | _ => false end) (project mu g_blockrelay_standard))
          (mutexes_of g_blockrelay_standard) = true.
Proof. vm_compute. reflexivity. Qed.

(* the service has leaf mutexes (on the present tree: all but builderBidMu, which is held while the
   bid cache and the configuration are read) *)
Example C12_ex_leaf_mutexes :
  leaf_mutexes g_blockrelay_standard entries_blockrelay_standard <> [].
Proof. vm_compute. discriminate. Qed.

(* the hypotheses of C12_concurrent_keeps_last_good are met by a non-trivial interleaving: a lookup is
   inside the read lock when a refresh with a new document starts, a second lookup arrives while the
   writer waits; the first lookup is answered from the old configuration, the second from the new *)
Definition ex_sps : list spawn := [ex_sp KLookup 1 FErr; ex_sp KRefresh 0 (FOk ex_d2); ex_sp KLookup 1 FErr].
Definition ex_lay := layout 0 (map (program false) ex_sps).
Definition ex_acts : list xact :=
  [XSpawn (ex_sp KLookup 1 FErr) 0; XAdv 0; XAdv 0;
   XSpawn (ex_sp KRefresh 0 (FOk ex_d2)) 4; XAdv 1; XAdv 1; XAdv 1; XAdv 1; XAdv 1; XAdv 1;
   XSpawn (ex_sp KLookup 1 FErr) 11; XAdv 2; XAdv 0; XAdv 0; XAdv 1; XAdv 1; XAdv 1; XAdv 2; XAdv 2; XAdv 2; XAdv 2; XAdv 1]%nat.

Example C12_ex_concurrent :
  let mprog := fst (fst ex_lay) in
  let g := snd (fst ex_lay) in
  let s := grun true mprog g ex_acts (g0 (Some ex_d1)) in
  Forall (act_ok mprog g) ex_acts /\
  (forall n, no_overlap (grun true mprog g (firstn n ex_acts) (g0 (Some ex_d1)))) /\
  x_cfg (g_x s) = Some ex_d2 /\ g_log s = [ex_rf (FOk ex_d2)] /\
  map ti_res (x_info (g_x s)) = [RFee 1; RDone; RFee 2] /\
  all_finished (x_sys (g_x s)) = true.
Proof.
  intros mprog g s.
  pose proof (layout_laid (map (program false) ex_sps)) as Hlay.
  change (layout 0 (map (program false) ex_sps)) with ex_lay in Hlay.
  assert (Hlaid : forall k sp e, nth_error ex_sps k = Some sp -> nth_error (snd ex_lay) k = Some e ->
                                 laid mprog g e (program false sp)).
  { intros k sp e Hk He. unfold mprog, g. destruct ex_lay as [[ms g0'] es] eqn:E. cbn [fst snd] in *.
    apply (Hlay k (program false sp) e); [|exact He]. rewrite nth_error_map, Hk. reflexivity. }
  split; [|split].
  - unfold ex_acts.
    repeat (apply Forall_cons;
            [cbn [act_ok];
             first [exact I | apply (Hlaid 0%nat); reflexivity | apply (Hlaid 1%nat); reflexivity | apply (Hlaid 2%nat); reflexivity]|]).
    apply Forall_nil.
  - intro n. apply no_overlap_b_sound.
    assert (Hall : forallb (fun k => no_overlap_b (grun true mprog g (firstn k ex_acts) (g0 (Some ex_d1)))) (seq 0 (S (length ex_acts))) = true)
      by (vm_compute; reflexivity).
    destruct (Nat.le_gt_cases n (length ex_acts)) as [Hle|Hgt].
    + rewrite forallb_forall in Hall. apply Hall. apply in_seq. lia.
    + rewrite firstn_all2 by lia. rewrite forallb_forall in Hall.
      rewrite <- (firstn_all ex_acts). apply Hall. apply in_seq. lia.
  - vm_compute. auto.
Qed.

(* ------------------------------------------------------------------------------------------- *)
(* 18. Requests only read                                                                        *)

(* The active configuration changes at exactly one kind of step of the scenario machine: the MWrite
   of a refresh, made under the write lock.  Lookups, auctions and registration rounds have no such
   step; any step that is not an MWrite leaves the configuration as it was, and so does any run made
   of such steps, in any interleaving and with any number of threads.  This is why any number of
   requests may be inside the shared read lock at once (and the registration round may work on its
   snapshot with no lock at all).  The implementation side of it -- nothing on the lookup path
   writes to the configuration object or to package-level state, and overlapping first lookups on a
   freshly installed document do not bring the process down -- is checked by the harness (source
   scan: [c_reader_writes]; bursts in a child process: [c_crashed]). *)
Theorem C12_requests_only_read :
  (forall (pre : bool) (sp : spawn), sp_kind sp <> KRefresh -> ~ In MWrite (program pre sp)) /\
  (forall (url : bool) (mprog : list mstep) (g : prog) (x : xstate) (i : nat) (x' : xstate),
      advance url mprog g x i = Some x' -> thread_mstep mprog x i <> Some MWrite -> x_cfg x' = x_cfg x) /\
  (forall (url : bool) (mprog : list mstep) (g : prog) (acts : list xact) (s : gst),
      (forall n i, nth_error acts n = Some (XAdv i) ->
                   thread_mstep mprog (g_x (grun url mprog g (firstn n acts) s)) i <> Some MWrite) ->
      x_cfg (g_x (grun url mprog g acts s)) = x_cfg (g_x s)).
Proof.
  split; [exact program_no_write|]. split; [exact advance_keeps_cfg|exact grun_keeps_cfg].
Qed.
Print Assumptions C12_requests_only_read.

(* a burst: a refresh held up by an auction inside the read lock, three requests queued behind the
   announced writer; once the gate opens the writer installs the document and all three answer from it *)
Example C12_ex_burst_behind_writer :
  predict false true (Some {| d_id := 0; d_bad := []; d_relay := false |})
    [Spawn {| sp_kind := KAuction; sp_v := 4; sp_gate := true; sp_ref := ex_rf FErr |};
     Spawn (ex_sp KRefresh 0 (FOk ex_d1));
     Spawn (ex_sp KLookup 1 FErr); Spawn (ex_sp KAuction 2 FErr); Spawn (ex_sp KLookup 3 FErr); Spawn (ex_sp KReg 0 FErr);
     Release 0]
  = ([(true, RNoRelays); (true, RDone); (true, RFee 1); (true, RFee 1); (true, RErr); (true, RDone)], true, Some ex_d1).
Proof. vm_compute. reflexivity. Qed.

(* ------------------------------------------------------------------------------------------- *)
(* 19. Requests made without an account                                                         *)

(* The account argument of Service.ProposerConfig is legitimately nil for requests made on behalf of
   validators Vouch holds no account for: BuilderBid -> immediateBuilderBid -> auctionBlock(..., nil),
   ValidatorRegistrations forwarded by beacon nodes, UnblindBlock's provider lookup.  For these kinds
   (a) the program takes the read lock once and releases it, writes nothing, and has no point at which
   the account could hold the request (there is no account to ask); (b) whatever the configuration,
   the request is answered: a value or an error, never nothing; (c) the missing account does not
   change the answer; (d) when the configuration makes the validator's settings unresolvable the
   answer is the error (a forwarded registration is skipped).  Being programs of [request_kinds] and
   kinds of [is_reader_kind], they are covered by theorems 5, 15, 16 and 18 as well.  That the CODE
   answers so -- in particular that the error path does not dereference the absent account -- is
   checked by the harness (account-less requests against every configuration state; a request that
   panics is [c_panics], which P_b forbids). *)
Theorem C12_accountless_requests :
  (forall (pre : bool) (sp : spawn), accountless (sp_kind sp) = true ->
      ~ In MGate (program pre sp) /\ ~ In MWrite (program pre sp) /\
      filter is_lock_mstep (program pre sp) = [MRLock; MRUnlock]) /\
  (forall (k : kind) (c : cfgstate) (v : N), accountless k = true -> answer_of k c v <> RAny) /\
  (forall (c : cfgstate) (v : N),
      answer_of KLookupNA c v = answer_of KLookup c v /\ answer_of KBid c v = answer_of KAuction c v) /\
  (forall (k : kind) (d : doc) (v : N), accountless k = true -> is_bad d v = true ->
      answer_of k (Some d) v = match k with KFwd => RNoRelays | _ => RErr end).
Proof.
  split; [exact accountless_program|]. split; [exact accountless_answered|].
  split; [exact accountless_same_answer|exact accountless_unresolvable].
Qed.
Print Assumptions C12_accountless_requests.

(* a document that makes validator 3 unresolvable, then the four account-less requests for validator 3
   (error, error, skipped, error) and for validator 1 (answered from the document); then a failing
   refresh and the same again: everything returns, the lock is free *)
Example C12_ex_accountless :
  predict false true None
    [Spawn (ex_sp KRefresh 0 (FOk ex_d1));
     Spawn (ex_sp KLookupNA 3 FErr); Spawn (ex_sp KBid 3 FErr); Spawn (ex_sp KFwd 3 FErr); Spawn (ex_sp KUnblind 3 FErr);
     Spawn (ex_sp KLookupNA 1 FErr); Spawn (ex_sp KBid 1 FErr); Spawn (ex_sp KFwd 1 FErr); Spawn (ex_sp KUnblind 1 FErr);
     Spawn (ex_sp KRefresh 0 FMalformed); Spawn (ex_sp KBid 3 FErr)]
  = ([(true, RDone); (true, RErr); (true, RErr); (true, RNoRelays); (true, RErr);
      (true, RFee 1); (true, if d_relay ex_d1 then RFee 1 else RNoRelays);
      (true, if d_relay ex_d1 then RDone else RNoRelays); (true, RNoRelays);
      (true, RDone); (true, RErr)], true, Some ex_d1).
Proof. vm_compute. reflexivity. Qed.

(* ------------------------------------------------------------------------------------------- *)
(* 20. Requests held by a relay                                                                  *)

(* ValidatorRegistrations (registrations forwarded by beacon nodes) and the registration round end with
   the round trips to the relays (submitRelayRegistrations waits for all of them); a relay may take as
   long as it likes to answer.  In the programs that is the step [MRelay], the last step of exactly
   these two request kinds, and in the lock graph a wait for something foreign ([OBlock]), which
   [wf_prog] accepts only where the lock is not held.  So, for ANY well-formed program family (the
   hand programs are one, theorem 15), any number of threads and any schedule: a thread that stands at
   a foreign wait holds neither the read nor the write lock.  Together with theorem 10 (whenever the
   lock is not free, a thread involved can step and that step is NOT a foreign wait): no refresh, no
   lookup, no auction ever waits for a relay to answer.  That the CODE makes the round trip outside the
   lock is checked by the harness: the relay sits on the POST of a forwarded registration / of a
   registration round while refreshes of every outcome, lookups, auctions and further registrations
   arrive, and each of them must return at once (P_b: no settle ran into the watchdog). *)
Theorem C12_held_by_relay_holds_nothing :
  (forall (pre : bool) (sp : spawn), In MRelay (program pre sp) -> sp_kind sp = KFwd \/ sp_kind sp = KReg) /\
  (forall sp : spawn, sp_kind sp = KFwd \/ sp_kind sp = KReg -> last (program false sp) MNop = MRelay) /\
  (forall m : mstep, op_of_mstep m = OBlock <-> m = MForeign \/ m = MRelay) /\
  (forall (g : prog) (entries : list nat),
      wf_prog g entries = true ->
      forall (es : list nat), (forall e, In e es -> In e entries) ->
      forall (sch : list (nat * nat)),
        let s := run (cstep g) sch (init_sys es) in
        forall (i : nat) (t : thr),
          nth_error (s_threads s) i = Some t -> foreign_wait g t = true -> t_r t = 0%nat /\ t_w t = false).
Proof.
  split; [exact relay_step_where|]. split; [exact relay_step_last|]. split; [exact relay_step_is_foreign|].
  intros g entries Hwf es Hes sch s i t Hi Hf.
  exact (foreign_wait_holds_nothing g entries _ Hwf s i t (inv_run g entries _ Hwf es sch Hes) Hi Hf).
Qed.
Print Assumptions C12_held_by_relay_holds_nothing.

(* a document with a relay; the relay then sits on a forwarded registration for validator 1 and on a
   registration round; a refresh installing the next document, a failing refresh, a lookup and an auction
   all return meanwhile (answered from the new document); the two held requests return when released.
   With a document that makes validator 3 unresolvable nothing is handed to the relay for it: the gated
   forwarded registration for validator 3 returns at once. *)
Definition ex_gated (k : kind) (v : N) : spawn :=
  {| sp_kind := k; sp_v := v; sp_gate := true; sp_ref := ex_rf FErr |}.
Example C12_ex_held_by_relay :
  let cmds := [Spawn (ex_sp KRefresh 0 (FOk ex_d1)); Spawn (ex_gated KFwd 1); Spawn (ex_gated KReg 0);
               Spawn (ex_gated KFwd 3);
               Spawn (ex_sp KRefresh 0 (FOk {| d_id := 2; d_bad := []; d_relay := true |}));
               Spawn (ex_sp KRefresh 0 FMalformed); Spawn (ex_sp KLookup 1 FErr); Spawn (ex_sp KAuction 3 FErr)] in
  predict false true None cmds
  = ([(true, RDone); (false, RAny); (false, RAny); (true, RNoRelays); (true, RDone); (true, RDone); (true, RFee 2); (true, RFee 2)],
     true, Some {| d_id := 2; d_bad := []; d_relay := true |}) /\
  predict false true None (cmds ++ [Release 1; Release 2])
  = ([(true, RDone); (true, RDone); (true, RDone); (true, RNoRelays); (true, RDone); (true, RDone); (true, RFee 2); (true, RFee 2)],
     true, Some {| d_id := 2; d_bad := []; d_relay := true |}).
Proof. vm_compute. split; reflexivity. Qed.
