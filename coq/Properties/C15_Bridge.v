(* C15 <-> C03 — the two hand-written models of scheduleSyncCommitteeMessages agree.

   services/controller/standard/synccommitteemessenger.go (scheduleSyncCommitteeMessages,
   firstEpochOfSyncPeriod) is modelled in Model/C15_Sync.v ([first_epoch_of_period], [window_of],
   [window_slots], [schedule]: C15 goes on to the prepare / message / aggregation chain of each
   slot) and in Model/C03_Controller.v ([feosp], [sync_window], [slot_range], [sched_sync]: C03 goes
   on to the controller's histories — start-up, epoch tick, reorganisations).  The theorems below
   show that the two are the same function, and carry main theorems of each property over to the
   model of the other.  Theorems only; lemmas in Proofs/Bridge_C15C03.v.

   Reading guide.
   [params_match p c ae]: C15's parameter record [p] and C03's configuration [c] with the fork
     epoch [ae] held by the service describe the same chain: slots per epoch
     ([spe p] = [ct_spe (c_ct c)]), epochs per sync committee period ([epp p] = [c_period c]), Altair
     fork epoch ([fork p] = [ae]).  The current slot and the epoch argument are arguments of both
     models, and BOTH derive the current epoch from the current slot (cur / slots per epoch).
   [env_match p i e]: C15's input [i] of one call and C03's environment [e] describe the same
     surroundings: [e_vals e] (validating accounts are known) iff the call is handed a non-empty
     list of validator indices; the validators the node names for the period of the epoch asked for
     ([e_sync e], keyed by period) are those of the duties answer of [i] (none if the request fails).
   [si_accts i <> None]: the account manager answers.  C03 has no input for its failure
     ([C15_bridge_accounts_error_only_in_C15] shows the condition cannot be dropped).
   Names of C03 are qualified: C3 = Model.C03_Controller, S3 = Model.C03_Spec, CT = Model.C03_ChainTime. *)
From Coq Require Import List NArith ZArith Bool.
From Verif Require Import Lib.Base Model.C15_Sync Proofs.C15 Proofs.C15_Fire Proofs.Bridge_C15C03.
Import ListNotations.
Local Open Scope N_scope.

(* ------------------------------------------------------------------------------------------- *)
(* (1) firstEpochOfSyncPeriod: the same number for every period, wrap-around included. *)
Theorem C15_bridge_first_epoch_of_period :
  forall p c ae period,
    params_match p c ae -> first_epoch_of_period p period = C3.feosp c ae period.
Proof. exact first_epoch_agrees. Qed.
Print Assumptions C15_bridge_first_epoch_of_period.

(* (2) The window: first epoch (the epoch the duties are asked for), first slot, last slot — the
   same triple for ALL parameters, epoch arguments and clock positions, on the wrapped uint64
   arithmetic: no range condition, epoch 0, period 0, a fork epoch of 2^64-1 and zero divisors
   included.  (C15's fourth component, the subscription's until epoch, is outside C03's model; it is
   C03's last-epoch expression plus one.) *)
Theorem C15_bridge_window :
  forall p c ae epoch cur,
    params_match p c ae ->
    C3.sync_window c ae cur epoch =
      (w_first_epoch (window_of true p epoch cur), w_first (window_of true p epoch cur),
       w_last (window_of true p epoch cur))
    /\ w_until (window_of true p epoch cur) =
       add64 (sub64 (C3.feosp c ae (add64 (epoch / C3.c_period c) 1)) 1) 1
    /\ (forall lo hi, range lo hi = C3.slot_range lo hi).
Proof.
  intros p c ae epoch cur Hm. split; [|split].
  - exact (window_agrees p c ae epoch cur Hm).
  - exact (until_is_C03_last_epoch_plus_1 p c ae epoch cur Hm).
  - exact range_agrees.
Qed.
Print Assumptions C15_bridge_window.

(* On C15's range ([chain_ok], [in_range]) the triple is the specification's: C03's window is
   max(first epoch of the fork-clamped period, current epoch), max(period start - 1, now),
   period end - 2 in exact arithmetic (the counterpart of C03_sync_window_plain, by C15's proof). *)
Theorem C15_bridge_window_is_spec :
  forall p c ae epoch cur,
    params_match p c ae -> chain_ok p -> in_range p epoch cur ->
    C3.sync_window c ae cur epoch =
      (N.max (period_first_epoch p epoch) (cur / spe p), spec_first p epoch cur, spec_last p epoch).
Proof. exact sync_window_is_spec. Qed.
Print Assumptions C15_bridge_window_is_spec.

(* ------------------------------------------------------------------------------------------- *)
(* (3) The jobs.  What [sched_sync] adds to an empty table, seen from C03 alone: when the call is
   active, one job per slot of C15's [window_slots] — same slots, same order, the current slot
   left out when notCurrentSlot — named JSync; otherwise nothing. *)
Theorem C15_bridge_sched_sync_names :
  forall p c ae cur e epoch notcur,
    params_match p c ae ->
    map C3.j_name (C3.sched_sync c ae cur e epoch notcur []) =
      (if S3.sync_active c ae cur e epoch
       then map C3.JSync (window_slots true p epoch cur notcur) else [])
    /\ NoDup (map C3.j_name (C3.sched_sync c ae cur e epoch notcur [])).
Proof.
  intros p c ae cur e epoch notcur Hm. split.
  - exact (sched_sync_names p c ae cur e epoch notcur Hm).
  - exact (sched_sync_names_NoDup p c ae cur e epoch notcur Hm).
Qed.
Print Assumptions C15_bridge_sched_sync_names.

(* C15's "the call reaches the loop" is C03's "the scheduling happens at all". *)
Theorem C15_bridge_ready_is_active :
  forall p c ae i e,
    params_match p c ae -> env_match p i e -> si_accts i <> None ->
    (ready p i <-> S3.sync_active c ae (si_cur i) e (si_epoch i) = true).
Proof. exact ready_iff_active. Qed.
Print Assumptions C15_bridge_ready_is_active.

(* The two job tables of one call: the slots of C15's prepare jobs are the JSync names of C03's
   table, in the same order; every C15 job is a prepare job; C15's "the schedule holds the prepare
   job of slot s" is C03's JobExists. *)
Theorem C15_bridge_schedule_names :
  forall p c ae i e,
    params_match p c ae -> env_match p i e -> si_accts i <> None ->
    map sync_name (so_jobs (schedule p i)) =
      map C3.j_name (C3.sched_sync c ae (si_cur i) e (si_epoch i) (si_notcur i) [])
    /\ (forall j, In j (so_jobs (schedule p i)) ->
                  fst (fst j) = JPrepare /\ snd j = prepare_time p (snd (fst j)))
    /\ (forall s, has_prepare (so_jobs (schedule p i)) s =
                  C3.texists (C3.sched_sync c ae (si_cur i) e (si_epoch i) (si_notcur i) []) (C3.JSync s)).
Proof.
  intros p c ae i e Hm He Ha. split; [|split].
  - exact (schedule_names_agree p c ae i e Hm He Ha).
  - exact (schedule_jobs_are_prepare p i).
  - intro s. exact (has_prepare_is_texists p c ae i e s Hm He Ha).
Qed.
Print Assumptions C15_bridge_schedule_names.

(* The whole table, payloads included: C03's table is the image of C15's, the prepare job of slot s
   becoming the job JSync s, at C03's time for s, for the validators C15's chain works with (the keys
   of messageIndices, ascending) ... *)
Theorem C15_bridge_table_is_image :
  forall p c ae i e,
    params_match p c ae -> env_match p i e -> si_accts i <> None ->
    C3.sched_sync c ae (si_cur i) e (si_epoch i) (si_notcur i) [] =
    map (sync_job_of c i) (so_jobs (schedule p i)).
Proof. exact sched_sync_is_schedule_image. Qed.
Print Assumptions C15_bridge_table_is_image.

(* ... and at C15's own job times (after genesis), as long as the start of every scheduled slot fits
   an int64 number of nanoseconds: C03 models chaintime's wrapping Duration product, C15 counts
   exactly. *)
Theorem C15_bridge_table_is_image_with_times_partial :
  forall p c ae i e,
    params_match p c ae -> env_match p i e -> si_accts i <> None ->
    slot_ns p = CT.ct_dur (C3.c_ct c) -> (0 < CT.ct_dur (C3.c_ct c))%Z ->
    (forall j, In j (so_jobs (schedule p i)) ->
               (Z.of_N (snd (fst j)) * CT.ct_dur (C3.c_ct c) < CT.two63z)%Z) ->
    C3.sched_sync c ae (si_cur i) e (si_epoch i) (si_notcur i) [] =
    map (sync_job_of_exact c i) (so_jobs (schedule p i)).
Proof. exact sched_sync_is_schedule_image_exact. Qed.
Print Assumptions C15_bridge_table_is_image_with_times_partial.

Theorem C15_bridge_job_time :
  forall p c s,
    slot_ns p = CT.ct_dur (C3.c_ct c) -> (0 < CT.ct_dur (C3.c_ct c))%Z ->
    (Z.of_N s * CT.ct_dur (C3.c_ct c) < CT.two63z)%Z ->
    C3.sync_time c s = (CT.ct_genesis (C3.c_ct c) + prepare_time p s)%Z.
Proof. exact job_time_agrees. Qed.
Print Assumptions C15_bridge_job_time.

(* the bound is needed: from 2^63 ns after genesis on the two times differ (C03 follows the code) *)
Theorem C15_bridge_job_time_refuted_beyond_int64 :
  exists p c s, slot_ns p = CT.ct_dur (C3.c_ct c) /\ (0 < CT.ct_dur (C3.c_ct c))%Z /\
    C3.sync_time c s <> (CT.ct_genesis (C3.c_ct c) + prepare_time p s)%Z.
Proof. exact job_times_differ_beyond_int64. Qed.
Print Assumptions C15_bridge_job_time_refuted_beyond_int64.

(* the validators of the payload *)
Theorem C15_bridge_payload :
  forall i,
    map fst (members i) = sort_by (fun v : N => v) (C3.dedup (duty_validators i))
    /\ S3.sync_pay (duty_validators i) = map (fun m : duty => (fst m, 0, 0)) (members i).
Proof. intro i. split; [exact (members_validators i) | exact (payload_agrees i)]. Qed.
Print Assumptions C15_bridge_payload.

(* [si_accts i <> None] cannot be dropped: with a failing account manager the code returns before
   the loop (C15: no job); C03's model has no such input and schedules. *)
Theorem C15_bridge_accounts_error_only_in_C15 :
  exists p c ae i e,
    params_match p c ae /\ env_match p i e /\ si_accts i = None /\
    so_jobs (schedule p i) = [] /\
    C3.sched_sync c ae (si_cur i) e (si_epoch i) (si_notcur i) [] <> [].
Proof. exact accounts_error_only_in_C15. Qed.
Print Assumptions C15_bridge_accounts_error_only_in_C15.

(* ------------------------------------------------------------------------------------------- *)
(* (4) Theorems carried over.

   C15 -> C03.  C15_window on C03's [sched_sync], for any job table: afterwards the sync job of slot
   s is listed iff it was listed before, or the call is active and s is one of the slots
   max(first-1, now) .. last-1 of the fork-clamped period of [epoch] (not the current slot when
   notCurrentSlot): every slot of the period from the present on gets its job, and no other. *)
Theorem C15_bridge_every_slot_gets_C03_job :
  forall p c ae cur e epoch notcur t s,
    params_match p c ae -> chain_ok p -> in_range p epoch cur ->
    (C3.texists (C3.sched_sync c ae cur e epoch notcur t) (C3.JSync s) = true <->
     C3.texists t (C3.JSync s) = true \/
     (S3.sync_active c ae cur e epoch = true
      /\ spec_first p epoch cur <= s <= spec_last p epoch /\ (notcur = true -> s <> cur))).
Proof. exact sched_sync_covers_spec_window. Qed.
Print Assumptions C15_bridge_every_slot_gets_C03_job.

(* C03 -> C15.  C03_restart_schedules_sync_period with C15's exact arithmetic: a (re)start leaves
   a sync job for every slot of the specification's window of the current period ... *)
Theorem C15_bridge_restart_covers_spec_window :
  forall shadowed p c st ae s,
    C3.altair_details shadowed c = (true, ae) -> params_match p c ae ->
    let cur := C3.st_cur st in
    let this := C3.feosp c ae (C3.cur_epoch c cur / C3.c_period c) in
    chain_ok p -> in_range p this cur ->
    S3.sync_active c ae cur (C3.st_env st) this = true ->
    spec_first p this cur <= s <= spec_last p this -> s <> cur ->
    C3.texists (C3.st_jobs (C3.start shadowed c st)) (C3.JSync s) = true.
Proof. exact restart_covers_spec_window. Qed.
Print Assumptions C15_bridge_restart_covers_spec_window.

(* ... which, for the period the clock is in (P = current epoch / epochs per period), is: every
   later slot of the current sync committee period except its last one. *)
Theorem C15_bridge_restart_covers_rest_of_period :
  forall shadowed p c st ae s,
    C3.altair_details shadowed c = (true, ae) -> params_match p c ae ->
    let cur := C3.st_cur st in
    let P := cur / spe p / epp p in
    let this := C3.feosp c ae (C3.cur_epoch c cur / C3.c_period c) in
    chain_ok p -> cur < two64 -> (P + 1) * epp p * spe p < two64 ->
    S3.sync_active c ae cur (C3.st_env st) this = true ->
    cur < s <= (P + 1) * epp p * spe p - 2 ->
    C3.texists (C3.st_jobs (C3.start shadowed c st)) (C3.JSync s) = true.
Proof. exact restart_covers_rest_of_period. Qed.
Print Assumptions C15_bridge_restart_covers_rest_of_period.

(* C03 + C15 composed.  The job C03 lists does what C15 proves: if the table [sched_sync] builds
   holds the sync job of the fired slot then — unless a step fails for the whole batch — the payload
   handed to SubmitSyncCommitteeMessages holds exactly one message per validator with a duty, an
   account and a non-zero signature (the conclusion of C15_message_every_slot; C03's JobExists in
   place of C15's "ready" and "in the window"); and without that job nothing happens at all. *)
Theorem C15_bridge_message_for_C03_job :
  forall p c ae i e f r,
    params_match p c ae -> env_match p i e -> si_accts i <> None ->
    chain_ok p -> in_range p (si_epoch i) (si_cur i) ->
    C3.texists (C3.sched_sync c ae (si_cur i) e (si_epoch i) (si_notcur i) []) (C3.JSync (f_slot f)) = true ->
    f_root f = Some r -> f_sel_err f = false -> f_root_err f = false ->
    let out := fire_scheduled p i f in
    (forall s' r' v x,
       In (s', r', v, x) (opt_list (o_submitted out)) <->
       s' = f_slot f /\ r' = r /\ has_duty i v /\ holds_account i v /\ ~ In v (f_root_zero f)
       /\ x = SgRoot v (f_slot f / spe p) r)
    /\ NoDup (map msg_validator (opt_list (o_submitted out)))
    /\ o_msg_job out = Some (message_time p (f_slot f)).
Proof. exact message_for_C03_job. Qed.
Print Assumptions C15_bridge_message_for_C03_job.

Theorem C15_bridge_nothing_without_C03_job :
  forall p c ae i e f,
    params_match p c ae -> env_match p i e -> si_accts i <> None ->
    C3.texists (C3.sched_sync c ae (si_cur i) e (si_epoch i) (si_notcur i) []) (C3.JSync (f_slot f)) = false ->
    fire_scheduled p i f = no_fire.
Proof. exact nothing_without_C03_job. Qed.
Print Assumptions C15_bridge_nothing_without_C03_job.

(* On any table that does not list the name yet, the job [sched_sync] adds for a slot of C15's list is
   the image of C15's prepare job for that slot, for C15's members. *)
Theorem C15_bridge_sched_sync_adds_C15_job :
  forall p c ae i e t s,
    params_match p c ae -> env_match p i e -> si_accts i <> None ->
    S3.sync_active c ae (si_cur i) e (si_epoch i) = true ->
    C3.tget t (C3.JSync s) = None ->
    In s (window_slots true p (si_epoch i) (si_cur i) (si_notcur i)) ->
    C3.tget (C3.sched_sync c ae (si_cur i) e (si_epoch i) (si_notcur i) t) (C3.JSync s) =
    Some (sync_job_of c i (JPrepare, s, prepare_time p s)).
Proof. exact sched_sync_tget_new. Qed.
Print Assumptions C15_bridge_sched_sync_adds_C15_job.

(* End to end, across the seam between the two properties (the call sites of
   scheduleSyncCommitteeMessages are C03's, what the jobs do is C15's).  [i] is C15's reading of the
   call that [start] makes for the current period: same epoch argument, same clock, notCurrentSlot,
   the duties answer that the environment holds for the period.  After a (re)start in slot [cur] of
   an active chain, for every later slot of the current sync committee period except its last:
   the job table — whatever else [start] scheduled — holds under the name JSync s exactly the image of
   C15's prepare job for s with C15's members; and when the jobs of that slot run, unless a step
   fails for the whole batch, exactly one message per validator with a duty, an account and a non-zero
   signature is handed to the submitter. *)
Theorem C15_bridge_restart_then_message :
  forall shadowed p c st ae i f r,
    C3.altair_details shadowed c = (true, ae) -> params_match p c ae ->
    let cur := C3.st_cur st in
    let P := cur / spe p / epp p in
    let this := C3.feosp c ae (C3.cur_epoch c cur / C3.c_period c) in
    env_match p i (C3.st_env st) -> si_epoch i = this -> si_cur i = cur -> si_notcur i = true ->
    si_accts i <> None ->
    chain_ok p -> cur < two64 -> (P + 1) * epp p * spe p < two64 ->
    S3.sync_active c ae cur (C3.st_env st) this = true ->
    cur < f_slot f <= (P + 1) * epp p * spe p - 2 ->
    f_root f = Some r -> f_sel_err f = false -> f_root_err f = false ->
    C3.tget (C3.st_jobs (C3.start shadowed c st)) (C3.JSync (f_slot f)) =
      Some (sync_job_of c i (JPrepare, f_slot f, prepare_time p (f_slot f)))
    /\ let out := fire_scheduled p i f in
       (forall s' r' v x,
          In (s', r', v, x) (opt_list (o_submitted out)) <->
          s' = f_slot f /\ r' = r /\ has_duty i v /\ holds_account i v /\ ~ In v (f_root_zero f)
          /\ x = SgRoot v (f_slot f / spe p) r)
       /\ NoDup (map msg_validator (opt_list (o_submitted out)))
       /\ o_msg_job out = Some (message_time p (f_slot f)).
Proof. exact restart_then_message. Qed.
Print Assumptions C15_bridge_restart_then_message.

(* ------------------------------------------------------------------------------------------- *)
(* Non-vacuity. *)

(* the relations are inhabited in both directions: every C03 configuration has a matching C15
   parameter record, every C15 record a matching configuration, every C15 input a matching
   environment *)
Example C15_bridge_relations_inhabited :
  (forall c ae, exists p, params_match p c ae) /\
  (forall p, exists c, params_match p c (fork p)) /\
  (forall p i, exists e, env_match p i e).
Proof.
  split; [|split].
  - intros c ae. exists (params_of_config c ae 0 0 0 0 0). apply params_of_config_match.
  - intros p. exists (config_of_params p 0 0 0 false None false). apply config_of_params_match.
  - intros p i. exists (env_of_input p i). apply env_of_input_match.
Qed.

(* a call in the middle of a period (8 epochs of 4 slots, fork at epoch 2; clock at slot 41 of
   period 1, notCurrentSlot): both models schedule slots 42..62, C03's jobs carry the sorted
   validators 3, 7 *)
Definition ex_p : params :=
  {| spe := 4; epp := 8; fork := 2; slot_ns := 12000000000; msg_delay := 4000000000;
     agg_delay := 8000000000; csize := 8; subnets := 4; target := 1 |}.
Definition ex_i : sched_in :=
  {| si_epoch := 8; si_cur := 41; si_notcur := true; si_indices := [7; 3];
     si_duties := Some [(7, [0; 5]); (3, [2]); (7, [1])]; si_accts := Some [3; 7] |}.
Definition ex_c : C3.config := config_of_params ex_p 1606824023000000000 4000000000 0 false (Some 2) true.

Example C15_bridge_example :
  params_match ex_p ex_c 2 /\ env_match ex_p ex_i (env_of_input ex_p ex_i) /\
  map (fun j => snd (fst j)) (so_jobs (schedule ex_p ex_i)) = range 42 62 /\
  map C3.j_name (C3.sched_sync ex_c 2 41 (env_of_input ex_p ex_i) 8 true []) = map C3.JSync (range 42 62) /\
  map C3.j_pay (C3.sched_sync ex_c 2 41 (env_of_input ex_p ex_i) 8 true []) =
    map (fun _ => [(3, 0, 0); (7, 0, 0)]) (range 42 62) /\
  C3.sync_window ex_c 2 41 8 = (10, 41, 62).
Proof.
  split; [apply (config_of_params_match ex_p)|]. split; [apply env_of_input_match|].
  vm_compute. repeat split; reflexivity.
Qed.

(* the hypotheses of the end-to-end theorem are satisfiable: the controller of the example, restarted
   in slot 41, holds after the start the job JSync 50 for the validators 3 and 7 *)
Definition ex_st : C3.state := C3.set_env (C3.set_cur (C3.init_state true 2) 41) (env_of_input ex_p ex_i).

Example C15_bridge_restart_example :
  C3.altair_details false ex_c = (true, 2) /\
  C3.feosp ex_c 2 (C3.cur_epoch ex_c 41 / C3.c_period ex_c) = si_epoch ex_i /\
  S3.sync_active ex_c 2 41 (C3.st_env ex_st) 8 = true /\
  option_map C3.j_pay (C3.tget (C3.st_jobs (C3.start false ex_c ex_st)) (C3.JSync 50)) = Some [(3, 0, 0); (7, 0, 0)] /\
  C3.tget (C3.st_jobs (C3.start false ex_c ex_st)) (C3.JSync 50) =
    Some (sync_job_of ex_c ex_i (JPrepare, 50, prepare_time ex_p 50)).
Proof. vm_compute. repeat split; reflexivity. Qed.
