(* C15: the call sites of scheduleSyncCommitteeMessages (services/controller/standard/service.go:
   New, epochTicker, handleAltairForkEpoch), Model/C15_Sites.v.  Theorems only; lemmas in
   Proofs/C15_Sites.v.

   Who messages in a period is decided by the validator indices a call site hands over: the sync
   committee ELIGIBLE validators (active, or exited and not yet withdrawable), never the active
   ones alone.  A validator drawn into the next committee that exits before the ticker prepares the
   next period still owes a message in every slot of it. *)
From Coq Require Import List NArith ZArith Bool.
From Verif Require Import Lib.Base Lib.JobTab Model.C15_Sync Model.C15_Hist Model.C15_Sites
  Proofs.C15 Proofs.C15_Hist Proofs.C15_Sites.
Import ListNotations.
Local Open Scope N_scope.

(* C15_sites_hand_over_eligible_indices.  Every operation a site contributes to the history is a
   call of scheduleSyncCommitteeMessages in the surroundings the site was given (clock, node's
   answer, accounts), made for exactly the indices syncCommitteeIndicesForEpoch returned at the
   site -- or not made at all.  No site substitutes another list. *)
Theorem C15_sites_hand_over_eligible_indices :
  forall p s o, In o (site_hops p s) ->
    match s with
    | SOp o' => o = o'
    | STick i => call_of i o
    | SFork i1 i2 | SStart i1 i2 => call_of i1 o \/ call_of i2 o
    end.
Proof. exact sites_hand_over_eligible_indices. Qed.
Print Assumptions C15_sites_hand_over_eligible_indices.

(* C15_tick_prepares_next_period.  On a chain whose period has at least five epochs the ticker
   makes its call exactly in the epoch five before a period boundary, for the first epoch of the
   NEXT period, with notCurrentSlot false; in every other epoch it makes none.  (With fewer than
   five epochs per period [epp - 5] wraps and the ticker never prepares a period: no preset is
   near this; minimal has 8.) *)
Theorem C15_tick_prepares_next_period :
  forall p i, 5 <= epp p -> si_cur i / spe p + 5 < two64 ->
    let ce := si_cur i / spe p in
    site_tick p i = if ce mod epp p =? epp p - 5
                    then [call i ((ce / epp p + 1) * epp p) false]
                    else [no_call i].
Proof. exact tick_next_period. Qed.
Print Assumptions C15_tick_prepares_next_period.

(* C15_tick_member_messages.  When the ticker makes its call, every slot the call schedules does,
   after ANY further history that leaves the slot alone, exactly what [fire_scheduled] does for the
   call's input -- whose indices are the eligible validators: C15_message_every_slot then gives a
   message for every member among them that has an account and a signature, exited or not. *)
Theorem C15_tick_member_messages :
  forall p t i i' ops f,
    chain_ok p ->
    site_tick p i = [HSched i'] ->
    tab_get t (f_slot f) = None -> In (f_slot f) (sched_slots p i') ->
    Forall (keeps p (f_slot f)) ops ->
    let t' := hfinal p (fst (hstep p t (HSched i'))) ops in
    snd (hstep p t' (HFire f)) = Some (fire_scheduled p i' f).
Proof.
  intros p t i i' ops f Hc _ Ht Hin Hk.
  exact (proj1 (history_message_every_slot p t i' ops f Hc Ht Hin Hk)).
Qed.
Print Assumptions C15_tick_member_messages.

(* C15_tick_active_only_refuted.  The ticker handing over the ACTIVE validators instead: chain of
   4 slots per epoch and 8 epochs per period, clock at the first slot of epoch 3 (five epochs
   before period 1); validators 5 and 7 are held and are members of the next committee, 7 has
   exited.  The code's site schedules slots 31..62 for both and slot 40 carries both messages; the
   other site schedules the same slots, and validator 7 never messages. *)
Definition sx_p : params :=
  {| spe := 4; epp := 8; fork := 0; slot_ns := 12000000000; msg_delay := 4000000000;
     agg_delay := 8000000000; csize := 32; subnets := 4; target := 2 |}.
Definition sx_i : sched_in :=
  {| si_epoch := 0; si_cur := 12; si_notcur := false; si_indices := [5; 7];
     si_duties := Some [(5, [9]); (7, [30])]; si_accts := Some [5; 7] |}.
Definition sx_f : fire_in :=
  {| f_slot := 40; f_root := Some 12; f_slot_root := None; f_sel_slow := false; f_sel_err := false; f_sel_zero := [];
     f_hash8 := []; f_root_err := false; f_root_zero := [];
     f_submit_err := false; f_contrib_err := []; f_cp_err := false |}.

Theorem C15_tick_active_only_refuted :
  option_map o_submitted (snd (hstep sx_p (hfinal sx_p [] (site_tick sx_p sx_i)) (HFire sx_f)))
    = Some (Some [(40, 12, 5, SgRoot 5 10 12); (40, 12, 7, SgRoot 7 10 12)])
  /\ option_map o_submitted (snd (hstep sx_p (hfinal sx_p [] (site_tick_active sx_p [5] sx_i)) (HFire sx_f)))
    = Some (Some [(40, 12, 5, SgRoot 5 10 12)])
  /\ map fst (hfinal sx_p [] (site_tick sx_p sx_i)) = map fst (hfinal sx_p [] (site_tick_active sx_p [5] sx_i)).
Proof. split; [|split]; vm_compute; reflexivity. Qed.
Print Assumptions C15_tick_active_only_refuted.
