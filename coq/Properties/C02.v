(* C02 -- a scheduled job runs exactly once, whoever starts it.  Property theorems only.

   The job machine (Model/C02_Scheduler.v) has 17 kinds of action: the goroutine's steps, the steps
   of a RunJob and of a CancelJob call, and the environment (timer expiry, parent-context
   cancellation, jobFunc returning, runtimeFunc outcomes, further RunJob/CancelJob calls arriving,
   deletion of the name by another goroutine).  A schedule is ANY list of actions, of any length;
   actions that are not enabled are skipped.  Every theorem quantifies over all schedules: that is
   all interleavings of timer expiry, run-now requests (one or several), cancellation,
   parent-context cancellation and completion, at any relative timing.  The proofs are reflective
   reachability closures (Lib/Reach.v): a finite state set is checked closed under all actions by
   vm_compute (376 states for a one-off job, 10958 for a periodic one) and [closed_run] lifts that
   to schedules of unbounded length.

   cfF = one-off job with the repaired timer branch (the code after the fix: commit),
   cfU = one-off job as found in the pinned tree, cfP = periodic job. *)
From Verif Require Import Lib.Base Lib.Sched Lib.Reach Model.C02_Scheduler Model.C02_Script Proofs.C02 Proofs.C02_Script Proofs.C02_ScriptExact Proofs.C02_ScriptMore Proofs.C02_ScriptCancel.
From Verif Require Import Model.C02_TableOps Check.C02 Proofs.C02_Check.
From Verif Require Import Proofs.C02_Exit.

(* never twice: under every schedule jobFunc of a one-off job is called at most once, and at most
   one call is in progress; no send on / close of a closed channel ever happens.  Holds for the
   repaired code AND for the tree as found. *)
Theorem C02_at_most_once :
  forall cf, cf = cfF \/ cf = cfU ->
  forall sch, let s := run (step cf) sch (init cf) in
    runs s <= 1 /\ running s <= 1 /\ panicked s = false.
Proof.
  intros cf [-> | ->] sch s; subst s.
  - pose proof (always cfF R_F p_safe R_F_closed safe_F _ R_F_init sch) as H.
    unfold p_safe in H; apply andb_prop in H as [H H3]; apply andb_prop in H as [H1 H2].
    apply N.leb_le in H1, H2. apply negb_true_iff in H3. auto.
  - pose proof (always cfU R_U p_safe R_U_closed safe_U _ R_U_init sch) as H.
    unfold p_safe in H; apply andb_prop in H as [H H3]; apply andb_prop in H as [H1 H2].
    apply N.leb_le in H1, H2. apply negb_true_iff in H3. auto.
Qed.
Print Assumptions C02_at_most_once.

(* exactly once, never silently dropped (repaired code): whenever nothing more can happen without
   a new external event (quiescent), no CancelJob has reported success, the parent context is
   alive, and the timer has expired or a RunJob has reported success, the job has run exactly once *)
Theorem C02_exactly_once :
  forall sch, let s := run (step cfF) sch (init cfF) in
    quiescent cfF s = true -> cancel_ok s = false -> ctx_done s = false ->
    (timer_due s = true \/ run_ok s = true) ->
    runs s = 1.
Proof.
  intros sch s Hq Hc Hx Hd; subst s.
  pose proof (always cfF R_F p_exactly R_F_closed exactly_F _ R_F_init sch) as H.
  unfold p_exactly in H. rewrite Hq, Hc, Hx in H. cbn [negb andb] in H.
  destruct Hd as [Hd | Hd]; rewrite Hd in H; cbn in H;
    [| rewrite orb_true_r in H; cbn in H]; apply N.eqb_eq in H; exact H.
Qed.
Print Assumptions C02_exactly_once.

(* "an early-run request that reports success means the job runs": no assumption on cancellation
   requests at all (a one-off job is claimed by at most one external call) *)
Theorem C02_run_success_runs :
  forall sch, let s := run (step cfF) sch (init cfF) in
    quiescent cfF s = true -> run_ok s = true -> ctx_done s = false -> runs s = 1.
Proof.
  intros sch s Hq Hr Hx; subst s.
  pose proof (always cfF R_F p_run_ok R_F_closed run_ok_F _ R_F_init sch) as H.
  unfold p_run_ok in H. rewrite Hq, Hr, Hx in H. cbn in H. apply N.eqb_eq in H; exact H.
Qed.
Print Assumptions C02_run_success_runs.

(* the statement above is FALSE of the tree as found: RunJob reports success, nobody cancels, the
   timer expires, everything comes to rest, and the job has not run (and is never finalised) *)
Theorem C02_exactly_once_refuted_on_pinned_tree :
  exists sch, let s := run (step cfU) sch (init cfU) in
    quiescent cfU s = true /\ run_ok s = true /\ cancel_ok s = false /\ ctx_done s = false
    /\ timer_due s = true /\ runs s = 0 /\ g_pc s = GDone /\ finalised s = false.
Proof. exists drop_schedule. exact pinned_drops. Qed.
Print Assumptions C02_exactly_once_refuted_on_pinned_tree.

(* progress: from every reachable state, a continuation made of thread steps only (no new
   external event) takes at most [measure s <= 17] effective steps, however long it is -- so
   quiescence is reached; and at quiescence no call is left blocked, the lock is free, jobFunc is
   not running, and the goroutine has returned or still waits in its select *)
Theorem C02_progress :
  forall cf, cf = cfF \/ cf = cfU ->
  forall sch1 sch2, forallb thread_act sch2 = true ->
    let s := run (step cf) sch1 (init cf) in
    (taken (step cf) sch2 s <= 17)%nat /\
    (quiescent cf (run (step cf) sch2 s) = true ->
       let s' := run (step cf) sch2 s in
       r_idle s' = true /\ c_idle s' = true /\ g_idle s' = true /\ running s' = 0 /\ lock_free s' = true).
Proof.
  intros cf Hcf sch1 sch2 Hth s.
  assert (Hgen : exists L, closedb cf L = true /\ forall_steps (step cf) all_acts p_decr L = true
                           /\ forallb (p_nostuck cf) L = true /\ In (init cf) L).
  { destruct Hcf as [-> | ->].
    - exists R_F; split; [exact R_F_closed | split; [exact decr_F | split; [exact nostuck_F | exact R_F_init]]].
    - exists R_U; split; [exact R_U_closed | split; [exact decr_U | split; [exact nostuck_U | exact R_U_init]]]. }
  destruct Hgen as [L [Hc [Hd [Hn H0]]]].
  assert (Hs : In s L) by (apply stays; assumption).
  split.
  - pose proof (progress_gen cf L Hc Hd s Hs sch2 Hth) as H. pose proof (measure_le_17 s). lia.
  - intros Hq s'.
    assert (Hs' : In s' L) by (apply stays; assumption).
    rewrite forallb_forall in Hn. specialize (Hn s' Hs'). unfold p_nostuck in Hn.
    fold s' in Hq. rewrite Hq in Hn. cbn in Hn.
    apply andb_prop in Hn as [Hn H4]; apply andb_prop in Hn as [Hn H3]; apply andb_prop in Hn as [H1 H2].
    apply N.eqb_eq in H4. repeat split; try assumption.
    unfold lock_free. unfold r_idle in H1; unfold c_idle in H2.
    destruct (r_pc s'); try discriminate H1; destruct (c_pc s'); try discriminate H2; reflexivity.
Qed.
Print Assumptions C02_progress.

(* cancelled clearly before its time: once the system has come to rest with a CancelJob that
   reported success and the timer not yet expired, NO continuation (timer expiry, further run
   requests, anything) ever runs the job *)
Theorem C02_cancel_before_due :
  forall sch1, let s := run (step cfF) sch1 (init cfF) in
    quiescent cfF s = true -> cancel_ok s = true -> timer_due s = false ->
    forall sch2, runs (run (step cfF) sch2 s) = 0.
Proof.
  intros sch1 s Hq Hc Ht sch2.
  assert (Hs : In s R_cbd).
  { apply (from_start p_cbd R_cbd R_cbd_start s (reach_F sch1)).
    unfold p_cbd. fold s. rewrite Hq, Hc, Ht; reflexivity. }
  pose proof (always cfF R_cbd (fun s => runs s =? 0) R_cbd_closed R_cbd_norun s Hs sch2) as H.
  apply N.eqb_eq in H; exact H.
Qed.
Print Assumptions C02_cancel_before_due.

(* the same for the parent context: cancelled while the system is at rest, before the timer and
   before any run request claimed the job *)
Theorem C02_ctx_cancel_before_due :
  forall sch1, let s := run (step cfF) sch1 (init cfF) in
    quiescent cfF s = true -> ctx_done s = true -> timer_due s = false -> r_pc s = RNone -> runs s = 0 ->
    forall sch2, runs (run (step cfF) sch2 s) = 0.
Proof.
  intros sch1 s Hq Hc Ht Hr Hn sch2.
  assert (Hs : In s R_xbd).
  { apply (from_start p_xbd R_xbd R_xbd_start s (reach_F sch1)).
    unfold p_xbd. fold s. rewrite Hq, Hc, Ht, Hr, Hn; reflexivity. }
  pose proof (always cfF R_xbd (fun s => runs s =? 0) R_xbd_closed R_xbd_norun s Hs sch2) as H.
  apply N.eqb_eq in H; exact H.
Qed.
Print Assumptions C02_ctx_cancel_before_due.

(* a periodic job never overlaps itself (any number of RunJob calls, any timing), and never
   panics on its channels *)
Theorem C02_periodic_no_overlap :
  forall v sch, let cf := {| k_kind := Periodic; k_variant := v |} in
    let s := run (step cf) sch (init cf) in running s <= 1 /\ panicked s = false.
Proof.
  intros v sch cf s; subst s cf. rewrite periodic_run_variant.
  change (init {| k_kind := Periodic; k_variant := v |}) with (init cfP).
  pose proof (always cfP R_P p_safe_P R_P_closed safe_P _ R_P_init sch) as H.
  unfold p_safe_P in H; apply andb_prop in H as [H1 H2].
  apply N.leb_le in H1. apply negb_true_iff in H2. auto.
Qed.
Print Assumptions C02_periodic_no_overlap.

(* a periodic job keeps ticking after an early run.  In every reachable state:
   (1) if jobFunc is executing in the run branch, then when it returns the goroutine clears
       [active], calls runtimeFunc and is back in its select with a fresh timer;
   (2) whenever the goroutine waits in its select with no run request in flight, [active] is
       clear -- and (3) a timer expiry that finds [active] clear calls jobFunc;
   (4) the goroutine returns only through the ctx branch, the cancel branch or a runtimeFunc
       error (never after an early run). *)
Theorem C02_periodic_keeps_ticking :
  forall sch, let s := run (step cfP) sch (init cfP) in
    (g_pc s = GRunBusy ->
       exists s1 s2 s3, step cfP s JobReturn = Some s1 /\ step cfP s1 GStep = Some s2
                        /\ g_pc s2 = GRt /\ active s2 = false
                        /\ step cfP s2 (GRtOut RtNext) = Some s3 /\ g_pc s3 = GSel /\ timer_due s3 = false)
    /\ (g_pc s = GSel -> r_idle s = true -> runq s = false -> active s = false)
    /\ (g_pc s = GTimChk -> active s = false ->
          exists s1 s2 s3, step cfP s GStep = Some s1 /\ step cfP s1 GStep = Some s2
                           /\ step cfP s2 GStep = Some s3 /\ g_pc s3 = GTimBusy /\ running s3 = 1)
    /\ (forall a s', step cfP s a = Some s' -> g_pc s' = GDone ->
          g_pc s = GDone \/ g_pc s = GCtxFin \/ g_pc s = GCanFin \/ g_pc s = GEndFin).
Proof.
  intros sch s. pose proof (reach_P sch) as Hs. fold s in Hs.
  assert (gpc_eqb_true : forall a b, gpc_eqb a b = true <-> a = b).
  { intros a b; unfold gpc_eqb; rewrite N.eqb_eq; split; [apply gpc_n_inj | intros ->; reflexivity]. }
  repeat split.
  - intro Hg. pose proof loop_P as H. rewrite forallb_forall in H. specialize (H s Hs).
    unfold p_loop in H. rewrite Hg in H. cbn [gpc_eqb gpc_n N.eqb Pos.eqb negb orb] in H.
    destruct (step cfP s JobReturn) as [s1|] eqn:E1; [|discriminate H].
    destruct (step cfP s1 GStep) as [s2|] eqn:E2; [|discriminate H].
    destruct (step cfP s2 (GRtOut RtNext)) as [s3|] eqn:E3; [|rewrite andb_false_r in H; discriminate H].
    apply andb_prop in H as [H H3]; apply andb_prop in H as [H1 H2]; apply andb_prop in H3 as [H3 H4].
    apply gpc_eqb_true in H1, H3. apply negb_true_iff in H2, H4.
    exists s1, s2, s3. repeat split; assumption.
  - intros Hg Hr Hq. pose proof tick_P as H. rewrite forallb_forall in H. specialize (H s Hs).
    unfold p_tick in H. rewrite Hg, Hr, Hq in H. cbn in H. apply negb_true_iff in H; exact H.
  - intros Hg Ha. pose proof timer_runs_P as H. rewrite forallb_forall in H. specialize (H s Hs).
    unfold p_timer_runs in H. rewrite Hg, Ha in H. cbn [gpc_eqb gpc_n N.eqb Pos.eqb negb andb orb] in H.
    destruct (step cfP s GStep) as [s1|] eqn:E1; [|discriminate H].
    destruct (step cfP s1 GStep) as [s2|] eqn:E2; [|discriminate H].
    destruct (step cfP s2 GStep) as [s3|] eqn:E3; [|discriminate H].
    apply andb_prop in H as [H1 H2]. apply gpc_eqb_true in H1. apply N.eqb_eq in H2.
    exists s1, s2, s3. repeat split; assumption.
  - intros a s' Hst Hd.
    pose proof (forall_steps_spec (step cfP) all_acts p_exit R_P exit_P s a s' Hs (all_acts_complete a) Hst) as H.
    unfold p_exit in H. rewrite Hd in H. cbn [gpc_eqb gpc_n N.eqb Pos.eqb negb orb] in H.
    repeat (apply orb_prop in H as [H | H]); apply gpc_eqb_true in H; auto.
Qed.
Print Assumptions C02_periodic_keeps_ticking.

(* a finished job's name can be scheduled again.  Job level: a one-off job that has started (a
   fortiori finished), or whose goroutine has returned, no longer occupies its name -- in the
   repaired code and in the tree as found; a periodic job whose goroutine has returned neither.
   Table level: a name that is not in the table is accepted and then maps to the new job. *)
Theorem C02_name_reusable :
  (forall cf, cf = cfF \/ cf = cfU ->
   forall sch, let s := run (step cf) sch (init cf) in
     (1 <= runs s \/ g_pc s = GDone) -> in_table s = false)
  /\ (forall sch, let s := run (step cfP) sch (init cfP) in g_pc s = GDone -> in_table s = false)
  /\ (forall t n j, t_exists t n = false ->
        t_schedule t n j = ((n, j) :: t, Nil) /\ t_get (fst (t_schedule t n j)) n = Some j)
  /\ (forall t n, t_exists (t_del t n) n = false)
  /\ (forall t n, t_exists (fst (t_run t n false)) n = false)
  /\ (forall t n, t_exists (fst (t_cancel t n)) n = false).
Proof.
  split; [|split; [|split; [exact fresh_accepted | split; [exact deleted_is_free | split; [exact run_claims_once | exact cancel_claims_once]]]]].
  - intros cf Hcf sch s Hor.
    assert (H : p_name_free s = true).
    { destruct Hcf as [-> | ->]; subst s.
      - exact (always cfF R_F p_name_free R_F_closed name_free_F _ R_F_init sch).
      - exact (always cfU R_U p_name_free R_U_closed name_free_U _ R_U_init sch). }
    unfold p_name_free in H.
    assert (Hb : ((1 <=? runs s) || gpc_eqb (g_pc s) GDone) = true).
    { destruct Hor as [Hr | Hg]; [apply N.leb_le in Hr; rewrite Hr; reflexivity | rewrite Hg; apply orb_true_r]. }
    rewrite Hb in H. cbn in H. apply negb_true_iff in H; exact H.
  - intros sch s Hg. subst s.
    pose proof (always cfP R_P p_name_free_P R_P_closed name_free_P _ R_P_init sch) as H.
    unfold p_name_free_P in H. rewrite Hg in H. cbn in H. apply negb_true_iff in H; exact H.
Qed.
Print Assumptions C02_name_reusable.

(* ... and a name that is in the table is refused, the table unchanged *)
Theorem C02_duplicate_rejected :
  forall t n j, t_exists t n = true -> t_schedule t n j = (t, ErrJobAlreadyExists).
Proof. exact duplicate_rejected. Qed.
Print Assumptions C02_duplicate_rejected.

(* a re-scheduled name stays listed (repaired removeJob): when the goroutine of an earlier job j1
   of the name leaves, a newer job j2 that holds the name is untouched -- and so is every other
   name; the goroutine's own entry is removed *)
Theorem C02_rescheduled_job_stays_listed :
  (forall t n j1 j2, t_get t n = Some j2 -> j1 <> j2 ->
      t_release t n j1 = t /\ t_exists (t_release t n j1) n = true
      /\ t_schedule (t_release t n j1) n 99 = (t_release t n j1, ErrJobAlreadyExists))
  /\ (forall t n j, t_get t n = Some j -> t_exists (t_release t n j) n = false)
  /\ (forall t n j m, m <> n -> t_get (t_release t n j) m = t_get t m).
Proof.
  split; [|split; [exact release_own | exact release_other_names]].
  intros t n j1 j2 H Hne. rewrite (release_keeps_newer t n j1 j2 H Hne).
  assert (He : t_exists t n = true) by (unfold t_exists; rewrite H; reflexivity).
  split; [reflexivity | split; [exact He | apply duplicate_rejected; exact He]].
Qed.
Print Assumptions C02_rescheduled_job_stays_listed.

(* ... which is FALSE of the tree as found, where the goroutine deleted by name: job 1 is scheduled
   and cancelled, job 2 is scheduled under the same name, job 1's goroutine leaves (timer or context
   branch) and deletes the name: job 2 is pending but no longer listed, and a third job of the same
   name is accepted beside it *)
Theorem C02_rescheduled_job_removed_refuted_on_pinned_tree :
  exists n, let t1 := fst (t_schedule [] n 1) in
            let t2 := fst (t_cancel t1 n) in
            let t3 := fst (t_schedule t2 n 2) in
            t_get t3 n = Some 2
            /\ t_exists (t_del t3 n) n = false /\ snd (t_schedule (t_del t3 n) n 3) = Nil
            /\ t_exists (t_release t3 n 1) n = true /\ snd (t_schedule (t_release t3 n 1) n 3) = ErrJobAlreadyExists.
Proof. exists 7. vm_compute. repeat split; reflexivity. Qed.
Print Assumptions C02_rescheduled_job_removed_refuted_on_pinned_tree.

(* a one-off job is claimed by at most one external call: a successful RunJob and a successful
   CancelJob never both occur, and while the name is in the table nobody holds the job *)
Theorem C02_claim_exclusive :
  forall cf, cf = cfF \/ cf = cfU ->
  forall sch, let s := run (step cf) sch (init cf) in
    (run_ok s = true -> cancel_ok s = true -> False)
    /\ (r_pc s = RNone \/ c_pc s = CNone)
    /\ (in_table s = true -> r_pc s = RNone /\ c_pc s = CNone).
Proof.
  intros cf Hcf sch s.
  assert (H : p_excl s = true).
  { destruct Hcf as [-> | ->]; subst s.
    - exact (always cfF R_F p_excl R_F_closed excl_F _ R_F_init sch).
    - exact (always cfU R_U p_excl R_U_closed excl_U _ R_U_init sch). }
  unfold p_excl in H. apply andb_prop in H as [H H3]; apply andb_prop in H as [H1 H2].
  repeat split.
  - intros Hr Hc; rewrite Hr, Hc in H1; discriminate H1.
  - destruct (r_pc s); auto; destruct (c_pc s); auto; discriminate H2.
  - destruct (in_table s); [|discriminate]. destruct (r_pc s); try discriminate H3; reflexivity.
  - destruct (in_table s); [|discriminate]. destruct (r_pc s), (c_pc s); try discriminate H3; reflexivity.
Qed.
Print Assumptions C02_claim_exclusive.

(* Observation outside the property statement (reported, not condemned by the text): on a
   PERIODIC job a second run request can block for ever on the full runCh while holding the
   job's state lock, when the goroutine leaves through the ctx branch and then waits for that
   lock in finaliseJob.  Needs a three-way tie (timer / RunJob / RunJob) followed by ctx cancel. *)
Theorem C02_obs_periodic_runjob_can_block :
  exists sch, let s := run (step cfP) sch (init cfP) in
    quiescent cfP s = true /\ r_pc s = RSend /\ g_pc s = GCtxFin /\ lock_free s = false.
Proof. exists periodic_block_schedule. exact periodic_block. Qed.
Print Assumptions C02_obs_periodic_runjob_can_block.

(* ---------------------------------------------------------------------------------------------
   Timed scripts (Model/C02_Script.v): what the implementation is compared with.  A script is any
   list of calls at any instants on a one-off or periodic job; [finals sc] are the states in which
   the script can end over ALL interleavings of the events that share an instant, and
   [outcomes sc] what is observable of them. *)

(* every final state of every script is a state of the job machine reached by some schedule, and
   the recorded start instants are the machine's run counter: the theorems above apply to the
   outcome sets the implementation is checked against *)
Theorem C02_script_states_reachable :
  forall sc t, In t (finals sc) ->
    (exists sch, t_core t = run (step (sc_cfg sc)) sch (init (sc_cfg sc)))
    /\ runs (t_core t) = sat2 (N.of_nat (length (t_starts t))).
Proof. exact script_inv_holds. Qed.
Print Assumptions C02_script_states_reachable.

(* never twice, at script level: in every outcome the model predicts for ANY script, a one-off job
   has at most one start, nothing overlaps, no channel operation panics *)
Theorem C02_script_outcomes_never_twice :
  forall sc o, In o (outcomes sc) ->
    o_panic o = false /\ o_overlap o <= 1 /\ (sc_kind sc = OneOff -> (length (o_starts o) <= 1)%nat).
Proof. exact script_never_twice. Qed.
Print Assumptions C02_script_outcomes_never_twice.

(* exactly once, never silently dropped, at script level (repaired code): in EVERY one-off script
   -- any number of RunJob / CancelJob / context-cancel / re-schedule / JobExists calls at any
   instants -- every state in which the script can end, over all interleavings, in which no
   CancelJob has reported success, the parent context is alive, jobFunc is not in progress and the
   job's time is not after the end of the script, has exactly one start of jobFunc *)
Theorem C02_script_exactly_once :
  forall sc, sc_kind sc = OneOff -> sc_variant sc = Fixed ->
  forall t, In t (finals sc) ->
    sc_due sc <= sc_end sc ->
    cancel_ok (t_core t) = false -> ctx_done (t_core t) = false -> running (t_core t) = 0 ->
    length (t_starts t) = 1%nat.
Proof. exact script_exactly_once. Qed.
Print Assumptions C02_script_exactly_once.

(* the same with hypotheses on what is OBSERVED of the calls: no CancelJob call of the script
   returned nil and no context cancellation was issued ([Ret Nil] is the status of an issued KCtx
   call) -- the machine's [cancel_ok] / [ctx_done] flags are raised by nothing else *)
Theorem C02_script_exactly_once_observable :
  forall sc, sc_kind sc = OneOff -> sc_variant sc = Fixed ->
  forall t, In t (finals sc) ->
    sc_due sc <= sc_end sc ->
    no_ret_nil sc KCancel (t_calls t) -> no_ret_nil sc KCtx (t_calls t) -> running (t_core t) = 0 ->
    length (o_starts (outcome_of t)) = 1%nat.
Proof. exact script_exactly_once_obs. Qed.
Print Assumptions C02_script_exactly_once_observable.

(* "an early-run request that reports success means the job runs", for every one-off script:
   a final state in which some RunJob call returned nil, no context cancellation was issued and
   jobFunc is not in progress has exactly one start -- whatever else the script did (cancellation
   requests, further run requests), and whether or not the job's time lies inside the script *)
Theorem C02_script_run_success_runs :
  forall sc, sc_kind sc = OneOff -> sc_variant sc = Fixed ->
  forall t, In t (finals sc) ->
    (exists i cl, nth_error (sc_calls sc) i = Some cl /\ cl_kind cl = KRun /\ nth_error (t_calls t) i = Some (Ret Nil)) ->
    no_ret_nil sc KCtx (t_calls t) -> running (t_core t) = 0 ->
    length (o_starts (outcome_of t)) = 1%nat.
Proof. exact script_run_success_runs. Qed.
Print Assumptions C02_script_run_success_runs.

(* "a job cancelled clearly before its time never runs", for every one-off script that ends before
   the job's time: if a CancelJob call returned nil the job has not run, and NO continuation of
   the job machine from that final state -- the timer expiring, any number of further run requests,
   in any order -- ever runs it *)
Theorem C02_script_cancel_before_due :
  forall sc, sc_kind sc = OneOff -> sc_variant sc = Fixed -> sc_end sc < sc_due sc ->
  forall t, In t (finals sc) ->
    (exists i cl, nth_error (sc_calls sc) i = Some cl /\ cl_kind cl = KCancel /\ nth_error (t_calls t) i = Some (Ret Nil)) ->
    o_starts (outcome_of t) = []
    /\ forall sch, runs (run (step cfF) sch (t_core t)) = 0.
Proof. exact script_cancel_before_due. Qed.
Print Assumptions C02_script_cancel_before_due.

(* ... and for EVERY one-off script, whatever its length and whatever else it does (run requests
   before, at or after the job's time, further cancellations, context cancellation, re-scheduling):
   if a CancelJob call issued at an instant before the job's time returned nil, the job has no
   start in any state in which the script can end.  (A call returns within its instant or never,
   so the nil was returned, with the system at rest, before the timer could expire.) *)
Theorem C02_script_cancelled_before_never_runs :
  forall sc, sc_kind sc = OneOff -> sc_variant sc = Fixed ->
  forall i0 cl0, nth_error (sc_calls sc) i0 = Some cl0 -> cl_kind cl0 = KCancel -> cl_at cl0 < sc_due sc ->
  forall t, In t (finals sc) -> nth_error (t_calls t) i0 = Some (Ret Nil) ->
    o_starts (outcome_of t) = [].
Proof. exact script_cancelled_before_never_runs. Qed.
Print Assumptions C02_script_cancelled_before_never_runs.

(* ... and therefore in every OBSERVED outcome that the correspondence check accepts *)
Theorem C02_checked_observation_never_twice :
  forall c sc os, agree c = true -> c_body c = Timed sc os ->
    forall ob, In ob os ->
      o_panic (ob_out ob) = false /\ o_overlap (ob_out ob) <= 1
      /\ (sc_kind sc = OneOff -> (length (o_starts (ob_out ob)) <= 1)%nat).
Proof. exact checked_never_twice. Qed.
Print Assumptions C02_checked_observation_never_twice.

(* exactly once for a CHECKED observation: whenever the correspondence check accepts a case, for a
   one-off script whose time lies inside the script, an observed outcome in which no
   CancelJob(-IfExists) call returned nil or was silent, no context cancellation was issued and
   jobFunc was not in progress at the end shows exactly one start of jobFunc.  (The observed
   outcome is that of a final state of the model's script; the theorem above applies to it.) *)
Theorem C02_checked_observation_exactly_once :
  forall c sc os, agree c = true -> c_body c = Timed sc os ->
    sc_kind sc = OneOff -> sc_variant sc = Fixed -> sc_due sc <= sc_end sc ->
    forall ob, In ob os -> ob_running ob = 0 ->
      obs_no_success sc KCancel (o_calls (ob_out ob)) -> obs_no_success sc KCtx (o_calls (ob_out ob)) ->
      length (o_starts (ob_out ob)) = 1%nat.
Proof. exact checked_exactly_once. Qed.
Print Assumptions C02_checked_observation_exactly_once.

(* the two clauses above for CHECKED observations *)
Theorem C02_checked_observation_run_success_runs :
  forall c sc os, agree c = true -> c_body c = Timed sc os ->
    sc_kind sc = OneOff -> sc_variant sc = Fixed ->
    forall ob, In ob os -> ob_running ob = 0 ->
      (exists i cl, nth_error (sc_calls sc) i = Some cl /\ cl_kind cl = KRun
                    /\ nth_error (o_calls (ob_out ob)) i = Some (Ret Nil)) ->
      obs_no_success sc KCtx (o_calls (ob_out ob)) ->
      length (o_starts (ob_out ob)) = 1%nat.
Proof. exact checked_run_success. Qed.
Print Assumptions C02_checked_observation_run_success_runs.

Theorem C02_checked_observation_cancel_before_due :
  forall c sc os, agree c = true -> c_body c = Timed sc os ->
    sc_kind sc = OneOff -> sc_variant sc = Fixed ->
    forall ob, In ob os ->
      (exists i cl, nth_error (sc_calls sc) i = Some cl /\ cl_kind cl = KCancel /\ cl_at cl < sc_due sc
                    /\ nth_error (o_calls (ob_out ob)) i = Some (Ret Nil)) ->
      o_starts (ob_out ob) = [].
Proof. exact checked_cancel_before. Qed.
Print Assumptions C02_checked_observation_cancel_before_due.

(* ---------------------------------------------------------------------------------------------
   Non-vacuity. *)

(* the tie schedule that drops the job in the tree as found, continued, runs it once in the
   repaired code; hypotheses of C02_exactly_once and C02_run_success_runs are met *)
Example C02_tie_runs_once_when_fixed :
  let s := run (step cfF) (drop_schedule ++ [GStep; GStep; JobReturn; GStep; GStep]) (init cfF) in
  quiescent cfF s = true /\ run_ok s = true /\ runs s = 1 /\ g_pc s = GDone /\ finalised s = true.
Proof. exact fixed_same_schedule_runs. Qed.

(* timer alone; cancel clearly before (hypotheses of C02_cancel_before_due are met, and a later
   timer expiry changes nothing) *)
Example C02_timer_alone_and_cancel_before :
  (let s := run (step cfF) [TimerFire; GPick BTimer; GStep; GStep; GStep; GStep; JobReturn; GStep; GStep] (init cfF) in
   quiescent cfF s = true /\ timer_due s = true /\ cancel_ok s = false /\ ctx_done s = false /\ runs s = 1)
  /\ (let s := run (step cfF) [CancelLookup; CStep; CStep; CStep; CStep; GPick BCancel; GStep] (init cfF) in
      quiescent cfF s = true /\ cancel_ok s = true /\ timer_due s = false /\ g_pc s = GDone
      /\ runs (run (step cfF) [TimerFire; GPick BTimer; RunLookup; GStep] s) = 0).
Proof. vm_compute. repeat split; reflexivity. Qed.

(* periodic: an early run followed by a timer tick: two sequential runs, goroutine back in select *)
Example C02_periodic_early_run_then_tick :
  let s := run (step cfP)
               ([GRtOut RtNext; RunLookup; REnter; RStep; RStep; RStep; RStep; RReset;
                 GPick BRun; GStep; JobReturn; GStep; GRtOut RtNext;
                 TimerFire; GPick BTimer; GStep; GStep; GStep; JobReturn; GStep; GRtOut RtNext]) (init cfP) in
  runs s = 2 /\ running s = 0 /\ g_pc s = GSel /\ active s = false /\ in_table s = true.
Proof. vm_compute. repeat split; reflexivity. Qed.

(* table: schedule, duplicate refused, run claims, name free again *)
Example C02_table_example :
  let t1 := fst (t_schedule [] 7 1) in
  snd (t_schedule t1 7 2) = ErrJobAlreadyExists
  /\ t_run t1 7 false = ([], Some 1)
  /\ t_schedule (fst (t_run t1 7 false)) 7 2 = ([(7, 2)], Nil).
Proof. vm_compute. repeat split; reflexivity. Qed.

(* scripts: the tie (RunJob at the job's instant) has final states, all of them meet the
   hypotheses of C02_script_exactly_once and have one start; in the tree as found one of the final
   states of the same script has none although RunJob returned nil *)
Definition tie_script (v : variant) : script :=
  {| sc_kind := OneOff; sc_variant := v; sc_due := 5; sc_dur := 0; sc_ticks := 0;
     sc_calls := [ {| cl_at := 5; cl_kind := KRun |} ]; sc_end := 9; sc_behind := None |}.
Example C02_tie_script_fixed_and_pinned :
  finals (tie_script Fixed) <> []
  /\ forallb (fun t => negb (cancel_ok (t_core t)) && negb (ctx_done (t_core t)) && (running (t_core t) =? 0)
                       && (N.of_nat (length (t_starts t)) =? 1)) (finals (tie_script Fixed)) = true
  /\ existsb (fun o => list_eqb cst_eqb (o_calls o) [Ret Nil] && (N.of_nat (length (o_starts o)) =? 0))
             (outcomes (tie_script Pinned)) = true.
Proof. vm_compute. split; [discriminate | split; reflexivity]. Qed.

(* scripts: a run request one millisecond before the job's time, and a cancellation in a script
   that ends before the job's time: final states exist and meet the hypotheses of
   C02_script_run_success_runs / C02_script_cancel_before_due *)
Example C02_script_examples :
  let sc_run := {| sc_kind := OneOff; sc_variant := Fixed; sc_due := 5; sc_dur := 2; sc_ticks := 0;
                   sc_calls := [ {| cl_at := 4; cl_kind := KRun |}; {| cl_at := 4; cl_kind := KCancel |} ]; sc_end := 9; sc_behind := None |} in
  let sc_can := {| sc_kind := OneOff; sc_variant := Fixed; sc_due := 9; sc_dur := 0; sc_ticks := 0;
                   sc_calls := [ {| cl_at := 3; cl_kind := KCancel |}; {| cl_at := 3; cl_kind := KRun |} ]; sc_end := 6; sc_behind := None |} in
  existsb (fun t => list_eqb cst_eqb (t_calls t) [Ret Nil; Ret ErrNoSuchJob] && (running (t_core t) =? 0)
                    && list_eqb N.eqb (t_starts t) [4]) (finals sc_run) = true
  /\ existsb (fun t => list_eqb cst_eqb (t_calls t) [Ret Nil; Ret ErrNoSuchJob] && list_eqb N.eqb (t_starts t) []) (finals sc_can) = true.
Proof. vm_compute. split; reflexivity. Qed.

(* a cancellation two milliseconds before the job's time in a script that goes on well after it,
   with a run request at the job's time: final states exist in which the CancelJob call returned
   nil (hypotheses of C02_script_cancelled_before_never_runs) *)
Example C02_script_cancel_example :
  let sc := {| sc_kind := OneOff; sc_variant := Fixed; sc_due := 5; sc_dur := 1; sc_ticks := 0;
               sc_calls := [ {| cl_at := 3; cl_kind := KCancel |}; {| cl_at := 5; cl_kind := KRun |} ]; sc_end := 9; sc_behind := None |} in
  existsb (fun t => list_eqb cst_eqb (t_calls t) [Ret Nil; Ret ErrNoSuchJob] && list_eqb N.eqb (t_starts t) []) (finals sc) = true.
Proof. vm_compute. reflexivity. Qed.

(* ------------------------------------------------------------------------------------------------
   Bursts (Model/C02_Burst.v): several callers operating on ONE name at the same moment.  Each of
   ScheduleJob / SchedulePeriodicJob (check for the name and insert), RunJob (look up and delete a
   one-off entry) and CancelJob (look up and delete) is ONE section of jobsMutex, so the calls of a
   burst take effect in some order; the theorems are about EVERY order, of any length, from any
   table.  Weights of a call with the code it returned: w_acc = 1 for an accepted ScheduleJob,
   w_claim = 1 for a CancelJob that returned nil and for a RunJob that returned nil on a one-off
   job, w_run = 1 for a RunJob that returned nil, w_rel = 1 for the removal of its name by the
   goroutine of a job whose context was cancelled (no call of the API). *)
From Verif Require Import Model.C02_Burst Proofs.C02_Burst.

(* a name is held by at most one job -- accepted = claimed + still listed (one less at most per
   goroutine that left by itself) -- and the job functions are called exactly as often as run
   requests reported success *)
Theorem C02_burst_name_held_once :
  forall per l s s' cs, b_run per s l = (s', cs) ->
  exists ocs, map (fun x => fst x) ocs = l /\ map (fun x => snd x) ocs = cs
    /\ hN s' + wt (w_claim per) ocs <= hN s + wt w_acc ocs
    /\ hN s + wt w_acc ocs <= hN s' + wt (w_claim per) ocs + wt w_rel ocs
    /\ total_runs (bs_runs s') = total_runs (bs_runs s) + wt w_run ocs.
Proof.
  intros per l s s' cs H. destruct (b_run_law _ _ _ _ _ H) as (ocs & Hl & Hm & Hc).
  exists ocs. split; [exact Hm | split; [exact Hc | exact Hl]].
Qed.
Print Assumptions C02_burst_name_held_once.

(* when the jobs' time has passed the job then listed, and no other, has run once more, and the
   name is free: a job cancelled (or claimed) before its time does not run at its time *)
Theorem C02_burst_time_passes :
  forall s, held (b_fire s) = false /\ total_runs (bs_runs (b_fire s)) = total_runs (bs_runs s) + hN s.
Proof. exact b_fire_law. Qed.
Print Assumptions C02_burst_time_passes.

(* what the correspondence check of a burst accepts: when the search finds an order of the lanes
   in which the model returns the OBSERVED codes, the laws hold for the observed codes, between
   the state before the burst and a state that passes the final comparison [k] (table entry and
   run counts as observed) *)
Theorem C02_burst_accepted_observation :
  forall fuel per s lanes k, lin fuel per s lanes k = true ->
  exists s', k s' = true
    /\ hN s' + wt (w_claim per) (concat lanes) <= hN s + wt w_acc (concat lanes)
    /\ hN s + wt w_acc (concat lanes) <= hN s' + wt (w_claim per) (concat lanes) + wt w_rel (concat lanes)
    /\ total_runs (bs_runs s') = total_runs (bs_runs s) + wt w_run (concat lanes).
Proof. exact lin_sound. Qed.
Print Assumptions C02_burst_accepted_observation.

(* non-vacuity: three callers schedule a free name at once; one accepted is an outcome of the
   model, two accepted is not *)
Example C02_burst_examples :
  let lanes (c1 c2 c3 : code) := [[(BoSched, 0, c1)]; [(BoSched, 1, c2)]; [(BoSched, 2, c3)]] in
  lin 4 false bs_init (lanes ErrJobAlreadyExists Nil ErrJobAlreadyExists) (fun s => held s) = true
  /\ lin 4 false bs_init (lanes Nil Nil ErrJobAlreadyExists) (fun _ => true) = false
  /\ fst (b_run false bs_init [(BoSched, 0); (BoSched, 1); (BoCancel, 0); (BoSched, 2); (BoRun, 0)])
     = {| bs_table := []; bs_runs := [(2, 1)] |}.
Proof. vm_compute. split; [reflexivity | split; reflexivity]. Qed.

(* --- callers' contexts, real-time runs, "every start has a cause of its own" ------------------------
   The harness also hands cancelled / expired / concurrently cancelled contexts of the CALLER to
   RunJob, RunJobIfExists, CancelJob, CancelJobIfExists, JobExists (they are not the job's context);
   the scripts of the model do not mention them: every statement above holds whatever they are, and
   an accepted observation contains no call that returned an error outside the scheduler's set.
   Real-time cases ([Real]) are scripts run outside bubbles, in a process with the buffered timer
   channels that the repository's go directive selects, three serial repetitions; a disagreement
   counts when no repetition is what the model predicts. *)
From Verif Require Import Proofs.C02_Real.

(* an accepted observation, whatever contexts the callers used: every call returned a result of the
   scheduler's own set (so the statements 20-23 speak about all of its calls) *)
Theorem C02_accepted_observation_no_foreign_result :
  forall c sc os, agree c = true -> c_body c = Timed sc os ->
    forall ob, In ob os -> any_foreign ob = false.
Proof. exact checked_no_foreign. Qed.
Print Assumptions C02_accepted_observation_no_foreign_result.

(* an accepted real-time case: one of the repetitions is the outcome of a final state of the model's
   script -- no panic, no overlap, a one-off job started at most once *)
Theorem C02_real_time_accepted_observation :
  forall c sc os, agree c = true -> c_body c = Real sc os ->
    exists ob, In ob os /\ o_panic (ob_out ob) = false /\ o_overlap (ob_out ob) <= 1
      /\ (sc_kind sc = OneOff -> (length (o_starts (ob_out ob)) <= 1)%nat).
Proof. exact checked_real_never_twice. Qed.
Print Assumptions C02_real_time_accepted_observation.

(* what the clause [justified] of P_b says of an observation that satisfies it: there are at most as
   many starts as instances and (possibly) successful run requests together; without such a request
   every start is AT the time of an instance; a start off the schedule has a run request issued no
   later than it.  (Each cause is used once: an instance replaced by a run request is not run again
   by its own timer -- what a re-armed timer with a stale value in its channel does.) *)
Theorem C02_every_start_has_its_own_cause :
  forall dur sts prev insts runs, justified dur prev sts insts runs = true ->
    (length sts <= length insts + length runs)%nat
    /\ (runs = [] -> forall s, In s sts -> In s insts)
    /\ (forall s, In s sts -> ~ In s insts -> exists r, In r runs /\ r <= s).
Proof.
  intros dur sts prev insts runs H. split; [exact (justified_count _ _ _ _ _ H)|]. split.
  - intros ->. exact (justified_no_runs _ _ _ _ H).
  - exact (justified_off_schedule _ _ _ _ _ H).
Qed.
Print Assumptions C02_every_start_has_its_own_cause.

(* non-vacuity: period 2, jobFunc takes 2, run request at 1 (it outlasts the tick at 2).  As the code
   behaves: starts 1, 5, 9 with instances 2, 5, 9.  With a single re-armed timer and buffered timer
   channels: starts 1, 3, 5 with instances 2, 5, 7 -- the start at 3 has no cause.  A run request
   tied with a timer start is served when that execution returns. *)
Example C02_justified_examples :
  justified 2 None [1; 5; 9] [2; 5; 9] [1] = true
  /\ justified 2 None [1; 3; 5] [2; 5; 7] [1] = false
  /\ justified 2 None [4; 6] [4; 8] [4] = true.
Proof. vm_compute. split; [reflexivity | split; reflexivity]. Qed.

(* --- the job table after the job's goroutine has ended (strengthening round 4) ------------------- *)

(* whatever the way out -- context branch, cancel branch, runtimeFunc returning ErrNoMoreInstances or
   an error, a one-off job's single run, the timer branch as found -- under EVERY schedule of every
   configuration a goroutine that has returned has left no table entry behind *)
Theorem C02_ended_goroutine_not_listed :
  forall cf sch, let s := run (step cf) sch (init cf) in g_pc s = GDone -> in_table s = false.
Proof. exact ended_goroutine_not_listed. Qed.
Print Assumptions C02_ended_goroutine_not_listed.

(* EVERY script, one-off or periodic, any calls at any instants, every interleaving: a state in which
   the script can end with the parent context cancelled -- while the job waited or while jobFunc was
   in flight --, no jobFunc in progress and no call stuck inside a state-lock section is one in which
   the goroutine has returned and the name is free: JobExists false, ScheduleJob of the name accepted,
   and that job runs *)
Theorem C02_script_ctx_exit_leaves_table :
  forall sc t, In t (finals sc) ->
    ctx_done (t_core t) = true -> running (t_core t) = 0 -> lock_free (t_core t) = true ->
    g_pc (t_core t) = GDone /\ in_table (t_core t) = false
    /\ o_exists (outcome_of t) = false /\ o_reuse (outcome_of t) = Nil /\ o_reuse_runs (outcome_of t) = 1.
Proof. exact script_ctx_exit_leaves_table. Qed.
Print Assumptions C02_script_ctx_exit_leaves_table.

(* the calls that come after the goroutine's end find nothing: RunJob and CancelJob return
   ErrNoSuchJob without touching the job (no run request "succeeds" on a job nobody will run),
   JobExists answers false, ScheduleJob of the name is accepted *)
Theorem C02_script_calls_after_exit_find_nothing :
  forall sc now t i cl, in_table (t_core t) = false -> cl_at cl <= now ->
    call_moves sc now t i cl Waiting =
      match cl_kind cl with
      | KRun | KCancel => [with_call t i (Ret ErrNoSuchJob) (t_core t)]
      | KCtx => [with_call t i (Ret Nil) (match step (sc_cfg sc) (t_core t) CtxCancel with Some c' => c' | None => t_core t end)]
      | KDup => [with_call t i (Ret Nil) (t_core t)]
      | KExists => [with_call t i (RetB false) (t_core t)]
      end.
Proof. exact calls_after_exit. Qed.
Print Assumptions C02_script_calls_after_exit_find_nothing.

(* for what the implementation was SEEN to do: an accepted observation that came to rest with no
   jobFunc in flight is the outcome of a final state of the model's script, and if that state has the
   context cancelled and no call stuck, the implementation answered JobExists = false, accepted the
   ScheduleJob of the name and ran that job once *)
Theorem C02_checked_observation_ctx_exit_leaves_table :
  forall c sc os, agree c = true -> c_body c = Timed sc os ->
    forall ob, In ob os -> ob_hung ob = false -> ob_running ob = 0 ->
    exists t, In t (finals sc) /\ running (t_core t) = 0
      /\ (ctx_done (t_core t) = true -> lock_free (t_core t) = true ->
          o_exists (ob_out ob) = false /\ o_reuse (ob_out ob) = Nil /\ o_reuse_runs (ob_out ob) = 1).
Proof. exact checked_ctx_exit_leaves_table. Qed.
Print Assumptions C02_checked_observation_ctx_exit_leaves_table.

(* non-vacuity: period 2, jobFunc takes 2, two instances, the context is cancelled at 3 while the
   first instance (started at 2) is in flight, RunJob at 6: every final state has the context
   cancelled, nothing in flight, no call stuck; the goroutine has returned, the name is free, the
   late RunJob found no job, and the job started once.  And the clause of P_b that speaks of it
   accepts that observation and rejects the one in which the dead job is still listed and "accepts"
   the run request. *)
Definition exit_example : script :=
  {| sc_kind := Periodic; sc_variant := Fixed; sc_due := 2; sc_dur := 2; sc_ticks := 2;
     sc_calls := [{| cl_at := 3; cl_kind := KCtx |}; {| cl_at := 6; cl_kind := KRun |}]; sc_end := 10; sc_behind := None |}.

Example C02_exit_example :
  (0 <? N.of_nat (length (finals exit_example))) = true
  /\ forallb (fun t => ctx_done (t_core t) && (running (t_core t) =? 0) && lock_free (t_core t)
                       && gpc_eqb (g_pc (t_core t)) GDone && negb (in_table (t_core t))
                       && list_eqb cst_eqb (t_calls t) [Ret Nil; Ret ErrNoSuchJob]
                       && list_eqb N.eqb (t_starts t) [2]) (finals exit_example) = true
  /\ (let ob o := {| ob_out := o; ob_listed := o_exists o; ob_hung := false; ob_running := 0; ob_dup := None;
                      ob_insts := [2]; ob_foreign := [false; false]; ob_byprefix := [false; false]; ob_sibs := []; ob_count := 1 |} in
      after_exit_ok exit_example
        (ob {| o_calls := [Ret Nil; Ret ErrNoSuchJob]; o_starts := [2]; o_overlap := 1; o_exists := false;
               o_reuse := Nil; o_reuse_runs := 1; o_panic := false |}) = true
      /\ after_exit_ok exit_example
        (ob {| o_calls := [Ret Nil; Ret Nil]; o_starts := [2]; o_overlap := 1; o_exists := true;
               o_reuse := ErrJobAlreadyExists; o_reuse_runs := 0; o_panic := false |}) = false).
Proof. vm_compute. repeat split; reflexivity. Qed.

(* --- a cancellation takes effect whatever the goroutine is doing (strengthening round 5) ----------
   CancelJobs(prefix) = the names with the prefix are collected, CancelJobIfExists on each; CancelJobIfExists
   = CancelJob with its result dropped.  A periodic job stays listed while an instance is in progress and
   while a run request has claimed it ([active] set): none of the cancelling calls looks at [active]. *)
From Verif Require Import Proofs.C02_Prefix.

(* under EVERY schedule of every configuration a listed job can be claimed by a cancellation -- waiting, an
   instance in progress, claimed by a run request: whatever [g_pc] and [active] are --, and the claim takes
   the entry out of the table and changes nothing else of the job *)
Theorem C02_listed_job_is_cancellable :
  forall cf sch, let s := run (step cf) sch (init cf) in
    in_table s = true ->
    exists s', step cf s CancelLookup = Some s' /\ in_table s' = false /\ c_pc s' = CHave
               /\ g_pc s' = g_pc s /\ active s' = active s /\ running s' = running s /\ runs s' = runs s.
Proof. exact listed_job_is_cancellable. Qed.
Print Assumptions C02_listed_job_is_cancellable.

(* once a CancelJob has returned nil: the entry is gone, the job is finalised, and whenever the goroutine is
   (back) in its select -- at once if it waited, after the instance in progress if not -- the cancel branch is
   ready and taking it runs nothing *)
Theorem C02_cancelled_job_is_leaving :
  forall cf sch, let s := run (step cf) sch (init cf) in
    cancel_ok s = true ->
    in_table s = false /\ finalised s = true
    /\ (g_pc s = GSel -> exists s', step cf s (GPick BCancel) = Some s' /\ g_pc s' = GCanFin /\ runs s' = runs s).
Proof. exact cancelled_job_is_leaving. Qed.
Print Assumptions C02_cancelled_job_is_leaving.

(* EVERY script, one-off or periodic, any calls at any instants, every interleaving: a state in which the
   script can end with a CancelJob that returned nil -- wherever it landed --, no jobFunc in flight and no call
   stuck in a state-lock section is one in which the goroutine has returned and the name is free *)
Theorem C02_script_cancel_exit_leaves_table :
  forall sc t, In t (finals sc) ->
    cancel_ok (t_core t) = true -> running (t_core t) = 0 -> lock_free (t_core t) = true ->
    g_pc (t_core t) = GDone /\ in_table (t_core t) = false
    /\ o_exists (outcome_of t) = false /\ o_reuse (outcome_of t) = Nil /\ o_reuse_runs (outcome_of t) = 1.
Proof. exact script_cancel_exit_leaves_table. Qed.
Print Assumptions C02_script_cancel_exit_leaves_table.

Theorem C02_checked_observation_cancel_exit_leaves_table :
  forall c sc os, agree c = true -> c_body c = Timed sc os ->
    forall ob, In ob os -> ob_hung ob = false -> ob_running ob = 0 ->
    exists t, In t (finals sc) /\ running (t_core t) = 0
      /\ (cancel_ok (t_core t) = true -> lock_free (t_core t) = true ->
          o_exists (ob_out ob) = false /\ o_reuse (ob_out ob) = Nil /\ o_reuse_runs (ob_out ob) = 1).
Proof. exact checked_cancel_exit_leaves_table. Qed.
Print Assumptions C02_checked_observation_cancel_exit_leaves_table.

(* the table: CancelJobs with a prefix that exactly the names of [l] have returns nothing to complain about,
   removes exactly the listed names of [l], leaves every other entry, calls no job function, accepts no job *)
Theorem C02_cancel_by_prefix_table :
  forall s l, let s' := fst (tb_step s (TCancelSet l)) in
    snd (tb_step s (TCancelSet l)) = TCode Nil
    /\ (forall m, t_get (tb_table s') m = if existsb (N.eqb m) l then None else t_get (tb_table s) m)
    /\ tb_runs s' = tb_runs s /\ tb_next s' = tb_next s.
Proof. exact cancel_set_table. Qed.
Print Assumptions C02_cancel_by_prefix_table.

(* what the clause [cancelled_never_runs] of P_b demands of an observation, for a cancellation at [tc] that
   took effect: every start is at the time of an instance not after [tc] or has a run request issued no later
   than [tc]; without such a request nothing starts after [tc] *)
Theorem C02_cancelled_instances_start_nothing :
  forall dur sts insts runs tc,
    justified dur None sts (filter (fun L => L <=? tc) insts) (filter (fun r => r <=? tc) runs) = true ->
    (forall s, In s sts -> (In s insts /\ s <= tc) \/ (exists r, In r runs /\ r <= tc /\ r <= s))
    /\ ((forall r, In r runs -> tc < r) -> forall s, In s sts -> In s insts /\ s <= tc).
Proof. exact cut_justified. Qed.
Print Assumptions C02_cancelled_instances_start_nothing.

(* non-vacuity: period 2, jobFunc takes 2, cancelled at 3 while the first instance (started at 2) is in
   progress: every final state of the model's script has the cancellation returned nil, the goroutine
   returned, the name free, one start.  P_b accepts that observation made through CancelJobs (no result seen)
   and rejects the one in which the job was left out because it was active: it goes on ticking, it is listed. *)
Definition prefix_example : script :=
  {| sc_kind := Periodic; sc_variant := Fixed; sc_due := 2; sc_dur := 2; sc_ticks := 9;
     sc_calls := [{| cl_at := 3; cl_kind := KCancel |}]; sc_end := 14; sc_behind := None |}.

Example C02_prefix_example :
  (0 <? N.of_nat (length (finals prefix_example))) = true
  /\ forallb (fun t => cancel_ok (t_core t) && gpc_eqb (g_pc (t_core t)) GDone && negb (in_table (t_core t))
                       && list_eqb cst_eqb (t_calls t) [Ret Nil] && list_eqb N.eqb (t_starts t) [2]) (finals prefix_example) = true
  /\ (let ob o insts := {| ob_out := o; ob_listed := o_exists o; ob_hung := false; ob_running := 0; ob_dup := None;
                            ob_insts := insts; ob_foreign := [false]; ob_byprefix := [true];
                            ob_sibs := [{| sb_match := true; sb_listed := o_exists o; sb_runs := 0 |};
                                        {| sb_match := false; sb_listed := true; sb_runs := 0 |}]; ob_count := 1 |} in
      let good := ob {| o_calls := [Silent]; o_starts := [2]; o_overlap := 1; o_exists := false;
                        o_reuse := Nil; o_reuse_runs := 1; o_panic := false |} [2; 6] in
      let bad := ob {| o_calls := [Silent]; o_starts := [2; 6; 10]; o_overlap := 1; o_exists := true;
                       o_reuse := ErrJobAlreadyExists; o_reuse_runs := 0; o_panic := false |} [2; 6; 10; 14] in
      P_timed_exact prefix_example good = true /\ timed_ok (finals prefix_example) good = true
      /\ cancelled_never_runs prefix_example bad = false /\ after_exit_ok prefix_example bad = false
      /\ timed_ok (finals prefix_example) bad = false)
  /\ (let '(s, outs) := tb_run tb_init [TSched 1 true; TSched 2 false; TSched 3 false; TCancelSet [1; 3; 5]; TList; TSched 1 false] in
      outs = [TCode Nil; TCode Nil; TCode Nil; TCode Nil; TNames [2]; TCode Nil]).
Proof. vm_compute. repeat split; reflexivity. Qed.

(* --- strengthening round 6: a periodic job whose instances are not in the future ------------------
   runtimeFunc may hand out an instance that is already due (a fixed-rate schedule whose job overruns its
   period, a catch-up after a stall, a runtime function that says "now"; [sc_behind], period 0).  All the
   script-level theorems above quantify over such scripts too.  What the seeded change C02-10 removes is the
   goroutine's passage through its select between two instances; in the model that passage is a fact about
   [step], for every state of every configuration: *)
From Verif Require Import Proofs.C02_Behind.

(* jobFunc is called only from the two call positions; the path leading there (timer branch / run branch) is
   entered only by a pick of the select on a ready run signal or a ready timer; runtimeFunc handing out an
   instance -- whatever its time -- leads into the select and runs nothing; in the select a pending cancel
   signal / a cancelled context can be picked whether or not the timer is due, the pick calls nothing, and
   from there the goroutine only goes on to its end and never calls jobFunc again *)
Theorem C02_every_instance_passes_the_select :
  forall cf s,
    (forall s', step cf s (GRtOut RtNext) = Some s' ->
       g_pc s = GRt /\ g_pc s' = GSel /\ timer_due s' = false /\ runs s' = runs s /\ running s' = running s
       /\ cancelq s' = cancelq s /\ ctx_done s' = ctx_done s /\ runq s' = runq s)
    /\ (forall a s', step cf s a = Some s' -> runs s' <> runs s ->
          a = GStep /\ (g_pc s = GRunCall \/ g_pc s = GTimCall))
    /\ (forall a s', step cf s a = Some s' -> to_job (g_pc s') = true -> to_job (g_pc s) = false ->
          g_pc s = GSel /\ ((a = GPick BRun /\ ready s BRun = true) \/ (a = GPick BTimer /\ ready s BTimer = true)))
    /\ (g_pc s = GSel ->
          (cancelq s = true -> exists s', step cf s (GPick BCancel) = Some s' /\ g_pc s' = GCanFin /\ runs s' = runs s)
          /\ (ctx_done s = true -> exists s', step cf s (GPick BCtx) = Some s' /\ g_pc s' = GCtxDel /\ runs s' = runs s))
    /\ (forall a s', step cf s a = Some s' -> leaving (g_pc s) = true -> leaving (g_pc s') = true /\ runs s' = runs s).
Proof.
  intros cf s. split; [intros s' H; exact (rt_next_enters_select _ _ _ H)|].
  split; [intros a s' H Hr; exact (call_only_from_call_pc _ _ _ _ H Hr)|].
  split; [intros a s' H Ht Hf; exact (to_job_only_from_select _ _ _ _ H Ht Hf)|].
  split; [intro Hg; exact (select_can_heed cf s Hg)|].
  intros a s' H Hl; exact (leaving_stays _ _ _ _ H Hl).
Qed.
Print Assumptions C02_every_instance_passes_the_select.

(* the clause of P_b about the starts is evaluated in a form that descends only into the branches whose test
   succeeded; it is the predicate [justified] of C02_every_start_has_its_own_cause *)
Theorem C02_justified_evaluated_lazily :
  forall dur sts prev insts runs, justified_l dur prev sts insts runs = justified dur prev sts insts runs.
Proof. exact justified_l_eq. Qed.
Print Assumptions C02_justified_evaluated_lazily.

(* what the clause [cancel_heeded] of P_b demands of twelve or more repetitions of one script: in at least one
   of them every cancellation that took effect (the parent context cancelled, a CancelJob that returned nil, a
   silent cancellation of a job certainly listed) at [tc] is followed by no start later than five executions
   of jobFunc after [tc]; and what [ignored k] = false says of one observation (real time: k = 2) *)
Theorem C02_cancellation_heeded_whatever_the_schedule :
  (forall sc os, cancel_heeded sc os = true -> 12 <= total_count os ->
     exists ob, In ob os /\
       forall tc, In tc (stops sc ob) -> forall s, In s (o_starts (ob_out ob)) -> s <= tc + 5 * sc_dur sc)
  /\ (forall k sc ob, ignored k sc ob = false ->
        forall tc, In tc (stops sc ob) -> forall s, In s (o_starts (ob_out ob)) -> s <= tc + k * sc_dur sc).
Proof. split; [exact cancel_heeded_says | exact not_ignored]. Qed.
Print Assumptions C02_cancellation_heeded_whatever_the_schedule.

(* non-vacuity: a runtime function that says "now", jobFunc takes 2, CancelJob at 3 while the second
   execution (started at 2) is in progress, 9 instances.  At every pass through the select the cancel signal and
   the timer are both ready: the model's script ends with the starts [0;2], [0;2;4], ... (one final state per
   number of passes lost), the call returned nil in all of them, the name is free in all of them.  The same
   for a fixed-rate schedule of period 1 overrun by a job that takes 2 (first instance at 1).  P_b accepts twelve
   repetitions of which eleven stopped at once and one ran two more instances; it rejects twelve repetitions that
   all ran every instance handed out until the end of the script (what the goroutine of C02-10 does), although
   each of them is an outcome of the model; in real time (k = 2) it rejects each such repetition by itself. *)
Definition behind_example : script :=
  {| sc_kind := Periodic; sc_variant := Fixed; sc_due := 0; sc_dur := 2; sc_ticks := 9;
     sc_calls := [{| cl_at := 3; cl_kind := KCancel |}]; sc_end := 14; sc_behind := None |}.
Definition overrun_example : script :=
  {| sc_kind := Periodic; sc_variant := Fixed; sc_due := 1; sc_dur := 2; sc_ticks := 9;
     sc_calls := [{| cl_at := 4; cl_kind := KCancel |}]; sc_end := 15; sc_behind := Some 0 |}.

(* the same lists of starts, as sets *)
Definition same_lists (a b : list (list N)) : bool :=
  forallb (fun x => existsb (list_eqb N.eqb x) b) a && forallb (fun y => existsb (list_eqb N.eqb y) a) b.

Example C02_behind_example :
  same_lists (map (fun t => rev (t_starts t)) (finals behind_example))
    [[0;2]; [0;2;4]; [0;2;4;6]; [0;2;4;6;8]; [0;2;4;6;8;10]; [0;2;4;6;8;10;12]; [0;2;4;6;8;10;12;14]] = true
  /\ forallb (fun t => list_eqb cst_eqb (t_calls t) [Ret Nil] && negb (in_table (t_core t))) (finals behind_example) = true
  /\ same_lists (map (fun t => rev (t_starts t)) (finals overrun_example))
    [[1;3]; [1;3;5]; [1;3;5;7]; [1;3;5;7;9]; [1;3;5;7;9;11]; [1;3;5;7;9;11;13]; [1;3;5;7;9;11;13;15]] = true
  /\ (let ob n st insts run := {| ob_out := {| o_calls := [Ret Nil]; o_starts := st; o_overlap := 1; o_exists := false;
                                               o_reuse := Nil; o_reuse_runs := 1; o_panic := false |};
                                  ob_listed := false; ob_hung := false; ob_running := run; ob_dup := None;
                                  ob_insts := insts; ob_foreign := [false]; ob_byprefix := [false];
                                  ob_sibs := []; ob_count := n |} in
      let heeded := ob 11 [0;2] [0;2;4] 0 in
      let later := ob 1 [0;2;4;6] [0;2;4;6;8] 0 in
      let never := ob 12 [0;2;4;6;8;10;12;14] [0;2;4;6;8;10;12;14] 1 in
      P_b {| c_id := 1; c_body := Timed behind_example [heeded; later] |} = true
      /\ agree {| c_id := 1; c_body := Timed behind_example [heeded; later] |} = true
      /\ agree {| c_id := 2; c_body := Timed behind_example [never] |} = true
      /\ P_timed_exact behind_example never = true
      /\ P_b {| c_id := 2; c_body := Timed behind_example [never] |} = false
      /\ P_b {| c_id := 3; c_body := Real behind_example [never] |} = false
      /\ P_b {| c_id := 4; c_body := Real behind_example [never; heeded] |} = true).
Proof. vm_compute. repeat split; reflexivity. Qed.
