(* C09 — the relay auction selects the best eligible bid and only eligible bids. *)
From Verif Require Import Lib.Base Model.C09_Auction Proofs.C09.

Theorem C09_collect_inv : forall cfgs fw, inv cfgs fw (collect cfgs fw).
Proof. exact collect_inv. Qed.
Print Assumptions C09_collect_inv.
