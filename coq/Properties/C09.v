(* C09 — the relay auction selects the best eligible bid and only eligible bids.
   Property theorems only; lemmas in Proofs/C09.v (collector fold invariant) and Proofs/C09_Spec.v,
   the model in Model/C09_Auction.v (what the code does) and Model/C09_Spec.v (what the statement
   talks about, written without the collector).

   Reading guide.
   * [rs] is the proposer's relay list; a relay has a kind (full / cannot unblind / no bid
     provider / address that does not resolve), a minimum value, configured and advertised keys, a
     grace period and a script: its k-th call is answered after a latency with an error, nothing,
     an empty or malformed bid, silence, or a bid (value, builder, zero fee recipient?, timestamp -
     slot start, signing key, header).  [cfgs] are the per-builder configurations.
   * [s] is [Best T] (hard timeout T; the soft timeout has no effect on the result) or
     [Deadline D gap] (relays re-queried every [gap] until the instant D).
   * [answered s r] = the calls of relay r that were answered and when (no decision of vouch in it);
     [acceptable s rs i b] = relay i of [rs] is asked by the strategy, answered bid [b] before the
     cut-off, and [b] is eligible there ([eligible], spelled out by C09_eligible_spelled_out).
   * [ord] is ANY arrangement of the events the relay goroutines produce ([arrival_order]): the
     theorems hold for every interleaving of the answers, in particular for the time-sorted order
     the model uses and for every order of simultaneous answers the check tries
     (C09_time_order_is_arrival_order, C09_linearizations_are_arrival_orders).
   * [result_of cfgs s ord] is the strategy's Results; [served m rs st] what blockrelay.BuilderBid
     then answers to the beacon node.

   Scores: big.Int.Div is Euclidean; for the divisor 100 that is rounding towards minus infinity
   (C09_score_floor), not Go's integer truncation: (-50)/100 = -1.

   Known finding (deadline strategy): a relay's re-fetched bid is forwarded only when its VALUE
   exceeds the relay's previously forwarded bid, so an on-time eligible bid with a lower value but a
   higher score is never considered.  The main theorem for that strategy is therefore the _partial
   one (hypothesis [no_suppressed_better] = exactly the negation of that input class, on the calls
   answered before the deadline), C09_deadline_refuted* exhibit the witness, and
   C09_deadline_winner_is_max_value_record says what the code computes for all inputs. *)
From Verif Require Import Lib.Base Model.C09_Auction Model.C09_Spec Proofs.C09 Proofs.C09_Spec Check.C09 Proofs.C09_Check Proofs.C09_Dup.

(* ------------------------------------------------------------------------------------------- *)
(* Score and eligibility. *)

(* score = (value + offset) * factor / 100 with the builder's configuration (absent parts left out) *)
Theorem C09_score_formula :
  forall cfgs b,
    score cfgs b =
    let c := conf_of cfgs b in
    let base := (Z.of_N (b_value b) + match bc_offset c with Some o => o | None => 0 end)%Z in
    match bc_factor c with Some f => (base * f / 100)%Z | None => base end.
Proof. exact score_formula. Qed.
Print Assumptions C09_score_formula.

(* the division rounds down *)
Theorem C09_score_floor :
  forall cfgs b f,
    bc_factor (conf_of cfgs b) = Some f ->
    let base := (Z.of_N (b_value b) + match bc_offset (conf_of cfgs b) with Some o => o | None => 0 end)%Z in
    (100 * score cfgs b <= base * f < 100 * score cfgs b + 100)%Z.
Proof. exact score_floor. Qed.
Print Assumptions C09_score_floor.

(* an excluded builder (factor 0) always scores zero; an unconfigured builder scores its value *)
Theorem C09_excluded_builder_scores_zero :
  forall cfgs b, bc_factor (conf_of cfgs b) = Some 0%Z -> score cfgs b = 0%Z.
Proof. exact score_excluded. Qed.
Print Assumptions C09_excluded_builder_scores_zero.

Theorem C09_unconfigured_builder_scores_value :
  forall cfgs b, lookup (b_builder b) cfgs = None ->
                 score cfgs b = Z.of_N (b_value b) /\ cat_of cfgs b = std_cat.
Proof. exact score_unconfigured. Qed.
Print Assumptions C09_unconfigured_builder_scores_value.

Theorem C09_eligible_spelled_out :
  forall r b,
    eligible r b = true <->
    b_value b <> 0 /\ r_min r <= b_value b /\ b_zero_recipient b = false /\ b_ts_delta b = 0%Z
    /\ (forall k, eff_key r = Some k -> b_signer b = k).
Proof. exact eligible_iff. Qed.
Print Assumptions C09_eligible_spelled_out.

(* ------------------------------------------------------------------------------------------- *)
(* The collector (setBuilderBid folded over any list of forwarded bids). *)

Theorem C09_collect_inv : forall cfgs fw, inv cfgs fw (collect cfgs fw).
Proof. exact collect_inv. Qed.
Print Assumptions C09_collect_inv.

(* strictly greater replaces: the winner is the FIRST bid of maximal non-zero score *)
Theorem C09_first_best_wins :
  forall cfgs fw w,
    st_win (collect cfgs fw) = Some w ->
    exists r0 l1 l2, fw = l1 ++ (r0, p_bid w) :: l2
      /\ (forall rb, In rb l1 -> score cfgs (snd rb) = 0%Z \/ (score cfgs (snd rb) < p_score w)%Z)
      /\ (forall rb, In rb l2 -> score cfgs (snd rb) = 0%Z \/ (score cfgs (snd rb) <= p_score w)%Z).
Proof. exact first_best_wins. Qed.
Print Assumptions C09_first_best_wins.

(* Results.Participation: per relay the last bid handed to the collector, with its own score *)
Theorem C09_participation_is_last_forwarded :
  forall cfgs fw i,
    match lookup i (st_parts (collect cfgs fw)) with
    | Some p => p_score p = score cfgs (p_bid p) /\ p_cat p = cat_of cfgs (p_bid p)
                /\ exists l1 l2, fw = l1 ++ (i, p_bid p) :: l2 /\ forall b, ~ In (i, b) l2
    | None => forall b, ~ In (i, b) fw
    end.
Proof. exact participation_last. Qed.
Print Assumptions C09_participation_is_last_forwarded.

(* ------------------------------------------------------------------------------------------- *)
(* The winner is the best-scoring acceptable bid. *)

(* best (single shot): all relay sets, scripts, builder configurations, timeouts, arrival orders *)
Theorem C09_winner_is_max_eligible :
  forall cfgs T rs ord,
    arrival_order (Best T) rs ord ->
    winner_is_max cfgs (acceptable (Best T) rs) (st_win (result_of cfgs (Best T) ord)).
Proof. exact best_winner_is_max. Qed.
Print Assumptions C09_winner_is_max_eligible.

(* Full statement for the deadline strategy (refuted below):
     forall cfgs D gap rs ord, arrival_order (Deadline D gap) rs ord ->
       winner_is_max cfgs (acceptable (Deadline D gap) rs) (st_win (result_of cfgs (Deadline D gap) ord)).
   Proved: the same under [no_suppressed_better], i.e. outside the known-finding class
   "a relay's later on-time eligible bid has a value not above, but a score above, the bid the
   relay forwarded before (or that one scores zero)". *)
Theorem C09_winner_is_max_eligible_deadline_partial :
  forall cfgs D gap rs ord,
    arrival_order (Deadline D gap) rs ord ->
    no_suppressed_better cfgs (Deadline D gap) rs ->
    winner_is_max cfgs (acceptable (Deadline D gap) rs) (st_win (result_of cfgs (Deadline D gap) ord)).
Proof. exact deadline_winner_is_max_partial. Qed.
Print Assumptions C09_winner_is_max_eligible_deadline_partial.

(* the full statement is false of the deadline strategy *)
Theorem C09_deadline_refuted :
  exists cfgs D gap rs,
    ~ winner_is_max cfgs (acceptable (Deadline D gap) rs) (st_win (strategy_result cfgs (Deadline D gap) rs)).
Proof. exact deadline_refuted. Qed.
Print Assumptions C09_deadline_refuted.

(* ... a winner although an on-time eligible bid scores strictly higher
   (corpus/C09/deadline-suppressed-better-bid.json) *)
Theorem C09_deadline_refuted_lower_winner :
  exists cfgs D gap rs w j b,
    st_win (strategy_result cfgs (Deadline D gap) rs) = Some w
    /\ acceptable (Deadline D gap) rs j b /\ (p_score w < score cfgs b)%Z.
Proof. exact deadline_refuted_lower_winner. Qed.
Print Assumptions C09_deadline_refuted_lower_winner.

(* ... no winner (local payload) although an on-time eligible bid with a non-zero score exists
   (corpus/C09/deadline-excluded-then-lower.json) *)
Theorem C09_deadline_refuted_no_winner :
  exists cfgs D gap rs j b,
    st_win (strategy_result cfgs (Deadline D gap) rs) = None
    /\ acceptable (Deadline D gap) rs j b /\ score cfgs b <> 0%Z.
Proof. exact deadline_refuted_no_winner. Qed.
Print Assumptions C09_deadline_refuted_no_winner.

(* what the deadline strategy computes on ALL inputs: the best score among the relays' value
   records (eligible bids whose value exceeds every earlier eligible bid of the same relay) *)
Theorem C09_deadline_winner_is_max_value_record :
  forall cfgs D gap rs ord,
    arrival_order (Deadline D gap) rs ord ->
    winner_is_max cfgs (record_offer (Deadline D gap) rs) (st_win (result_of cfgs (Deadline D gap) ord)).
Proof. exact deadline_winner_is_max_record. Qed.
Print Assumptions C09_deadline_winner_is_max_value_record.

(* without per-builder configuration the deadline strategy satisfies the full statement *)
Theorem C09_winner_is_max_eligible_deadline_unconfigured :
  forall D gap rs ord,
    arrival_order (Deadline D gap) rs ord ->
    winner_is_max [] (acceptable (Deadline D gap) rs) (st_win (result_of [] (Deadline D gap) ord)).
Proof.
  intros D gap rs ord Hord. apply deadline_winner_is_max_partial; [exact Hord|].
  intros r _ _. apply no_suppressed_nil_cfgs.
Qed.
Print Assumptions C09_winner_is_max_eligible_deadline_unconfigured.

(* the winning score does not depend on the order in which the answers arrive (either strategy) *)
Theorem C09_winning_score_order_independent :
  forall cfgs s rs o1 o2,
    arrival_order s rs o1 -> arrival_order s rs o2 ->
    option_map p_score (st_win (result_of cfgs s o1)) = option_map p_score (st_win (result_of cfgs s o2)).
Proof. exact winning_score_order_independent. Qed.
Print Assumptions C09_winning_score_order_independent.

(* ------------------------------------------------------------------------------------------- *)
(* Ineligible, late and excluded bids never win (either strategy, every arrival order): the
   winning bid was answered, before the cut-off, by a configured relay the strategy asks (so not by
   one that cannot unblind under `best`, is no bid provider or has no usable address); there it has
   a non-zero value at least the relay's minimum, a non-zero fee recipient, the slot's timestamp
   and, when the relay's key is known, that key's signature; its score is not zero and its builder
   is not excluded; and that relay is listed for unblinding. *)
Theorem C09_ineligible_late_excluded_never_win :
  forall cfgs s rs ord w,
    arrival_order s rs ord -> st_win (result_of cfgs s ord) = Some w ->
    exists r t k,
      In r rs /\ queried s r = true
      /\ In (t, k, RBid (p_bid w)) (answered s r) /\ (t < cutoff s)%Z
      /\ (b_value (p_bid w) <> 0 /\ r_min r <= b_value (p_bid w) /\ b_zero_recipient (p_bid w) = false
          /\ b_ts_delta (p_bid w) = 0%Z /\ (forall key, eff_key r = Some key -> b_signer (p_bid w) = key))
      /\ score cfgs (p_bid w) <> 0%Z
      /\ bc_factor (conf_of cfgs (p_bid w)) <> Some 0%Z
      /\ In (r_idx r) (st_providers (result_of cfgs s ord)).
Proof. exact winner_is_acceptable. Qed.
Print Assumptions C09_ineligible_late_excluded_never_win.

(* whatever reaches the collector at all is an acceptable offer *)
Theorem C09_only_acceptable_bids_considered :
  forall s rs ord i b,
    arrival_order s rs ord -> In (i, b) (forwarded (cutoff s) ord) -> exists t, acceptable_at s rs i t b.
Proof. exact forwarded_acceptable. Qed.
Print Assumptions C09_only_acceptable_bids_considered.

(* ------------------------------------------------------------------------------------------- *)
(* Providers. *)

(* every relay listed for unblinding offered, acceptably, a bid with the winning header *)
Theorem C09_providers_offered_winning_payload :
  forall cfgs s rs ord w i,
    arrival_order s rs ord ->
    st_win (result_of cfgs s ord) = Some w -> In i (st_providers (result_of cfgs s ord)) ->
    exists t b, acceptable_at s rs i t b /\ b_header b = b_header (p_bid w).
Proof. exact providers_offered. Qed.
Print Assumptions C09_providers_offered_winning_payload.

(* the relay that offered the winning bid itself heads the list *)
Theorem C09_winner_relay_listed :
  forall cfgs s rs ord w,
    arrival_order s rs ord -> st_win (result_of cfgs s ord) = Some w ->
    exists r0 rest t, st_providers (result_of cfgs s ord) = r0 :: rest /\ acceptable_at s rs r0 t (p_bid w).
Proof. exact winner_relay_first. Qed.
Print Assumptions C09_winner_relay_listed.

(* Providers is a subset of AllProviders *)
Theorem C09_providers_among_all_providers :
  forall cfgs s rs ord i,
    arrival_order s rs ord -> In i (st_providers (result_of cfgs s ord)) -> In i (all_providers s rs).
Proof. exact providers_in_all_providers. Qed.
Print Assumptions C09_providers_among_all_providers.

(* ------------------------------------------------------------------------------------------- *)
(* No acceptable bid, no winner; and what the beacon node is served. *)

Theorem C09_none_eligible_no_winner :
  forall cfgs s rs ord,
    arrival_order s rs ord ->
    (forall i b, acceptable s rs i b -> score cfgs b = 0%Z) ->
    st_win (result_of cfgs s ord) = None /\ st_providers (result_of cfgs s ord) = []
    /\ forall m x, In x (served m rs (result_of cfgs s ord)) -> x = None.
Proof. exact none_acceptable_no_winner. Qed.
Print Assumptions C09_none_eligible_no_winner.

(* no relay configured: the strategy is not run, there is no winner and no bid is served *)
Theorem C09_no_relays_no_winner :
  forall cfgs s m x,
    st_win (auction_state cfgs s []) = None /\ (In x (served m [] (auction_state cfgs s [])) -> x = None).
Proof. exact no_relays_no_winner. Qed.
Print Assumptions C09_no_relays_no_winner.

(* cacheBid stores the winning bid or the zero-value dummy, and every BuilderBid answer is the
   winner's bid, or "no bid" (local payload) when there is no winner *)
Theorem C09_builderbid_serves_winner_or_no_bid :
  forall cfgs s rs ord m x,
    arrival_order s rs ord ->
    (rs <> [] -> auction_cache rs (result_of cfgs s ord) =
                 match st_win (result_of cfgs s ord) with Some w => CBid (p_bid w) | None => CDummy end)
    /\ (In x (served m rs (result_of cfgs s ord)) ->
        x = option_map (fun w => b_uid (p_bid w)) (st_win (result_of cfgs s ord))).
Proof.
  intros cfgs s rs ord m x Hord. split.
  - intros Hne. apply cache_entry. exact Hne.
  - apply served_is_winner. intros w Hw. apply (result_winner_value_nonzero cfgs s rs ord w Hord Hw).
Qed.
Print Assumptions C09_builderbid_serves_winner_or_no_bid.

(* BuilderBid calls made LATER for the auction's slot / parent / proposer -- any number of them, at
   any instants, with the relays answering ANYTHING by then ([nows] is arbitrary: bids that were not
   there, or not eligible, while the auction ran) -- each answer the auction's winner, or "no bid"
   when the auction had no winner, and ask no relay: a bid that turns up after the auction has closed
   never reaches the beacon node, and "no winner" stays "no winner" (local payload) *)
Theorem C09_later_builderbid_calls_serve_the_auction_result :
  forall cfgs s rs ord nows,
    arrival_order s rs ord -> rs <> [] ->
    late_queries cfgs (auction_cache rs (result_of cfgs s ord)) nows
    = map (fun _ => (option_map (fun w => b_uid (p_bid w)) (st_win (result_of cfgs s ord)), false)) nows.
Proof. exact late_queries_after_auction. Qed.
Print Assumptions C09_later_builderbid_calls_serve_the_auction_result.

(* the cache entry alone decides: a stored winner or dummy is answered as it is and stays *)
Theorem C09_later_builderbid_calls_answer_from_the_entry :
  forall cfgs c nows, c <> CNothing ->
    late_queries cfgs c nows = map (fun _ => (serve_cached c, false)) nows.
Proof. intros cfgs c nows Hc. apply late_queries_entry. exact Hc. Qed.
Print Assumptions C09_later_builderbid_calls_answer_from_the_entry.

(* no relay configured, during the auction and later: nobody is asked, every answer is "no bid" *)
Theorem C09_later_builderbid_calls_no_relays :
  forall cfgs ss, late_queries cfgs CNothing (map (fun s => (s, [])) ss) = map (fun _ => (None, false)) ss.
Proof. exact late_queries_no_relays. Qed.
Print Assumptions C09_later_builderbid_calls_no_relays.

(* ------------------------------------------------------------------------------------------- *)
(* The orders used by the model and by the check are arrival orders, so all of the above speaks
   about [strategy_result] and about every candidate order of [Check.C09.agree]. *)

Theorem C09_time_order_is_arrival_order :
  forall s rs, arrival_order s rs (by_time (all_events s rs)).
Proof. exact by_time_arrival_order. Qed.
Print Assumptions C09_time_order_is_arrival_order.

Theorem C09_linearizations_are_arrival_orders :
  forall s rs ord, In ord (linearizations (all_events s rs)) -> arrival_order s rs ord.
Proof. exact linearization_arrival_order. Qed.
Print Assumptions C09_linearizations_are_arrival_orders.

(* the same for the results the model computes (time-sorted arrival) *)
Theorem C09_strategy_result_winner_is_max :
  forall cfgs T rs,
    winner_is_max cfgs (acceptable (Best T) rs) (st_win (strategy_result cfgs (Best T) rs))
    /\ forall D gap, no_suppressed_better cfgs (Deadline D gap) rs ->
         winner_is_max cfgs (acceptable (Deadline D gap) rs) (st_win (strategy_result cfgs (Deadline D gap) rs)).
Proof.
  intros cfgs T rs. split.
  - apply best_winner_is_max, by_time_arrival_order.
  - intros D gap. apply deadline_winner_is_max_partial, by_time_arrival_order.
Qed.
Print Assumptions C09_strategy_result_winner_is_max.

(* errors, silences, ineligible and late answers are immaterial: two relay lists with the same
   acceptable offers give the same winning score, whatever else their relays do *)
Theorem C09_result_depends_only_on_acceptable_offers :
  forall cfgs T rs rs' ord ord',
    arrival_order (Best T) rs ord -> arrival_order (Best T) rs' ord' ->
    (forall i b, acceptable (Best T) rs i b <-> acceptable (Best T) rs' i b) ->
    option_map p_score (st_win (result_of cfgs (Best T) ord)) = option_map p_score (st_win (result_of cfgs (Best T) ord')).
Proof. exact best_score_depends_on_acceptable. Qed.
Print Assumptions C09_result_depends_only_on_acceptable_offers.

(* the call returns by the cut-off (hard timeout / deadline), whatever the relays do *)
Theorem C09_returns_by_cutoff :
  forall s rs, (0 <= cutoff s)%Z -> (0 <= elapsed s rs <= cutoff s)%Z.
Proof. exact elapsed_bounds. Qed.
Print Assumptions C09_returns_by_cutoff.

(* ------------------------------------------------------------------------------------------- *)
(* The check's predicate.  [Check.C09.P_b] is evaluated on the OBSERVED result of every case; its
   candidates are computed from the mock's call log and the relay scripts, not by the model.  When
   that log is the scripted one ([log_agrees], which [agree] checks) and relay names are distinct,
   the candidates are exactly the acceptable offers, and P_b = true means that the observed winner,
   provider list and served bids satisfy the declarative statement. *)

Theorem C09_check_candidates_are_acceptable :
  forall c, NoDup (map r_idx (c_relays c)) -> log_agrees c ->
            forall i b, In (i, b) (cands c) <-> acceptable (c_strat c) (c_relays c) i b.
Proof. exact cands_iff_acceptable. Qed.
Print Assumptions C09_check_candidates_are_acceptable.

(* the part of the candidates that is read off the input alone (the scripted first answer of a
   relay that both strategies must ask, ready at grace + latency) needs no hypothesis on the log:
   these are acceptable offers also when vouch never asked the relay or hung up on it *)
Theorem C09_check_first_call_candidates_are_acceptable :
  forall c i b, In (i, b) (first_cands c) -> acceptable (c_strat c) (c_relays c) i b.
Proof. exact first_cands_acceptable. Qed.
Print Assumptions C09_check_first_call_candidates_are_acceptable.

Theorem C09_agree_gives_log : forall c, agree c = true -> strategy_runs c = true -> log_agrees c.
Proof. exact agree_log. Qed.
Print Assumptions C09_agree_gives_log.

Theorem C09_P_b_sound :
  forall c,
    NoDup (map r_idx (c_relays c)) -> log_agrees c -> P_b c = true ->
    let P := acceptable (c_strat c) (c_relays c) in
    c_panic c = false
    /\ (c_has_results c = true ->
        obs_winner_is_max (c_cfgs c) P (c_win c) /\ obs_providers_ok P (c_win c) (c_providers c)
        /\ (forall j, In j (c_providers c) -> In j (c_allp c)))
    /\ (c_mode c <> MStrategy -> Forall (obs_served_ok (c_cfgs c) P) (c_served c))
    /\ (c_mode c <> MStrategy ->
        Forall (obs_served_ok (c_cfgs c) P) (c_late_served c)
        /\ forall o, auction_outcome c = Some o -> Forall (eq o) (c_late_served c)).
Proof. exact P_b_sound. Qed.
Print Assumptions C09_P_b_sound.

(* ------------------------------------------------------------------------------------------- *)
(* Non-vacuity. *)

(* two relays, the second offers more but late; a third offers most but with a bad timestamp; the
   winner is the first relay's bid and both strategies' hypotheses are met by a non-trivial run *)
Definition ex_relay (i : N) (lat : Z) (b : bid) : relay :=
  {| r_idx := i; r_kind := KFull; r_min := 5; r_cfg_key := Some 1; r_adv_key := None; r_grace := 0%Z;
     r_script := [(lat, RBid b)] |}.
Definition ex_rs : list relay :=
  [ ex_relay 0 10%Z (wit_bid 1 10 1 3);
    ex_relay 1 700%Z (wit_bid 2 50 1 4);
    ex_relay 2 20%Z {| b_uid := 3; b_value := 90; b_builder := 1; b_zero_recipient := false;
                       b_ts_delta := 12%Z; b_signer := 1; b_header := 5 |};
    ex_relay 3 30%Z (wit_bid 4 7 2 3) ].

Example C09_ex_best_winner :
  option_map (fun w => (p_score w, b_uid (p_bid w))) (st_win (strategy_result wit_cfgs_prefer (Best 500) ex_rs))
  = Some (14%Z, 4)
  /\ st_providers (strategy_result wit_cfgs_prefer (Best 500) ex_rs) = [3]
  /\ st_providers (strategy_result [] (Best 500) ex_rs) = [0; 3].
Proof. vm_compute. repeat split. Qed.

Example C09_ex_acceptable : acceptable (Best 500) ex_rs 0 (wit_bid 1 10 1 3).
Proof.
  exists 10%Z, (ex_relay 0 10%Z (wit_bid 1 10 1 3)), 0. repeat split.
  - left. reflexivity.
  - left. reflexivity.
Qed.

(* the deadline hypothesis holds on runs with several forwarded and kept-back bids ... *)
Example C09_ex_no_suppressed :
  let r := {| r_idx := 0; r_kind := KFull; r_min := 0; r_cfg_key := None; r_adv_key := None; r_grace := 0%Z;
              r_script := [(16%Z, RBid (wit_bid 1 10 1 3)); (16%Z, RBid (wit_bid 2 9 1 6));
                           (16%Z, RBid (wit_bid 3 12 2 7))] |} in
  no_suppressed_better wit_cfgs_prefer (Deadline 200 16) [r]
  /\ length (answered (Deadline 200 16) r) = 3%nat
  /\ option_map (fun w => (p_score w, b_uid (p_bid w))) (st_win (strategy_result wit_cfgs_prefer (Deadline 200 16) [r]))
     = Some (24%Z, 3).
Proof.
  cbn zeta. split; [|vm_compute; split; reflexivity].
  intros r [<- | []] _. vm_compute. reflexivity.
Qed.

(* ... and fails on the known-finding witnesses *)
Example C09_ex_witness_in_excluded_class :
  no_suppressed wit_cfgs_prefer wit_relay None (answered (Deadline 100 16) wit_relay) = false
  /\ no_suppressed wit_cfgs_exclude wit_relay None (answered (Deadline 100 16) wit_relay) = false.
Proof. exact wit_suppressed. Qed.

(* no acceptable bid: no winner, the beacon node is told "no bid" *)
Example C09_ex_no_winner :
  let rs := [ ex_relay 0 10%Z (wit_bid 1 4 1 3) ] in
  st_win (strategy_result [] (Best 500) rs) = None
  /\ served MAuction rs (strategy_result [] (Best 500) rs) = [None].
Proof. vm_compute. split; reflexivity. Qed.

(* an auction without winner, then two later calls while the relay has a fine bid: still "no bid",
   nobody asked; with a winner, later better bids do not replace it *)
Example C09_ex_later_calls :
  let rs := [ ex_relay 0 10%Z (wit_bid 1 4 1 3) ] in
  let rs_later := [ ex_relay 0 10%Z (wit_bid 501 900 1 8) ] in
  late_queries [] (auction_cache rs (strategy_result [] (Best 500) rs)) [(Best 500, rs_later); (Best 500, rs_later)]
  = [(None, false); (None, false)]
  /\ late_queries [] (auction_cache ex_rs (strategy_result [] (Best 500) ex_rs)) [(Best 500, rs_later)]
     = [(Some 1, false)]
  /\ late_queries [] CNothing [(Best 500, rs_later); (Best 500, rs)] = [(Some 501, true); (Some 501, false)].
Proof. vm_compute. repeat split. Qed.

(* ------------------------------------------------------------------------------------------- *)
(* The same bid message at several relays / under several signatures.  A bid MESSAGE (value, builder,
   fee recipient, timestamp, header) does not say who vouches for it: eligibility is decided for the
   relay that offers it, by that relay's own key and that relay's own minimum.  Whatever a strategy
   instance has learnt about a message (from another relay, an earlier poll, an earlier auction)
   changes nothing. *)

(* a message that is eligible at relay r is NOT eligible at a relay whose known key did not sign the
   copy it offers *)
Theorem C09_same_message_judged_by_the_offering_relays_key :
  forall r r' b b' k',
    eligible r b = true ->
    b_value b' = b_value b -> b_builder b' = b_builder b -> b_zero_recipient b' = b_zero_recipient b ->
    b_ts_delta b' = b_ts_delta b -> b_header b' = b_header b ->
    eff_key r' = Some k' -> b_signer b' <> k' ->
    eligible r' b' = false.
Proof. exact same_message_other_key_not_eligible. Qed.
Print Assumptions C09_same_message_judged_by_the_offering_relays_key.

(* ... nor at a relay whose minimum is above its value *)
Theorem C09_same_message_judged_by_the_offering_relays_minimum :
  forall r r' b b',
    eligible r b = true -> b_value b' = b_value b -> b_value b < r_min r' -> eligible r' b' = false.
Proof. exact same_message_below_other_minimum_not_eligible. Qed.
Print Assumptions C09_same_message_judged_by_the_offering_relays_minimum.

(* either strategy, every arrival order: a relay (of known key) none of whose answers carries its own
   key's signature -- it forwards what others signed -- is never listed for unblinding *)
Theorem C09_relay_that_only_forwards_is_never_listed :
  forall cfgs s rs ord w r k,
    arrival_order s rs ord -> st_win (result_of cfgs s ord) = Some w ->
    NoDup (map r_idx rs) -> In r rs -> eff_key r = Some k ->
    (forall t c b, In (t, c, RBid b) (answered s r) -> b_signer b <> k) ->
    ~ In (r_idx r) (st_providers (result_of cfgs s ord)).
Proof. exact forwarding_relay_never_listed. Qed.
Print Assumptions C09_relay_that_only_forwards_is_never_listed.

(* relay 0 (key 1) signs the message, relay 1 (key 2) forwards it with relay 0's signature and answers
   first: the signed copy wins and only relay 0 is listed, under both strategies *)
Example C09_ex_forwarded_copy :
  eligible (dup_relay 0 1 96%Z (dup_msg 1 1)) (dup_msg 1 1) = true
  /\ eligible (dup_relay 1 2 49%Z (dup_msg 1001 1)) (dup_msg 1001 1) = false
  /\ (forall s, In s [Best 500; Deadline 500 64] ->
        option_map (fun w => b_uid (p_bid w)) (st_win (strategy_result [] s dup_rs)) = Some 1
        /\ st_providers (strategy_result [] s dup_rs) = [0]).
Proof. exact dup_example. Qed.
