(* C08 — tie of the chunking arithmetic to the source by translation: the extent size of
   util.Scatter (util/scatter.go calculateExtentSize), about which scatter_partition and the
   delivery theorems are proved, equals the transcription gotrans regenerates on every run. *)
From Coq Require Import ZArith.
From Verif Require Import Lib.Base Lib.GoInt Gen.Pure_C08 Model.C08_Submitter Proofs.TieLib Proofs.Tie_C08.
Local Open Scope Z_scope.

(* items is a slice length, the concurrency any int, GOMAXPROCS positive *)
Theorem C08_tie_extent_size : forall (items conc gomax : Z),
  0 <= items < two63 -> in_i64 conc -> 0 < gomax < two63 ->
  extent_size items conc gomax = util_calculateExtentSize items conc gomax.
Proof. exact tie_extent_size. Qed.
Print Assumptions C08_tie_extent_size.

(* workers := inputLen/extentSize (+1 when there is a remainder), from the first statements of Scatter *)
Theorem C08_tie_scatter_workers : forall (items conc gomax : Z),
  0 < items < two63 -> in_i64 conc -> 0 < gomax < two63 ->
  util_scatterWorkers items conc gomax =
  (extent_size items conc gomax, worker_count items (extent_size items conc gomax)).
Proof. exact tie_scatter_workers. Qed.
Print Assumptions C08_tie_scatter_workers.

(* the (offset, entries) pair handed to worker w, from the body of Scatter's loop; slices shorter than
   2^62 elements so that offset+entries cannot overflow an int *)
Theorem C08_tie_scatter_extent : forall (items e w : Z),
  0 < items < 4611686018427387904 -> 0 < e <= items -> 0 <= w -> w * e < items ->
  util_scatterExtent w e items = extent_of items e w.
Proof. exact tie_scatter_extent. Qed.
Print Assumptions C08_tie_scatter_extent.

Example C08_tie_example :
  util_calculateExtentSize 10 4 16 = 2 /\ util_calculateExtentSize 5 0 16 = 1 /\ util_calculateExtentSize 7 (-3) 2 = 4.
Proof. vm_compute. repeat split. Qed.
