(* C13 — only configured accounts validate, and only while their validator is active.
   Property theorems only; lemmas in Proofs/C13.v (state filters), Proofs/C13_Store.v (stores and
   refresh histories), Proofs/C13_Match.v (specifier patterns), Lib/RegexM.v (the matcher); the
   model in Model/C13_Accounts.v.

   Reading guide.  [validator_to_state v e far] is go-eth2-client's ValidatorToState (balance nil)
   transcribed; [is_validating] / [is_sync_eligible] are the two filters of the accessors.  A
   [state] holds the ids of the known accounts and the validators manager's records; [refresh]
   is Refresh of the dirk / wallet account manager ([c_mgr cfg]) on top of
   RefreshValidatorsFromBeaconNode, driven by what the wallets offer ([offered]) and what the node
   answers ([vout]); [query cfg s sync e idx] is {Validating,SyncCommittee}AccountsForEpoch[ByIndex]
   as a list of (validator index, account id); [run_state parse cfg s ops] is the state after a
   history of refreshes and queries.  [parse] is the regular-expression parse oracle (Go's
   regexp/syntax run by the harness on each specifier part: its top-level alternatives); the
   theorems hold for every oracle.  [lang]/[full_lang]/[search_lang] are the semantics of the
   expressions (Lib/RegexM.v), [search] is regexp.MatchString. *)
From Verif Require Import Lib.Base Lib.RegexM Model.C13_Accounts Proofs.C13 Proofs.C13_Store Proofs.C13_Match Proofs.C13_Partial Proofs.C13_Default.
From Verif Require Import Check.C13 Proofs.C13_Check Model.C13_During Proofs.C13_During.
From Coq Require Import String.
Open Scope N_scope.

(* ------------------------------------------------------------------------------------------- *)
(* The matcher of the model decides the semantics: full match and regexp.MatchString. *)
Theorem C13_matcher_decides_full_match : forall r s, full_match r s = true <-> full_lang r s.
Proof. exact full_match_spec. Qed.
Print Assumptions C13_matcher_decides_full_match.

Theorem C13_matcher_decides_search :
  forall r s, search r s = true <->
              exists pre mid post, s = pre ++ mid ++ post /\ lang r (isnil pre) (isnil post) mid.
Proof. exact search_spec. Qed.
Print Assumptions C13_matcher_decides_search.

(* ------------------------------------------------------------------------------------------- *)
(* State filter.  For every validator record, every epoch below FAR_FUTURE_EPOCH, under the
   consensus invariant that a slashed validator has an exit epoch: the filter of
   ValidatingAccountsForEpoch[ByIndex] accepts the validator's state at e  iff  its activation
   epoch is reached, its exit epoch is not, and it is not slashed. *)
Theorem C13_state_filter :
  forall (v : val) (e far : N),
    e < far -> (v_slashed v = true -> v_exit v <> far) ->
    (is_validating (validator_to_state v e far) = true
     <-> v_act v <= e /\ e < v_exit v /\ v_slashed v = false).
Proof. exact state_filter. Qed.
Print Assumptions C13_state_filter.

(* Both hypotheses are needed (the proof forced them): without the invariant a slashed validator
   that has no exit epoch is reported as validating; at an epoch >= FAR_FUTURE_EPOCH a validator
   without exit epoch is reported although "e < exit" is false.  (The harness tags such cases
   slashed-without-exit / epoch-far and P_b accepts either answer on them.) *)
Theorem C13_state_filter_without_invariant_refuted :
  exists v e far, e < far /\ v_slashed v = true /\
                  is_validating (validator_to_state v e far) = true /\
                  ~ (v_act v <= e /\ e < v_exit v /\ v_slashed v = false).
Proof. exact state_filter_needs_invariant. Qed.
Print Assumptions C13_state_filter_without_invariant_refuted.

Theorem C13_state_filter_beyond_far_future_refuted :
  exists v e far, far <= e /\ (v_slashed v = true -> v_exit v <> far) /\
                  is_validating (validator_to_state v e far) = true /\
                  ~ (v_act v <= e /\ e < v_exit v /\ v_slashed v = false).
Proof. exact state_filter_needs_epoch_bound. Qed.
Print Assumptions C13_state_filter_beyond_far_future_refuted.

(* Sync-committee eligibility, all records, epochs and far-future values, no hypothesis: eligible
   iff activated and withdrawal is not done (exit epoch set and reached, withdrawable epoch
   reached, effective balance zero). *)
Theorem C13_sync_eligible :
  forall (v : val) (e far : N),
    is_sync_eligible (validator_to_state v e far) = true
    <-> v_act v <= e /\ ~ (v_exit v <> far /\ v_exit v <= e /\ v_wd v <= e /\ v_bal v = 0).
Proof. exact sync_filter. Qed.
Print Assumptions C13_sync_eligible.

(* "additionally keeps exited and slashed validators until withdrawal is done": every validating
   validator is sync eligible, and the eligible ones that are not validating are exactly the
   activated ones that are exited or slashed and whose withdrawal is not done. *)
Theorem C13_sync_keeps_exited_and_slashed :
  forall (v : val) (e far : N),
    e < far -> (v_slashed v = true -> v_exit v <> far) ->
    (is_validating (validator_to_state v e far) = true -> is_sync_eligible (validator_to_state v e far) = true)
    /\ (is_sync_eligible (validator_to_state v e far) = true /\ is_validating (validator_to_state v e far) = false
        <-> v_act v <= e /\ (v_exit v <= e \/ v_slashed v = true)
            /\ ~ (v_exit v <> far /\ v_exit v <= e /\ v_wd v <= e /\ v_bal v = 0)).
Proof.
  intros v e far He Hinv. split; [apply validating_is_sync_eligible | exact (sync_adds v e far He Hinv)].
Qed.
Print Assumptions C13_sync_keeps_exited_and_slashed.

(* ------------------------------------------------------------------------------------------- *)
(* Keyed by the correct validator index.  In every state (hence after every history), for the four
   accessors: (i, pk) is in the answer iff pk is a known account, the validators manager holds a
   record for pk, i is THAT record's index, i passes the index filter if one is given, and the
   record's state at e passes the accessor's filter. *)
Theorem C13_keyed_by_index :
  forall (cfg : config) (s : state) (sync : bool) (e : N) (idx : option (list N)) (i pk : N),
    In (i, pk) (query cfg s sync e idx) <->
    In pk (st_accounts s) /\
    exists v, find_val (st_vals s) pk = Some v /\ v_index v = i /\
              match idx with Some l => In i l | None => True end /\
              (if sync then is_sync_eligible else is_validating) (validator_to_state v e (c_far cfg)) = true.
Proof. exact query_In. Qed.
Print Assumptions C13_keyed_by_index.

(* The answer is a map: after every history from the empty service, no validator index occurs
   twice in an answer, provided account ids are distinct and no answer of the node files two
   public keys under one index. *)
Theorem C13_answer_is_a_map :
  forall parse (cfg : config) (ops : list op) (sync : bool) (e : N) (idx : option (list N)),
    NoDup (map a_id (c_universe cfg)) ->
    (forall offered vo, In (Refresh offered vo) ops ->
       forall v1 v2, In v1 (vout_vals vo) -> In v2 (vout_vals vo) -> v_index v1 = v_index v2 -> v_pk v1 = v_pk v2) ->
    NoDup (map fst (query cfg (run_state parse cfg init ops) sync e idx)).
Proof. exact history_query_keys_nodup. Qed.
Print Assumptions C13_answer_is_a_map.

(* Validating accounts, after every history (any manager, any specifiers, any refresh outcomes)
   whose node answers respect the consensus invariant, at every epoch below FAR_FUTURE_EPOCH:
   exactly the known accounts whose validator is active and not slashed, under that validator's
   index. *)
Theorem C13_validating_exactly :
  forall parse (cfg : config) (ops : list op) (e : N) (idx : option (list N)) (i pk : N),
    e < c_far cfg ->
    (forall offered vo, In (Refresh offered vo) ops ->
       Forall (fun v => v_slashed v = true -> v_exit v <> c_far cfg) (vout_vals vo)) ->
    let s := run_state parse cfg init ops in
    (In (i, pk) (query cfg s false e idx) <->
     In pk (st_accounts s) /\
     exists v, find_val (st_vals s) pk = Some v /\ v_index v = i /\
               match idx with Some l => In i l | None => True end /\
               v_act v <= e /\ e < v_exit v /\ v_slashed v = false).
Proof. exact history_validating_exactly. Qed.
Print Assumptions C13_validating_exactly.

Theorem C13_sync_committee_exactly :
  forall (cfg : config) (s : state) (e : N) (idx : option (list N)) (i pk : N),
    In (i, pk) (query cfg s true e idx) <->
    In pk (st_accounts s) /\
    exists v, find_val (st_vals s) pk = Some v /\ v_index v = i /\
              match idx with Some l => In i l | None => True end /\
              v_act v <= e /\ ~ (v_exit v <> c_far cfg /\ v_exit v <= e /\ v_wd v <= e /\ v_bal v = 0).
Proof. exact sync_exactly. Qed.
Print Assumptions C13_sync_committee_exactly.

(* The ...ByIndex accessors answer the restriction of the plain ones to the given indices. *)
Theorem C13_by_index_restricts :
  forall (cfg : config) (s : state) (sync : bool) (e : N) (l : list N) (i pk : N),
    In (i, pk) (query cfg s sync e (Some l)) <-> In (i, pk) (query cfg s sync e None) /\ In i l.
Proof. exact query_by_index_restricts. Qed.
Print Assumptions C13_by_index_restricts.

(* Only configured accounts validate: whoever is reported, by any accessor after any history from
   the empty service, is in the admitted set of a refresh of that history -- the set C13_full_match
   characterises -- and that set is the whole current account store. *)
Theorem C13_reported_was_admitted :
  forall parse (cfg : config) (ops : list op) (sync : bool) (e : N) (idx : option (list N)) (i pk : N),
    In (i, pk) (query cfg (run_state parse cfg init ops) sync e idx) ->
    exists offered vo, In (Refresh offered vo) ops /\ In pk (admitted parse cfg offered) /\
                       st_accounts (run_state parse cfg init ops) = admitted parse cfg offered.
Proof. exact reported_was_admitted. Qed.
Print Assumptions C13_reported_was_admitted.

(* The outputs the correspondence check compares ([run_from], one per operation) are those of the
   states the theorems speak about ([run_state]). *)
Theorem C13_outputs_follow_states :
  forall parse (cfg : config) (ops : list op) (s : state),
    (forall sync e idx,
       run_from parse cfg s (ops ++ [Query sync e idx]) =
       run_from parse cfg s ops ++ [OQuery (query cfg (run_state parse cfg s ops) sync e idx)])
    /\ (forall offered vo,
       run_from parse cfg s (ops ++ [Refresh offered vo]) =
       run_from parse cfg s ops ++
       [OProbe (sort_by (fun x => x) (st_accounts (run_state parse cfg s (ops ++ [Refresh offered vo]))))]).
Proof.
  intros parse cfg ops s. split; intros.
  - apply run_from_query.
  - apply run_from_refresh.
Qed.
Print Assumptions C13_outputs_follow_states.

(* ------------------------------------------------------------------------------------------- *)
(* Retention.  One refresh: when the remote signer offers nothing admissible and the node fails or
   answers nothing for the known accounts, the dirk manager's whole state is unchanged (hence so
   is every later answer); in both managers a failing or empty answer of the node leaves the
   validator store unchanged. *)
Theorem C13_retain_on_empty :
  forall parse (cfg : config) (s : state) (offered : list N) (vo : vout),
    (c_mgr cfg = Dirk -> admitted parse cfg offered = [] ->
     match node_reply vo (st_accounts s) with None => True | Some got => got = [] end ->
     refresh parse cfg s offered vo = s)
    /\ (c_mgr cfg = Dirk -> admitted parse cfg offered = [] ->
        st_accounts (refresh parse cfg s offered vo) = st_accounts s)
    /\ (match node_reply vo (refresh_accounts parse cfg (st_accounts s) offered) with
        | None => True
        | Some got => got = []
        end -> st_vals (refresh parse cfg s offered vo) = st_vals s).
Proof.
  intros parse cfg s offered vo. split; [|split].
  - exact (dirk_empty_refresh_is_identity parse cfg s offered vo).
  - exact (dirk_empty_offer_keeps_accounts parse cfg s offered vo).
  - exact (empty_answer_keeps_validators parse cfg s offered vo).
Qed.
Print Assumptions C13_retain_on_empty.

(* Histories (induction over refresh-outcome histories): after any history the dirk manager knows
   the admitted set of the most recent refresh that admitted anything, and the validators manager
   (under either account manager) holds the most recent non-empty answer obtained. *)
Theorem C13_retain_on_empty_histories :
  forall parse (cfg : config) (ops : list op),
    (c_mgr cfg = Dirk ->
     st_accounts (run_state parse cfg init ops) =
     last_nonempty (map (fun r => admitted parse cfg (fst r)) (refreshes ops)))
    /\ st_vals (run_state parse cfg init ops) = last_nonempty (val_outcomes parse cfg [] ops).
Proof.
  intros parse cfg ops. split; [exact (dirk_accounts_closed_form parse cfg ops) | exact (validators_closed_form parse cfg ops)].
Qed.
Print Assumptions C13_retain_on_empty_histories.

(* ... so nothing known is ever wiped, whatever follows. *)
Theorem C13_never_wiped :
  forall parse (cfg : config) (ops : list op) (s : state),
    (c_mgr cfg = Dirk -> st_accounts s <> [] -> st_accounts (run_state parse cfg s ops) <> [])
    /\ (st_vals s <> [] -> st_vals (run_state parse cfg s ops) <> []).
Proof.
  intros parse cfg ops s. split; [exact (dirk_accounts_never_wiped parse cfg ops s) | exact (validators_never_wiped parse cfg ops s)].
Qed.
Print Assumptions C13_never_wiped.

(* The local wallet manager (not named by the retention clause) replaces its list
   unconditionally: it knows what the last refresh admitted. *)
Theorem C13_wallet_manager_replaces :
  forall parse (cfg : config) (ops : list op) (s : state),
    c_mgr cfg = Wallet ->
    st_accounts (run_state parse cfg s ops) =
    last (map (fun r => admitted parse cfg (fst r)) (refreshes ops)) (st_accounts s).
Proof. exact wallet_accounts_closed_form_from. Qed.
Print Assumptions C13_wallet_manager_replaces.

(* ------------------------------------------------------------------------------------------- *)
(* Full match, every list of specifiers (plain, wallet-only, regular expressions, with or without
   anchors, with or without alternation).  The only hypothesis is about the parse oracle: in a
   part without any `|` character it finds a single alternative (true of every parser).

   dirk: an account is admitted by a refresh iff it is in the universe, offered, its wallet is one
   the manager opens, and either the short circuit fires or some specifier is about its wallet
   and its WHOLE wallet/account name matches (wallet part)/(account part), the alternatives of
   each part grouped. *)
Theorem C13_full_match :
  forall parse (cfg : config) (offered : list N) (id : N),
    c_mgr cfg = Dirk ->
    (forall path, In path (c_paths cfg) ->
       forall p0 p1, dirk_parts path = Some (p0, p1) ->
         (has_bar p0 = false -> forall l, parse p0 = Some l -> exists r, l = [r]) /\
         (has_bar p1 = false -> forall l, parse p1 = Some l -> exists r, l = [r])) ->
    (In id (admitted parse cfg offered) <->
     exists a, In a (c_universe cfg) /\ a_id a = id /\ In id offered /\
               In (a_wallet a) (wallet_names cfg) /\
               (dirk_short_circuit parse (c_paths cfg) a = true \/
                exists path, In path (c_paths cfg) /\
                  exists p0 p1 ws accs,
                    dirk_parts path = Some (p0, p1) /\ p0 = a_wallet a /\
                    parse p0 = Some ws /\ parse p1 = Some accs /\
                    full_lang (Seq (alts ws) (Seq slash (alts accs))) (codes (full_name a)))).
Proof. exact dirk_admitted_full_match. Qed.
Print Assumptions C13_full_match.

(* The short circuit (wallet names without `|`) fires only when exactly one compiled specifier is
   about the wallet and its account part is .* ; when the wallet's name read as an expression
   matches itself and .* has its usual meaning, it then admits only accounts whose whole
   (newline-free) name matches that specifier: an optimisation, not an extra door. *)
Theorem C13_short_circuit_sound :
  forall parse (paths : list string) (a : account),
    has_bar (a_wallet a) = false ->
    dirk_short_circuit parse paths a = true ->
    (exists path p1, In path paths /\ dirk_parts path = Some (a_wallet a, p1) /\ p1 = ".*"%string /\
       exists p, dirk_pattern parse path = Some p /\
                 filter (fun p => String.eqb (p_key p) (a_wallet a)) (dirk_patterns parse paths) = [p])
    /\ (parse (a_wallet a) = Some [lit (a_wallet a)] ->
        parse ".*"%string = Some [Star (Cls [(0, 9); (11, 1114111)])] ->
        Forall (fun c => in_cls c [(0, 9); (11, 1114111)] = true) (codes (a_name a)) ->
        exists path, In path paths /\
          exists p0 p1 ws accs,
            dirk_parts path = Some (p0, p1) /\ p0 = a_wallet a /\
            parse p0 = Some ws /\ parse p1 = Some accs /\
            full_lang (Seq (alts ws) (Seq slash (alts accs))) (codes (full_name a))).
Proof.
  intros parse paths a Hb H. split.
  - exact (dirk_short_circuit_spec parse paths a Hb H).
  - intros Hw Hd Hn. exact (dirk_short_circuit_sound parse paths a Hb Hw Hd Hn H).
Qed.
Print Assumptions C13_short_circuit_sound.

(* wallet manager: the wallet part is used as written, every pattern is tried on every opened
   wallet, and the account must unlock. *)
Theorem C13_full_match_wallet :
  forall parse (cfg : config) (offered : list N) (id : N),
    c_mgr cfg = Wallet ->
    (forall path, In path (c_paths cfg) ->
       forall p0 p1, wallet_parts path = Some (p0, p1) ->
         (has_bar p0 = false -> forall l, parse p0 = Some l -> exists r, l = [r]) /\
         (has_bar p1 = false -> forall l, parse p1 = Some l -> exists r, l = [r])) ->
    (In id (admitted parse cfg offered) <->
     exists a, In a (c_universe cfg) /\ a_id a = id /\ In id offered /\
               In (a_wallet a) (wallet_names cfg) /\ a_locked a = false /\
               exists path, In path (c_paths cfg) /\
                 exists p0 p1 ws accs,
                   wallet_parts path = Some (p0, p1) /\
                   parse p0 = Some ws /\ parse p1 = Some accs /\
                   full_lang (Seq (alts ws) (Seq slash (alts accs))) (codes (full_name a))).
Proof. exact wallet_admitted_full_match. Qed.
Print Assumptions C13_full_match_wallet.

(* What "the whole name matches wallet/account" means: the name splits at a slash into a text that
   one alternative of the wallet part matches from the beginning of the name and a text that one
   alternative of the account part matches up to the end of the name -- nothing before, nothing
   after, nothing in between. *)
Theorem C13_full_match_meaning :
  forall (ws accs : list re) (s : list N),
    full_lang (Seq (alts ws) (Seq slash (alts accs))) s <->
    exists w n, s = w ++ 47 :: n /\
                (exists rw, In rw ws /\ lang rw true false w) /\
                (exists ra, In ra accs /\ lang ra false true n).
Proof.
  intros ws accs s. rewrite full_parts_split. split; intros (w & n & Hs & Hw & Hn); exists w, n;
    (split; [exact Hs|]); split; apply lang_alts; assumption.
Qed.
Print Assumptions C13_full_match_meaning.

(* The anchored pattern of one specifier whose parts are grouped, found anywhere in a name by
   regexp.MatchString, is the full match of its two parts. *)
Theorem C13_anchored_pattern_is_full_match :
  forall (rw ra : re) (s : list N),
    search (textual_concat [[Bol]; [rw]; [slash]; [ra]; [Eol]]) s = true
    <-> full_lang (Seq rw (Seq slash ra)) s.
Proof. intros rw ra s. rewrite search_spec. exact (anchored_parts_full rw ra s). Qed.
Print Assumptions C13_anchored_pattern_is_full_match.

(* Why the grouping matters (the statement the un-repaired managers REFUTED; fixed in the
   repository, witnesses corpus/C13/alternation-escapes-anchor-*.json): the text ^W/a|b$ spliced
   without grouping reads (^W/a)|(b$) and is found in W/ax and in zzxb, which do not match
   W/(a|b).  With the grouping both managers admit exactly W/a and W/b. *)
Theorem C13_full_match_ungrouped_refuted :
  exists (ws accs : list re) (s1 s2 : list N),
    ws = [lit "W"] /\ accs = [Chr 97; Chr 98] /\ s1 = codes "W/ax" /\ s2 = codes "zzxb" /\
    search (textual_concat [[Bol]; ws; [slash]; accs; [Eol]]) s1 = true /\
    search (textual_concat [[Bol]; ws; [slash]; accs; [Eol]]) s2 = true /\
    ~ full_lang (Seq (alts ws) (Seq slash (alts accs))) s1 /\
    ~ full_lang (Seq (alts ws) (Seq slash (alts accs))) s2.
Proof.
  exists [lit "W"], [Chr 97; Chr 98], (codes "W/ax"), (codes "zzxb").
  destruct ungrouped_alternation_escapes as (H1 & H2 & H3 & H4).
  repeat (split; [reflexivity || assumption|]). assumption.
Qed.
Print Assumptions C13_full_match_ungrouped_refuted.

(* The enclosing may not be decided from how the part's text begins and ends.  (val-a)|(val-b)
   begins with "(" and ends with ")" and yet its alternation is at top level: spliced as it is,
   ^wallet1/(val-a)|(val-b)$ is found in wallet1/val-a-retired and in wallet1/old-val-b, which do
   not match wallet1/((val-a)|(val-b)).  (Seeded change C13-2, an "already grouped" shortcut in
   utils.GroupAlternatives; witnesses corpus/C13/group-per-alternative-*.json.) *)
Theorem C13_full_match_group_per_alternative_refuted :
  exists (text : string) (ws accs : list re) (s1 s2 : list N),
    text = "(val-a)|(val-b)"%string /\
    has_bar text = true /\
    (exists rest, text = String "(" rest) /\ (exists front, text = (front ++ ")")%string) /\
    ws = [lit "wallet1"] /\ accs = [lit "val-a"; lit "val-b"] /\
    s1 = codes "wallet1/val-a-retired" /\ s2 = codes "wallet1/old-val-b" /\
    search (textual_concat [[Bol]; ws; [slash]; accs; [Eol]]) s1 = true /\
    search (textual_concat [[Bol]; ws; [slash]; accs; [Eol]]) s2 = true /\
    ~ full_lang (Seq (alts ws) (Seq slash (alts accs))) s1 /\
    ~ full_lang (Seq (alts ws) (Seq slash (alts accs))) s2.
Proof.
  exists "(val-a)|(val-b)"%string, [lit "wallet1"], [lit "val-a"; lit "val-b"],
         (codes "wallet1/val-a-retired"), (codes "wallet1/old-val-b").
  destruct group_per_alternative_escapes as (H0 & H1 & H2 & H3 & H4 & H5 & H6).
  split; [reflexivity|]. split; [exact H0|]. split; [exact H1|]. split; [exact H2|].
  repeat (split; [reflexivity || assumption|]). assumption.
Qed.
Print Assumptions C13_full_match_group_per_alternative_refuted.

(* ... and what the managers do instead: a part is enclosed exactly when its text contains `|`,
   whatever it begins and ends with (the text handed to regexp.Compile, and its meaning). *)
Theorem C13_enclosed_whenever_bar :
  forall (text : string) (alternatives : list re),
    (has_bar text = true ->
       group_text text = ("(?:" ++ text ++ ")")%string /\ group text alternatives = [alts alternatives]) /\
    (has_bar text = false ->
       group_text text = text /\ group text alternatives = alternatives).
Proof.
  intros text alternatives. split; intro H.
  - split; [apply group_text_by_bar_only | apply group_by_bar_only]; exact H.
  - unfold group_text, group. rewrite H. split; reflexivity.
Qed.
Print Assumptions C13_enclosed_whenever_bar.

(* ------------------------------------------------------------------------------------------- *)
(* The order of the normalisation steps.  The managers substitute `.*` ("no account specifier means
   all accounts in the wallet") for an ABSENT or TEXTUALLY EMPTY account part first and remove one
   `^` and one `$` of each part afterwards.  Hence, for every specifier the dirk manager accepts:
   the account part handed to the pattern is `.*` exactly when the written one is absent, empty, or
   `.*` itself between anchors; and it is the empty expression exactly when the written one
   consists of anchors alone (`^`, `$`, `^$`) -- such a part is NOT replaced by `.*`. *)
Theorem C13_default_only_without_account_part :
  forall (path p0 p1 : string),
    dirk_parts path = Some (p0, p1) ->
    (p1 = ".*"%string <->
     exists w rest, split_slash path = w :: rest /\
       match rest with [] => True | x :: _ => x = ""%string \/ strip_anchors x = ".*"%string end)
    /\ (p1 = ""%string <->
        exists w x rest, split_slash path = w :: x :: rest /\
          (x = "^"%string \/ x = "$"%string \/ x = "^$"%string)).
Proof.
  intros path p0 p1 H. split.
  - exact (dirk_account_part_default_iff path p0 p1 H).
  - exact (dirk_account_part_empty_iff path p0 p1 H).
Qed.
Print Assumptions C13_default_only_without_account_part.

(* A specifier  wallet / anchors-only  names the empty account name and nothing else, in both
   managers, for every wallet name, every account name and every oracle that reads the wallet's
   name as itself and the empty text as the empty expression: no account the signer or the store
   offers under a non-empty name is admitted through it. *)
Theorem C13_anchor_only_account_part_admits_only_the_empty_name :
  forall parse (path w x : string) (rest : list string) (a : account),
    split_slash path = w :: x :: rest -> w <> ""%string ->
    x = "^"%string \/ x = "$"%string \/ x = "^$"%string ->
    has_bar (a_wallet a) = false ->
    parse (a_wallet a) = Some [lit (a_wallet a)] -> parse ""%string = Some [Eps] ->
    (strip_anchors w = a_wallet a ->
     (dirk_admits (dirk_patterns parse [path]) a = true <-> a_name a = ""%string))
    /\ (w = a_wallet a ->
        (wallet_admits (wallet_patterns parse [path]) a = true <-> a_name a = ""%string /\ a_locked a = false)).
Proof.
  intros parse path w x rest a Hs Hw Hx Hbar Hpw Hpe. split.
  - intro Hwa. exact (dirk_anchor_only_account_part parse path w x rest a Hs Hw Hx Hwa Hbar Hpw Hpe).
  - intro Hwa. subst w. exact (wallet_anchor_only_account_part parse path x rest a Hs Hw Hx Hbar Hpw Hpe).
Qed.
Print Assumptions C13_anchor_only_account_part_admits_only_the_empty_name.

(* The other order -- anchors removed first, `.*` substituted for whatever is empty then
   ([dirk_parts_default_after_strip], seeded change C13-8) -- is the code on every specifier whose
   account part is not anchors alone (so no test over wallets, plain names and expressions with or
   without anchors tells them apart) ... *)
Theorem C13_default_after_strip_invisible_otherwise :
  forall path : string,
    (forall w x rest, split_slash path = w :: x :: rest ->
       x <> "^"%string /\ x <> "$"%string /\ x <> "^$"%string) ->
    dirk_parts_default_after_strip path = dirk_parts path.
Proof. exact default_after_strip_invisible. Qed.
Print Assumptions C13_default_after_strip_invisible_otherwise.

(* ... and on wallet1/^$, wallet1/$, wallet1/^ it hands `.*` to the pattern, whose text
   ^wallet1/.*$ is the short circuit's: account1 is admitted, where the code's ^wallet1/$ admits the
   empty name only. *)
Theorem C13_default_after_strip_refuted :
  forall x : string, x = "^$"%string \/ x = "$"%string \/ x = "^"%string ->
    dirk_parts ("wallet1/" ++ x)%string = Some ("wallet1", "")%string /\
    dirk_parts_default_after_strip ("wallet1/" ++ x)%string = Some ("wallet1", ".*")%string /\
    option_map p_text (dirk_pattern oracle_wallet1 ("wallet1/" ++ x)%string) = Some "^wallet1/$"%string /\
    option_map p_text (dirk_pattern_default_after_strip oracle_wallet1 ("wallet1/" ++ x)%string) = Some "^wallet1/.*$"%string /\
    dirk_admits (filter_map (dirk_pattern_default_after_strip oracle_wallet1) [("wallet1/" ++ x)%string])
                (acct_wallet1 "account1"%string 1) = true /\
    dirk_admits (dirk_patterns oracle_wallet1 [("wallet1/" ++ x)%string]) (acct_wallet1 "account1"%string 1) = false /\
    dirk_admits (dirk_patterns oracle_wallet1 [("wallet1/" ++ x)%string]) (acct_wallet1 ""%string 2) = true.
Proof. exact default_after_strip_refuted. Qed.
Print Assumptions C13_default_after_strip_refuted.

(* ------------------------------------------------------------------------------------------- *)
(* Partial failures.  The validators manager makes ONE request for all the accounts' keys.  When
   the node fails every request that names some key pk (a time-out, a rejection caused by what
   the request contains) and pk is among the keys asked for, the refresh obtains nothing and the
   validator store is exactly what it was -- whatever the node would have answered about the
   other keys; when pk is not asked for, the refresh is the healthy one. *)
Theorem C13_partial_failure_keeps_everything :
  forall parse (cfg : config) (s : state) (offered : list N) (pk : N) (l : list val),
    (In pk (refresh_accounts parse cfg (st_accounts s) offered) ->
     st_vals (refresh parse cfg s offered (VFailOn pk l)) = st_vals s)
    /\ (~ In pk (refresh_accounts parse cfg (st_accounts s) offered) ->
        refresh parse cfg s offered (VFailOn pk l) = refresh parse cfg s offered (VOk l)).
Proof.
  intros parse cfg s offered pk l. split.
  - exact (fail_on_known_key_keeps_validators parse cfg s offered pk l).
  - exact (fail_on_other_key_is_healthy parse cfg s offered pk l).
Qed.
Print Assumptions C13_partial_failure_keeps_everything.

(* Every node behaviour, one refresh: a validator that was known is lost only if the node answered
   the request for the accounts' keys, its answer was not empty, and the validator was not in it
   (the store is then that answer).  No failure, total or partial, loses a known validator. *)
Theorem C13_known_validator_lost_only_by_answer :
  forall parse (cfg : config) (s : state) (offered : list N) (vo : vout) (pk : N) (v : val),
    find_val (st_vals s) pk = Some v ->
    find_val (st_vals (refresh parse cfg s offered vo)) pk = None ->
    exists got, node_reply vo (refresh_accounts parse cfg (st_accounts s) offered) = Some got /\
                got <> [] /\ find_val got pk = None /\ st_vals (refresh parse cfg s offered vo) = got.
Proof. exact known_validator_lost_only_by_answer. Qed.
Print Assumptions C13_known_validator_lost_only_by_answer.

(* Why one request (or all-or-nothing): a refresh that asks in batches, skips a failed batch and
   REPLACES the maps by what the other batches returned ([refresh_validators_batched],
   Proofs/C13_Partial.v -- not the code) loses the known validators of the failed batch, where the
   code keeps them; and with no more keys than the batch size it cannot be told from the code,
   which is why only installations above the batch size show the difference. *)
Theorem C13_batched_replace_refuted :
  exists (size : nat) (old : list val) (pubkeys : list N) (vo : vout) (pk : N) (v : val),
    find_val old pk = Some v
    /\ find_val (refresh_validators old pubkeys vo) pk = Some v
    /\ find_val (refresh_validators_batched size old pubkeys vo) pk = None.
Proof.
  exists 2%nat, [ex_v 1; ex_v 2; ex_v 3], [1; 2; 3], (VFailOn 3 [ex_v 1; ex_v 2; ex_v 3]), 3, (ex_v 3).
  destruct batched_replace_wipes as (H1 & H2 & H3 & _). auto.
Qed.
Print Assumptions C13_batched_replace_refuted.

Theorem C13_batching_invisible_below_batch_size :
  forall (size : nat) (old : list val) (pubkeys : list N) (vo : vout),
    (List.length pubkeys <= size)%nat ->
    refresh_validators_batched size old pubkeys vo = refresh_validators old pubkeys vo.
Proof. exact batched_with_one_batch_is_the_code. Qed.
Print Assumptions C13_batching_invisible_below_batch_size.

(* ------------------------------------------------------------------------------------------- *)
(* What the check's predicate establishes about an OBSERVED history (the model is not involved):
   P_b true means -- unless the wallet manager's constructor failed on a failing first validator
   refresh -- that from the empty service every observed refresh result and every observed answer
   satisfies the property, step by step ([holds], Proofs/C13_Check.v):
   a refresh result either contains only offered accounts covered by a specifier (whole name
   matches (wallet part)/(account part), or the wallet is named as a whole) and every offered,
   unlockable account a plain specifier names, or is the old list (nothing that must be used
   having been offered), and the dirk manager's list is never wiped; an answer contains only
   (index, account) pairs of known accounts' validators under their own index, within the index
   filter, active-and-unslashed resp. sync eligible at the epoch (or outside the hypotheses of
   C13_state_filter), and contains all of those that are within the hypotheses; the validator
   store the answers are judged against is never replaced by an error or an empty answer. *)
Theorem C13_P_b_sound :
  forall c : case,
    P_b c = true ->
    (exists offered vo ops', c_mgr (c_cfg c) = Wallet /\ c_ops c = Refresh offered vo :: ops' /\
                             node_may_fail (lookup_parse (c_parse c)) (c_cfg c) offered vo /\
                             exists rest, c_outs c = OCtorErr :: rest)
    \/ holds (lookup_parse (c_parse c)) (c_cfg c) [] [] (c_ops c) (c_outs c).
Proof. exact P_b_sound. Qed.
Print Assumptions C13_P_b_sound.

(* The validator store against which [holds] (hence P_b) judges the answers that follow a refresh
   during which the node failed the requests naming a key of a known account is the store of
   before: after such a refresh every validator known before must still be answered for. *)
Theorem C13_P_b_partial_failure_keeps_store :
  forall (cfg : config) (vals : list val) (known : list N) (pk : N) (l : list val),
    In pk known -> next_vals cfg vals known (VFailOn pk l) = vals.
Proof. exact next_vals_fail_on. Qed.
Print Assumptions C13_P_b_partial_failure_keeps_store.

(* ... and what `agree` establishes: on a case where it is true the observed outputs are the
   model's, so the theorems about [run] / [run_state] speak about what the implementation did. *)
Theorem C13_agree_sound :
  forall c : case,
    agree c = true -> c_outs c = run (lookup_parse (c_parse c)) (c_cfg c) (c_ops c).
Proof. exact agree_sound. Qed.
Print Assumptions C13_agree_sound.

(* ------------------------------------------------------------------------------------------- *)
(* Queries and refreshes that overlap.  Refresh waits for the signer and for the node without
   holding a lock, and the duties ask for the accounts of an epoch at any time.  The accessors are
   observations: for EVERY history, the answer to the query at position k is the query on the state
   produced by the refreshes before position k -- however many queries were made before it, at
   which epochs, and whatever they were answered.  ([is_refresh] keeps the Refresh operations.) *)
Theorem C13_answer_depends_on_refreshes_only :
  forall parse cfg (ops : list op) (k : nat) (s : state) sync e idx,
    nth_error ops k = Some (Query sync e idx) ->
    nth_error (run_from parse cfg s ops) k =
    Some (OQuery (query cfg (run_state parse cfg s (filter is_refresh (firstn k ops))) sync e idx)).
Proof. exact answer_depends_on_refreshes_only. Qed.
Print Assumptions C13_answer_depends_on_refreshes_only.

(* Every query that starts after Refresh has returned sees the refreshed stores. *)
Theorem C13_after_refresh_sees_refreshed :
  forall parse cfg ops1 offered vo sync e idx ops2,
    nth_error (run_from parse cfg init (ops1 ++ Refresh offered vo :: Query sync e idx :: ops2)) (S (List.length ops1)) =
    Some (OQuery (query cfg (refresh parse cfg (run_state parse cfg init ops1) offered vo) sync e idx)).
Proof. exact after_refresh_sees_refreshed. Qed.
Print Assumptions C13_after_refresh_sees_refreshed.

(* A query that lands INSIDE the refresh at position [dq_at d] of a history (while the wallets are
   listed: AtAccounts; while the node is asked: AtValidators) is answered with the query on a
   state each of whose two stores is the store of before or the store of after that refresh; when
   the call returned only after the refresh had ([b = true]), on the refreshed state.
   [during_answers] is what `agree` compares the observed answers with. *)
Theorem C13_during_sees_old_or_new :
  forall parse cfg ops (d : dquery) (b : bool) (l : list (N * N)),
    In l (during_answers parse cfg ops d b) ->
    exists offered vo st,
      nth_error ops (dq_at d) = Some (Refresh offered vo) /\
      let s := run_state parse cfg init (firstn (dq_at d) ops) in
      let s' := run_state parse cfg init (firstn (S (dq_at d)) ops) in
      s' = refresh parse cfg s offered vo /\
      l = query cfg st (dq_sync d) (dq_epoch d) (dq_idx d) /\
      (st_accounts st = st_accounts s \/ st_accounts st = st_accounts s') /\
      (st_vals st = st_vals s \/ st_vals st = st_vals s') /\
      (b = true -> st = s').
Proof. exact during_old_or_new. Qed.
Print Assumptions C13_during_sees_old_or_new.

(* The seeded class: a service that remembers its answers per (epoch, kind) -- [cquery] -- and
   forgets them at the START of Refresh -- [crefresh ... mid], [mid] being the queries that land
   while the node is asked.  As long as no query lands inside a refresh it cannot be told from the
   code: every remembered answer is the answer of the present state, and stays so. *)
Theorem C13_remembered_answers_invisible_without_overlap :
  forall parse cfg (c : cstate),
    coherent cfg c ->
    (forall sync e,
       snd (cquery cfg c sync e) = query cfg (cs_st c) sync e None /\
       coherent cfg (fst (cquery cfg c sync e)) /\ cs_st (fst (cquery cfg c sync e)) = cs_st c)
    /\ (forall offered vo,
          coherent cfg (crefresh parse cfg c offered vo []) /\
          cs_st (crefresh parse cfg c offered vo []) = refresh parse cfg (cs_st c) offered vo).
Proof.
  intros parse cfg c H. split.
  - intros sync e. apply cquery_coherent. exact H.
  - intros offered vo. apply crefresh_quiet_coherent.
Qed.
Print Assumptions C13_remembered_answers_invisible_without_overlap.

(* ... and it is refuted by one query landing inside a refresh: validator 1 exits at epoch 8, the
   refresh learns it, the stores ARE the refreshed ones, and the validating accounts for epoch 10
   are still answered as before the refresh (both managers). *)
Theorem C13_remembered_answers_refuted :
  forall m, exists parse cfg s0 offered vo e,
    c_mgr cfg = m /\
    let c0 := {| cs_st := s0; cs_cache := [] |} in
    let hit := crefresh parse cfg c0 offered vo [(false, e)] in
    cs_st hit = refresh parse cfg s0 offered vo /\
    snd (cquery cfg hit false e) <> query cfg (cs_st hit) false e None /\
    snd (cquery cfg hit false e) = query cfg s0 false e None.
Proof.
  intro m. exists cw_oracle, (cw_cfg m), (refresh cw_oracle (cw_cfg m) init [1; 2] (VOk [cw_val 1 1000; cw_val 2 1000])),
    [1; 2], (VOk [cw_val 1 8; cw_val 2 1000]), 10.
  split; [reflexivity|]. destruct (cached_answers_are_stale m) as (H1 & _ & H3 & H4). cbv zeta in *.
  split; [exact H4|]. split.
  - rewrite H3, H4, H1. discriminate.
  - rewrite H3. destruct m; vm_compute; reflexivity.
Qed.
Print Assumptions C13_remembered_answers_refuted.

(* What the check establishes about the queries it issues from inside the refreshes (the fakes of
   the signer / store / node call back into the harness while the manager waits for them):
   `agree` -- the observed answer is one the model allows at that point; *)
Theorem C13_agree_during_sound :
  forall (c : case) (d : dquery) (o : dobs),
    agree c = true -> In (d, o) (c_during c) ->
    match o with
    | DNone => during_answers (lookup_parse (c_parse c)) (c_cfg c) (c_ops c) d false = []
    | DAnswer b l => In l (during_answers (lookup_parse (c_parse c)) (c_cfg c) (c_ops c) d b)
    end.
Proof. exact during_agree_sound. Qed.
Print Assumptions C13_agree_during_sound.

(* `P_b` (observed output only) -- the observed answer satisfies the property ([query_spec]: the
   known accounts' validators in the wanted condition under their own index) for the known
   accounts of before or after that refresh and the validator store of before or after it
   ([spec_states]: the pairs P_b tracks along the observed history); after it when the call was
   held back until the refresh had returned. *)
Theorem C13_P_b_during_sound :
  forall (c : case) (d : dquery) (b : bool) (obs : list (N * N)),
    P_b c = true -> In (d, DAnswer b obs) (c_during c) ->
    let sts := spec_states (c_cfg c) [] [] (c_ops c) (c_outs c) in
    exists offered vo k0 v0 k1 v1,
      nth_error (c_ops c) (dq_at d) = Some (Refresh offered vo) /\
      nth_error sts (dq_at d) = Some (k0, v0) /\ nth_error sts (S (dq_at d)) = Some (k1, v1) /\
      exists k v, (k = k0 \/ k = k1) /\ (v = v0 \/ v = v1) /\ (b = true -> k = k1 /\ v = v1) /\
                  query_spec (c_cfg c) k v (dq_sync d) (dq_epoch d) (dq_idx d) obs.
Proof. exact P_b_during_sound. Qed.
Print Assumptions C13_P_b_during_sound.

(* ------------------------------------------------------------------------------------------- *)
(* Non-vacuity. *)
Open Scope string_scope.
Definition ex_oracle (t : string) : option (list re) :=
  if String.eqb t "W" then Some [lit "W"]
  else if String.eqb t "acc[0-9]" then Some [Seq (lit "acc") (Cls [(48, 57)])]
  else if String.eqb t ".*" then Some [Star (Cls [(0, 9); (11, 1114111)])]
  else None.
Definition ex_universe : list account :=
  [ {| a_id := 1; a_wallet := "W"; a_name := "acc1"; a_locked := false |};
    {| a_id := 2; a_wallet := "W"; a_name := "acc2"; a_locked := false |};
    {| a_id := 3; a_wallet := "W"; a_name := "xacc1"; a_locked := false |};
    {| a_id := 4; a_wallet := "W"; a_name := "acc12"; a_locked := false |} ].
Definition ex_cfg (m : mgr) : config :=
  {| c_mgr := m; c_paths := ["W/acc[0-9]"]; c_universe := ex_universe; c_far := 1000 |}.
Close Scope string_scope.
Definition ex_val (pk idx act exit : N) (sl : bool) : val :=
  {| v_pk := pk; v_index := idx; v_elig := 0; v_act := act; v_exit := exit; v_wd := exit + 4;
     v_slashed := sl; v_bal := 32 |}.
Definition ex_vals : list val := [ex_val 1 70 5 1000 false; ex_val 2 71 5 20 true; ex_val 3 72 5 1000 false].

(* the hypotheses of C13_full_match hold of the example and the theorem's two sides are
   inhabited: of four offered accounts exactly the two whose whole name matches are admitted
   (xacc1 and acc12 only contain a match) *)
Example C13_example_admitted :
  (forall path, In path (c_paths (ex_cfg Dirk)) -> dirk_sound ex_oracle path)
  /\ admitted ex_oracle (ex_cfg Dirk) [1; 2; 3; 4] = [1; 2]
  /\ admitted ex_oracle (ex_cfg Wallet) [1; 2; 3; 4] = [1; 2].
Proof.
  split; [|split; vm_compute; reflexivity].
  intros path [<- | []] p0 p1 H. vm_compute in H. injection H as <- <-.
  split; intros _ l Hl; vm_compute in Hl; injection Hl as <-; eexists; reflexivity.
Qed.

(* with an alternation: exactly the two named accounts, in both managers *)
Example C13_example_alternation :
  map (fun n => dirk_admits (dirk_patterns oracle_ab ["W/a|b"%string]) (acct_W n 1))
      ["a"; "b"; "ax"; "xb"; "c"]%string = [true; true; false; false; false] /\
  map (fun n => wallet_admits (wallet_patterns oracle_ab ["W/a|b"%string]) (acct_W n 1))
      ["a"; "b"; "ax"; "xb"; "c"]%string = [true; true; false; false; false].
Proof. exact grouped_alternation_example. Qed.

(* with a group per alternative: still exactly the two named accounts, in both managers *)
Example C13_example_group_per_alternative :
  map (fun n => dirk_admits (dirk_patterns oracle_groups ["wallet1/(val-a)|(val-b)"%string]) (acct_wallet1 n 1))
      ["val-a"; "val-b"; "val-a-retired"; "old-val-b"; "val-c"]%string = [true; true; false; false; false] /\
  map (fun n => wallet_admits (wallet_patterns oracle_groups ["wallet1/(val-a)|(val-b)"%string]) (acct_wallet1 n 1))
      ["val-a"; "val-b"; "val-a-retired"; "old-val-b"; "val-c"]%string = [true; true; false; false; false].
Proof. exact group_per_alternative_example. Qed.

(* a history: everything known; then the signer offers nothing and the node fails; then the node
   answers nothing -- the answers to the same query stay what they were; account 2 (slashed,
   exiting) is kept by the sync-committee accessor only *)
Example C13_example_history :
  let ops := [Refresh [1; 2; 3; 4] (VOk ex_vals); Query false 10 None; Query true 10 None;
              Refresh [] VErr; Query false 10 None;
              Refresh [1; 2; 3; 4] (VOk []); Query true 10 None; Query false 4 None; Query true 10 (Some [71; 72])] in
  run ex_oracle (ex_cfg Dirk) ops =
  [OProbe [1; 2]; OQuery [(70, 1)]; OQuery [(70, 1); (71, 2)]; OProbe [1; 2]; OQuery [(70, 1)];
   OProbe [1; 2]; OQuery [(70, 1); (71, 2)]; OQuery []; OQuery [(71, 2)]].
Proof. vm_compute. reflexivity. Qed.

(* a partial failure: everything known; then the node fails every request naming account 2's key
   while it would report accounts 1 and 3 as exited -- the answers stay what they were; once
   account 2 is no longer offered the same node is healthy and its news arrive *)
Example C13_example_partial_failure :
  let moved := [ex_val 1 70 5 8 false; ex_val 2 71 5 20 true; ex_val 3 72 5 8 false] in
  let ops := [Refresh [1; 2; 3; 4] (VOk ex_vals); Query false 10 None;
              Refresh [1; 2; 3; 4] (VFailOn 2 moved); Query false 10 None; Query true 10 None;
              Refresh [1; 3; 4] (VFailOn 2 moved); Query false 10 None; Query true 10 None] in
  run ex_oracle (ex_cfg Wallet) ops =
  [OProbe [1; 2]; OQuery [(70, 1)];
   OProbe [1; 2]; OQuery [(70, 1)]; OQuery [(70, 1); (71, 2)];
   OProbe [1]; OQuery []; OQuery [(70, 1)]].
Proof. vm_compute. reflexivity. Qed.

Example C13_example_states :
  let far := 1000 in
  map (fun v => (is_validating (validator_to_state v 10 far), is_sync_eligible (validator_to_state v 10 far)))
      [ex_val 1 70 5 far false; ex_val 1 70 11 far false; ex_val 2 71 5 20 true; ex_val 2 71 5 8 false;
       {| v_pk := 4; v_index := 73; v_elig := 0; v_act := 1; v_exit := 3; v_wd := 5; v_slashed := false; v_bal := 0 |}]
  = [(true, true); (false, false); (false, true); (false, true); (false, false)].
Proof. vm_compute. reflexivity. Qed.

(* a query landing inside a refresh: the refresh learns that validators 1 and 3 have exited; the
   query that lands while the node is asked is answered from the validator store of before, the
   same query right after the refresh from the refreshed one *)
Example C13_example_query_during_refresh :
  let moved := [ex_val 1 70 5 8 false; ex_val 2 71 5 20 true; ex_val 3 72 5 8 false] in
  let ops := [Refresh [1; 2; 3; 4] (VOk ex_vals); Query false 10 None;
              Refresh [1; 2; 3; 4] (VOk moved); Query false 10 None] in
  let d := {| dq_at := 2; dq_point := AtValidators; dq_sync := false; dq_epoch := 10; dq_idx := None |} in
  run ex_oracle (ex_cfg Dirk) ops = [OProbe [1; 2]; OQuery [(70, 1)]; OProbe [1; 2]; OQuery []]
  /\ during_answers ex_oracle (ex_cfg Dirk) ops d false = [[(70, 1)]; [(70, 1)]]
  /\ during_answers ex_oracle (ex_cfg Dirk) ops d true = [[]].
Proof. vm_compute. repeat split; reflexivity. Qed.

(* the hypotheses of C13_anchor_only_account_part_admits_only_the_empty_name hold of the seeded
   demonstration's specifiers and both sides are inhabited: of account1, account2, the empty name
   and "$" only the empty name is admitted, by either manager *)
Example C13_example_anchor_only_account_part :
  map (fun spec => map (fun n => dirk_admits (dirk_patterns oracle_wallet1 [spec]) (acct_wallet1 n 1))
                       ["account1"; "account2"; ""; "$"]%string)
      ["wallet1/^$"; "wallet1/$"; "wallet1/^"; "^wallet1$/^$"]%string
  = [[false; false; true; false]; [false; false; true; false]; [false; false; true; false]; [false; false; true; false]] /\
  map (fun spec => map (fun n => wallet_admits (wallet_patterns oracle_wallet1 [spec]) (acct_wallet1 n 1))
                       ["account1"; "account2"; ""; "$"]%string)
      ["wallet1/^$"; "wallet1/$"; "wallet1/^"]%string
  = [[false; false; true; false]; [false; false; true; false]; [false; false; true; false]].
Proof. exact anchor_only_example. Qed.
