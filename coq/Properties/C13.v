From Verif Require Import Lib.Base Lib.RegexM Model.C13_Accounts Proofs.C13.
Theorem C13_matcher_decides_full_match : forall r s, full_match r s = true <-> full_lang r s.
Proof. exact full_match_spec. Qed.
Print Assumptions C13_matcher_decides_full_match.
