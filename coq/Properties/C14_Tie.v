(* C14 — tie of the aggregator selection arithmetic to the source by translation: the statements
   "modulo := ..." to "aggregators[i] = ..." of AggregatorsAndSignatures
   (services/attestationaggregator/standard/service.go), with the hashing statements skipped and
   binary.LittleEndian.Uint64(hash[:8]) as an input, are transcribed by gotrans on every run; the
   model's [is_aggregator], about which C14_is_aggregator_spec is proved, computes the same. *)
From Coq Require Import ZArith NArith List.
From Verif Require Import Lib.Base Lib.GoInt Gen.Pure_C14 Model.C14_Subscriptions Proofs.TieLib Proofs.Tie_C14.

Theorem C14_tie_is_aggregator : forall (len target : N) (hash : list N),
  is_aggregator len target hash =
  aggregator_isAggregator (Z.of_N target) (Z.of_N len) (Z.of_N (le64 hash)).
Proof. exact tie_is_aggregator. Qed.
Print Assumptions C14_tie_is_aggregator.

Example C14_tie_example :
  aggregator_isAggregator 16 128 24 = true /\ aggregator_isAggregator 16 128 25 = false /\ aggregator_isAggregator 16 10 7 = true.
Proof. vm_compute. repeat split. Qed.
