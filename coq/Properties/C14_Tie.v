(* C14 — tie of the aggregator selection arithmetic to the source by translation: the statements
   "modulo := ..." to "aggregators[i] = ..." of AggregatorsAndSignatures
   (services/attestationaggregator/standard/service.go), with the hashing statements skipped and
   binary.LittleEndian.Uint64(hash[:8]) as an input, are transcribed by gotrans on every run; the
   model's [is_aggregator], about which C14_is_aggregator_spec is proved, computes the same. *)
From Coq Require Import ZArith NArith List.
From Verif Require Import Lib.Base Lib.GoInt Gen.Pure_C14 Model.C14_Subscriptions Proofs.TieLib Proofs.Tie_C14.

Theorem C14_tie_is_aggregator : forall (len target : N) (hash : list N),
  is_aggregator len target hash =
  aggregator_isAggregator (Z.of_N target) (Z.of_N len) (Z.of_N (le64 hash)).
Proof. exact tie_is_aggregator. Qed.
Print Assumptions C14_tie_is_aggregator.

(* the two slot filters: the submission goroutine of Subscribe keeps exactly the slots the model's
   to_submit keeps ([cur <? s_slot e]); AttestAndScheduleAggregate skips exactly the attestations
   attest_step skips as being in the past ([a_slot a <? cur]) *)
Theorem C14_tie_subscription_future_slots_only : forall (cur slot : N),
  (cur <? slot)%N = negb (subscriber_notFutureSlot (Z.of_N slot) (Z.of_N cur)).
Proof. exact tie_future_slot. Qed.
Print Assumptions C14_tie_subscription_future_slots_only.

Theorem C14_tie_aggregation_in_past : forall (cur aslot : N),
  (aslot <? cur)%N = controller_aggregationInPast (Z.of_N cur) (Z.of_N aslot).
Proof. exact tie_aggregation_in_past. Qed.
Print Assumptions C14_tie_aggregation_in_past.

Example C14_tie_example :
  aggregator_isAggregator 16 128 24 = true /\ aggregator_isAggregator 16 128 25 = false /\ aggregator_isAggregator 16 10 7 = true.
Proof. vm_compute. repeat split. Qed.
