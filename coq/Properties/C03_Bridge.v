(* C03 — the abstract scheduler of the controller models is the name table of the real scheduler.
   The C03 (and C14, C15, C20) models and harnesses talk to an abstract recording scheduler
   ([tsched] / [tremove] / [texists] in Model/C03_Controller.v; harness/mocks.RecScheduler in Go).
   C02 models and ties the REAL scheduler's table section ([t_schedule] / [t_cancel] / [t_exists] in
   Model/C02_Script.v).  These theorems show that, for every injective naming of the jobs, the two
   tables agree operation by operation: the same names are listed, a ScheduleJob is accepted exactly
   when the abstract table does not list the name, a cancel removes the same entry.  (The C02 harness
   additionally runs the Go mock against the table model on every run.) *)
From Coq Require Import List NArith Bool Lia.
From Verif Require Import Lib.Base Model.C02_Scheduler Model.C02_Script Proofs.Bridge_Sched.
From Verif Require Model.C03_Controller.
Import ListNotations.
Local Open Scope N_scope.

Module C3 := C03_Controller.

Theorem C03_bridge_job_exists :
  forall (enc : C3.jname -> N) (enc_eqb : forall a b, (enc a =? enc b) = C3.jname_eqb a b) (ident : C3.job -> N)
         (t : C3.table) (n : C3.jname),
    t_exists (abs enc ident t) (enc n) = C3.texists t n.
Proof. exact abs_exists. Qed.
Print Assumptions C03_bridge_job_exists.

Theorem C03_bridge_schedule :
  forall (enc : C3.jname -> N) (enc_eqb : forall a b, (enc a =? enc b) = C3.jname_eqb a b) (ident : C3.job -> N)
         (t : C3.table) (j : C3.job),
    (snd (t_schedule (abs enc ident t) (enc (C3.j_name j)) (ident j)) = Nil <-> C3.texists t (C3.j_name j) = false) /\
    forall m, t_exists (fst (t_schedule (abs enc ident t) (enc (C3.j_name j)) (ident j))) (enc m) = C3.texists (C3.tsched t j) m.
Proof. exact abs_schedule. Qed.
Print Assumptions C03_bridge_schedule.

Theorem C03_bridge_cancel :
  forall (enc : C3.jname -> N) (enc_eqb : forall a b, (enc a =? enc b) = C3.jname_eqb a b) (ident : C3.job -> N)
         (t : C3.table) (n : C3.jname),
    fst (t_cancel (abs enc ident t) (enc n)) = abs enc ident (C3.tremove t n) /\
    (match snd (t_cancel (abs enc ident t) (enc n)) with Some _ => true | None => false end) = C3.texists t n.
Proof. exact abs_cancel. Qed.
Print Assumptions C03_bridge_cancel.

(* non-vacuity: an injective naming exists (kind tag in the low three bits, slot / epoch above) *)
Definition enc_example (n : C3.jname) : N :=
  match n with
  | C3.JAtt s => 8 * s | C3.JProp s => 8 * s + 1 | C3.JEarly s => 8 * s + 2 | C3.JPrep e => 8 * e + 3 | C3.JSync s => 8 * s + 4
  end.

Example C03_bridge_naming_exists : forall a b, (enc_example a =? enc_example b) = C3.jname_eqb a b.
Proof.
  intros a b. destruct a as [x|x|x|x|x], b as [y|y|y|y|y]; cbn [enc_example C3.jname_eqb];
    try (destruct (N.eqb_spec x y); [subst; apply N.eqb_refl | apply N.eqb_neq; lia]);
    apply N.eqb_neq; lia.
Qed.
