(* C05 + C06 composed: the block proposer's signing requests, handed to the signer, are signed over
   the consensus specification's signing roots FOR THE DUTY.  Property theorems only; the proofs are
   in Proofs/Compose_C05C06.v.

   Reading guide.  [M5] is Model/C05_Proposer.v (Prepare, Propose and, behind them, the signer's
   calls to the domain provider and to a protecting account: events [EDomain], [ESignRandao],
   [ESignBlock]); the unqualified names are Model/C06_Signer.v (the signer service as a function of
   the request made of it) and Lib/Ssz.v (the specification).  [L5.run_events c e d prep] are all
   requests of one run (Prepare if [prep], then Propose) for configuration [c], environment [e] (any
   answers of any provider) and duty [d]; [M5.history c ds ops] is any sequence of Prepare / Propose
   calls for any duties on one proposer.  [run H sig zero_sig (spec_provider H ch) (honest H sig sign)
   (spec_service ch) q] is the signer model with the service New builds from the chain spec of
   chain [ch], a node of that chain as domain provider, and accounts behaving as documented.
   The one link between the two configurations is [ch_spe ch = M5.c_spe c]: proposer (chain time) and
   signer read the same SLOTS_PER_EPOCH.

   What is discharged by what.  The C06 theorems give the signature over the signing root with the
   domain at the epoch of THE SLOT OF THE REQUEST.  That this slot is the DUTY's slot, that the
   proposer index is the duty's validator index, and that the three roots are those of the block the
   beacon node returned (a block of the duty's slot) are C05's theorems [C05_sign_only_duty_slot],
   [C05_roots_of_obtained_block], [C05_history_prepare_own_duty], [C05_history_propose_own_duty];
   nothing about the request is assumed. *)
From Coq Require Import List NArith Bool.
From Verif Require Import Lib.Base Lib.Ssz Model.C06_Signer Proofs.C06 Proofs.C06_Spec Proofs.Compose_C05C06.
From Verif Require Model.C05_Proposer Proofs.C05 Proofs.C05_History Properties.C05 Properties.C06.
Import ListNotations.
Local Open Scope N_scope.

(* ------------------------------------------------------------------------------------------- *)
(* 0. The two models write a domain type differently: C05 as the first of its four bytes (the other
   three are zero), Lib/Ssz.v as the big-endian number of the four bytes.  Under that coding the
   constants of the two models are the same domain types. *)
Theorem C05_domain_types_are_the_specs :
  ssz_domain_type M5.DOMAIN_BEACON_PROPOSER = DOMAIN_BEACON_PROPOSER
  /\ ssz_domain_type M5.DOMAIN_RANDAO = DOMAIN_RANDAO
  /\ (forall ch, s_proposer (spec_service ch) = ssz_domain_type M5.DOMAIN_BEACON_PROPOSER)
  /\ (forall ch, s_randao (spec_service ch) = ssz_domain_type M5.DOMAIN_RANDAO).
Proof. repeat split. Qed.
Print Assumptions C05_domain_types_are_the_specs.

(* ------------------------------------------------------------------------------------------- *)
(* 1. Composition, one duty. *)

(* For every configuration, environment, duty and run: every block signature request the proposer
   model makes, handed to the signer model as SignBeaconBlockProposal of exactly the event's fields,
   by ANY honest account: if it is answered, the answer is that account's signature over
   compute_signing_root(header, get_domain(DOMAIN_BEACON_PROPOSER, epoch of the DUTY's slot)), the
   header being (duty slot, duty validator index, parent / state / body root of the block the beacon
   node returned for this duty -- a block of the duty's slot).  The (type, epoch) that the proposer
   model records as the domain handed to the account is that domain type and that epoch. *)
Theorem C05_block_requests_get_spec_signatures :
  forall (c : M5.config) (e : M5.env) (d : M5.duty) (prep : bool) a s p pa st bo dom,
    In (M5.ESignBlock a s p pa st bo dom) (L5.run_events c e d prep) ->
  forall (H : N -> N -> N) (sig : Type) (zero_sig : sig) (sign : N -> N -> sig) (ch : chain)
         (acc : account) (sigs : list sig),
    ch_spe ch = M5.c_spe c ->
    run H sig zero_sig (spec_provider H ch) (honest H sig sign) (spec_service ch)
        (ReqProposal acc (BlockHeader s p pa st bo)) = Ok sigs ->
    exists pr h,
      M5.e_proposal e = M5.POk pr /\ M5.p_block pr = Some h /\ M5.h_slot h = M5.d_slot d
      /\ BlockHeader s p pa st bo = header_signed d h
      /\ sigs = [sign (a_key acc)
                   (compute_signing_root H (htr_block_header H (header_signed d h))
                      (get_domain H ch DOMAIN_BEACON_PROPOSER (compute_epoch_at_slot ch (M5.d_slot d))))]
      /\ a_fail acc = false
      /\ dom = (M5.DOMAIN_BEACON_PROPOSER, compute_epoch_at_slot ch (M5.d_slot d))
      /\ ssz_domain_type (fst dom) = DOMAIN_BEACON_PROPOSER.
Proof. exact block_request_gets_spec_signature. Qed.
Print Assumptions C05_block_requests_get_spec_signatures.

(* ... and it IS answered, by every account that can sign at all (local or protecting). *)
Theorem C05_block_request_answered :
  forall (H : N -> N -> N) (sig : Type) (zero_sig : sig) (sign : N -> N -> sig) (ch : chain)
         (acc : account) (hd : block_header),
    a_fail acc = false -> (a_prot acc || a_signer acc = true) ->
    run H sig zero_sig (spec_provider H ch) (honest H sig sign) (spec_service ch) (ReqProposal acc hd)
    = Ok [sign (a_key acc) (spec_signing_root H ch (MBlock hd))].
Proof. exact block_request_answered. Qed.
Print Assumptions C05_block_request_answered.

(* Every RANDAO reveal request of a run is Prepare's; SignRANDAOReveal(account, duty slot) on the
   signer model gives get_epoch_signature for the epoch of the duty's slot: the signature over
   compute_signing_root(epoch, get_domain(DOMAIN_RANDAO, epoch)); the proposer model recorded that
   epoch as the object handed to the account and (that type, that epoch) as the domain. *)
Theorem C05_randao_requests_get_spec_signatures :
  forall (c : M5.config) (e : M5.env) (d : M5.duty) (prep : bool) a ep dom,
    In (M5.ESignRandao a ep dom) (L5.run_events c e d prep) ->
  forall (H : N -> N -> N) (sig : Type) (zero_sig : sig) (sign : N -> N -> sig) (ch : chain)
         (acc : account) (sigs : list sig),
    ch_spe ch = M5.c_spe c ->
    run H sig zero_sig (spec_provider H ch) (honest H sig sign) (spec_service ch)
        (ReqRandao acc (M5.d_slot d)) = Ok sigs ->
    sigs = [sign (a_key acc)
              (compute_signing_root H (u64_chunk (compute_epoch_at_slot ch (M5.d_slot d)))
                 (get_domain H ch DOMAIN_RANDAO (compute_epoch_at_slot ch (M5.d_slot d))))]
    /\ a_fail acc = false
    /\ prep = true
    /\ ep = compute_epoch_at_slot ch (M5.d_slot d)
    /\ dom = (M5.DOMAIN_RANDAO, compute_epoch_at_slot ch (M5.d_slot d))
    /\ ssz_domain_type (fst dom) = DOMAIN_RANDAO.
Proof. exact randao_request_gets_spec_signature. Qed.
Print Assumptions C05_randao_requests_get_spec_signatures.

Theorem C05_randao_request_answered :
  forall (H : N -> N -> N) (sig : Type) (zero_sig : sig) (sign : N -> N -> sig) (ch : chain)
         (acc : account) (slot : N),
    a_fail acc = false -> (a_prot acc || a_signer acc = true) ->
    run H sig zero_sig (spec_provider H ch) (honest H sig sign) (spec_service ch) (ReqRandao acc slot)
    = Ok [sign (a_key acc) (spec_signing_root H ch (MRandao slot))].
Proof. exact randao_request_answered. Qed.
Print Assumptions C05_randao_request_answered.

(* ------------------------------------------------------------------------------------------- *)
(* 2. The two transcriptions of the signer agree.  For ANY domain provider, ANY behaviour of the
   accounts and ANY service values (only SLOTS_PER_EPOCH shared), on the request behind a signing
   event of the proposer model and a protecting account (the kind C05 models): C06's
   SignBeaconBlockProposal asks the domain provider for its proposer domain type at exactly the epoch
   C05 records in [dom] (and in the [EDomain] request just before the event, the event being the last
   request of the run), fails if the provider does, and otherwise hands the account exactly the
   fields of C05's event with the provider's answer, returning what the account returns.  Likewise
   SignRANDAOReveal with SignGeneric(the epoch as 32 bytes, domain). *)
Theorem C05_block_call_is_signers_call :
  forall (c : M5.config) (e : M5.env) (d : M5.duty) (prep : bool) a s p pa st bo dom,
    In (M5.ESignBlock a s p pa st bo dom) (L5.run_events c e d prep) ->
    (exists l, L5.run_events c e d prep
               = l ++ [M5.EDomain (fst dom) (snd dom); M5.ESignBlock a s p pa st bo dom])
    /\ ssz_domain_type (fst dom) = DOMAIN_BEACON_PROPOSER
    /\ forall (H : N -> N -> N) (sig : Type) (P : provider) (E : env sig) (Sv : service) (acc : account),
         s_spe Sv = M5.c_spe c -> a_prot acc = true ->
         sign_proposal H sig P E Sv acc (BlockHeader s p pa st bo)
         = match p_domain P (s_proposer Sv) (snd dom) with
           | None => Err
           | Some dm => match e_prop E acc (BlockHeader s p pa st bo) dm with Some x => Ok x | None => Err end
           end.
Proof. exact block_call_agrees. Qed.
Print Assumptions C05_block_call_is_signers_call.

Theorem C05_randao_call_is_signers_call :
  forall (c : M5.config) (e : M5.env) (d : M5.duty) (prep : bool) a ep dom,
    In (M5.ESignRandao a ep dom) (L5.run_events c e d prep) ->
    (exists l l', L5.run_events c e d prep
                  = l ++ [M5.EDomain (fst dom) (snd dom); M5.ESignRandao a ep dom] ++ l')
    /\ ssz_domain_type (fst dom) = DOMAIN_RANDAO
    /\ forall (H : N -> N -> N) (sig : Type) (P : provider) (E : env sig) (Sv : service) (acc : account),
         s_spe Sv = M5.c_spe c -> a_prot acc = true ->
         sign_randao H sig P E Sv acc (M5.d_slot d)
         = match p_domain P (s_randao Sv) (snd dom) with
           | None => Err
           | Some dm => match e_generic E acc (put_uint64_le ep) dm with Some x => Ok x | None => Err end
           end.
Proof. exact randao_call_agrees. Qed.
Print Assumptions C05_randao_call_is_signers_call.

(* ------------------------------------------------------------------------------------------- *)
(* 3. End to end.  [block_answer_is_signers H sign ch acc c e d]: the signature that the account
   answers in the proposer's environment ([e_sig_block e]) is the one the signer model returns for
   the block signature request Propose makes (specification service and provider, honest account). *)

(* A block that is not blinded: what is submitted is the obtained block carrying the account's
   signature over the specification's signing root of [header_signed d h] = (duty slot, duty
   validator index, the block's own three roots), proposer domain, epoch of the duty's slot. *)
Theorem C05_submitted_block_signature :
  forall (H : N -> N -> N) (sign : N -> N -> N) (ch : chain) (acc : account) c e d pr t sp,
    block_answer_is_signers H sign ch acc c e d ->
    M5.e_proposal e = M5.POk pr -> M5.p_blinded pr = false ->
    M5.o_submit (M5.propose c e d) = Some (t, sp) ->
    exists h code,
      M5.p_block pr = Some h /\ M5.h_slot h = M5.d_slot d
      /\ M5.signed_container (M5.p_version pr) false = Some code
      /\ sp = L5.signed_proposal pr h (sign (a_key acc) (spec_signing_root H ch (MBlock (header_signed d h)))) code
      /\ a_fail acc = false.
Proof. exact submitted_block_signature. Qed.
Print Assumptions C05_submitted_block_signature.

(* The full statement one wants -- the submitted block carries the signature over the signing root of
   ITS OWN header:
     ... -> sp = signed_proposal pr h (sign key (spec_signing_root (MBlock (header_of_block h)))) code
   is NOT a theorem of the composed models: Propose compares the slot of the obtained block with the
   duty's (confirmProposalData) but not its proposer index, and signs the DUTY's validator index
   (signProposalData).  It holds with the hypothesis that the beacon node returned a block whose
   proposer index is the duty's validator index, which no theorem of C05 delivers (the code does not
   check it); [C05_submitted_block_own_signature_refuted] is the witness. *)
Theorem C05_submitted_block_own_signature_partial :
  forall (H : N -> N -> N) (sign : N -> N -> N) (ch : chain) (acc : account) c e d pr h t sp,
    block_answer_is_signers H sign ch acc c e d ->
    M5.e_proposal e = M5.POk pr -> M5.p_blinded pr = false -> M5.p_block pr = Some h ->
    M5.h_proposer h = M5.d_validator d ->
    M5.o_submit (M5.propose c e d) = Some (t, sp) ->
    exists code,
      M5.signed_container (M5.p_version pr) false = Some code
      /\ sp = L5.signed_proposal pr h (sign (a_key acc) (spec_signing_root H ch (MBlock (header_of_block h)))) code.
Proof. exact submitted_block_own_signature_partial. Qed.
Print Assumptions C05_submitted_block_own_signature_partial.

(* the header signed is the block's own header exactly when the proposer indices coincide *)
Theorem C05_header_signed_is_own_iff_proposer :
  forall (d : M5.duty) (h : M5.hdr),
    M5.h_slot h = M5.d_slot d ->
    (header_signed d h = header_of_block h <-> M5.h_proposer h = M5.d_validator d).
Proof. exact header_signed_is_own. Qed.
Print Assumptions C05_header_signed_is_own_iff_proposer.

(* A blinded block: every request made to a relay carries the obtained block with that same
   signature (or, once another relay's block has been taken, the version and no block). *)
Theorem C05_relay_requests_carry_spec_signature :
  forall (H : N -> N -> N) (sign : N -> N -> N) (ch : chain) (acc : account) c e d i calls k st rq,
    block_answer_is_signers H sign ch acc c e d ->
    nth_error (M5.o_unblind (M5.propose c e d)) i = Some calls ->
    nth_error calls k = Some (st, rq) ->
    exists pr h code,
      M5.e_proposal e = M5.POk pr /\ M5.p_blinded pr = true /\ M5.p_block pr = Some h /\ M5.h_slot h = M5.d_slot d
      /\ M5.signed_container (M5.p_version pr) true = Some code
      /\ let signed := L5.signed_proposal pr h (sign (a_key acc) (spec_signing_root H ch (MBlock (header_signed d h)))) code in
         rq = M5.unblind_request signed
      /\ a_fail acc = false.
Proof. exact relay_requests_signature. Qed.
Print Assumptions C05_relay_requests_carry_spec_signature.

(* ------------------------------------------------------------------------------------------- *)
(* 4. Histories of duties on one proposer, sessions of requests on one signer. *)

(* For every history of Prepare / Propose calls for any duties in any order, every signing event
   [ev] of its k-th call (a call for duty i, whose object and environment are [s]), the request [q]
   behind it, and every session [qs] of requests on ONE signer service (the other requests, their
   accounts and the providers answering them arbitrary): if the j-th request of the session is [q]
   answered by a node of the chain, and it is answered with signatures, then it is answered with the
   ONE signature the specification wants for DUTY i -- get_epoch_signature of the epoch of duty i's
   slot, or get_block_signature of (duty i's slot, duty i's validator, the roots of the block the
   beacon node returned for duty i) with the fork of duty i's epoch -- whatever the proposer handled
   and the signer signed before. *)
Theorem C05_history_requests_in_signer_session_get_spec_signatures :
  forall (c : M5.config) (ops : list M5.op) (ds : list M5.dstate) (k : nat) (o : M5.op) (s : M5.dstate) (out : M5.out)
         (ev : M5.event) (acc : account) (q : request),
    nth_error ops k = Some o -> nth_error ds (H5.op_duty o) = Some s ->
    nth_error (M5.history c ds ops) k = Some out ->
    In ev (out_events out) ->
    request_of_event acc (M5.d_slot (M5.s_duty s)) ev = Some q ->
  forall (H : N -> N -> N) (sig : Type) (zero_sig : sig) (sign : N -> N -> sig) (ch : chain)
         (qs : list (provider * request)) (j : nat) (sigs : list sig),
    ch_spe ch = M5.c_spe c ->
    nth_error qs j = Some (spec_provider H ch, q) ->
    nth_error (run_session H sig zero_sig (honest H sig sign) (spec_service ch) qs) j = Some (Ok sigs) ->
    exists sg, sigs = [sg]
               /\ spec_signature_for H sig sign ch acc (M5.s_env s) (M5.s_duty s) ev sg
               /\ a_fail acc = false.
Proof. exact history_session_spec. Qed.
Print Assumptions C05_history_requests_in_signer_session_get_spec_signatures.

(* the same for the request made alone *)
Theorem C05_history_requests_get_spec_signatures :
  forall (c : M5.config) (ops : list M5.op) (ds : list M5.dstate) (k : nat) (o : M5.op) (s : M5.dstate) (out : M5.out)
         (ev : M5.event) (acc : account) (q : request),
    nth_error ops k = Some o -> nth_error ds (H5.op_duty o) = Some s ->
    nth_error (M5.history c ds ops) k = Some out ->
    In ev (out_events out) ->
    request_of_event acc (M5.d_slot (M5.s_duty s)) ev = Some q ->
  forall (H : N -> N -> N) (sig : Type) (zero_sig : sig) (sign : N -> N -> sig) (ch : chain) (sigs : list sig),
    ch_spe ch = M5.c_spe c ->
    run H sig zero_sig (spec_provider H ch) (honest H sig sign) (spec_service ch) q = Ok sigs ->
    exists sg, sigs = [sg]
               /\ spec_signature_for H sig sign ch acc (M5.s_env s) (M5.s_duty s) ev sg
               /\ a_fail acc = false.
Proof. exact history_request_spec. Qed.
Print Assumptions C05_history_requests_get_spec_signatures.

(* every signing event of a history has such a request: what the k-th call asks to be signed is a
   RANDAO reveal at its own duty's slot or a header of its own duty's slot and validator *)
Theorem C05_history_signing_events_are_own_duty_requests :
  forall (c : M5.config) (ops : list M5.op) (ds : list M5.dstate) (k : nat) (o : M5.op) (s : M5.dstate) (out : M5.out)
         (ev : M5.event) (acc : account) (q : request),
    nth_error ops k = Some o -> nth_error ds (H5.op_duty o) = Some s ->
    nth_error (M5.history c ds ops) k = Some out ->
    In ev (out_events out) ->
    request_of_event acc (M5.d_slot (M5.s_duty s)) ev = Some q ->
    (exists a, ev = M5.ESignRandao a (M5.d_slot (M5.s_duty s) / M5.c_spe c)
                                   (M5.DOMAIN_RANDAO, M5.d_slot (M5.s_duty s) / M5.c_spe c)
               /\ q = ReqRandao acc (M5.d_slot (M5.s_duty s)))
    \/ (exists a pr h, M5.e_proposal (M5.s_env s) = M5.POk pr /\ M5.p_block pr = Some h
                       /\ M5.h_slot h = M5.d_slot (M5.s_duty s)
                       /\ ev = M5.ESignBlock a (M5.d_slot (M5.s_duty s)) (M5.d_validator (M5.s_duty s))
                                             (M5.h_parent h) (M5.h_state h) (M5.h_body h)
                                             (M5.DOMAIN_BEACON_PROPOSER, M5.d_slot (M5.s_duty s) / M5.c_spe c)
                       /\ q = ReqProposal acc (header_signed (M5.s_duty s) h)).
Proof. exact history_signing_event. Qed.
Print Assumptions C05_history_signing_events_are_own_duty_requests.

(* ------------------------------------------------------------------------------------------- *)
(* Non-vacuity and the witness *)

(* a chain with SLOTS_PER_EPOCH = 32 (as C05's example configuration) and forks at epochs 3 and 4:
   the example duty (slot 100, epoch 3) is in the first epoch of the first fork *)
Definition cx_chain : chain := Chain 1 [(3, 2); (4, 3)] 99 32.
Definition cx_sign (k m : N) : N := k * 2 ^ 256 + m.
Definition cx_acc : account := T6.dirk_acc 3.

(* family 1: the run of C05's local-block example makes a RANDAO request and a block request; handed
   to the signer both are answered, with the specification's signing roots at epoch 3 (fork version 2) *)
Example C05_compose_example_run :
  let e := T5.ex_env T5.ex_local M5.AErr M5.GErr [] in
  In (M5.ESignRandao 3 3 (M5.DOMAIN_RANDAO, 3)) (L5.run_events T5.ex_cfg e T5.ex_duty true)
  /\ In (M5.ESignBlock 3 100 7 11 12 13 (M5.DOMAIN_BEACON_PROPOSER, 3)) (L5.run_events T5.ex_cfg e T5.ex_duty true)
  /\ ch_spe cx_chain = M5.c_spe T5.ex_cfg
  /\ run T6.toy_H N 0 (spec_provider T6.toy_H cx_chain) (honest T6.toy_H N cx_sign) (spec_service cx_chain)
         (ReqRandao cx_acc 100)
     = Ok [cx_sign 3 (spec_signing_root T6.toy_H cx_chain (MRandao 100))]
  /\ run T6.toy_H N 0 (spec_provider T6.toy_H cx_chain) (honest T6.toy_H N cx_sign) (spec_service cx_chain)
         (ReqProposal cx_acc (BlockHeader 100 7 11 12 13))
     = Ok [cx_sign 3 (spec_signing_root T6.toy_H cx_chain (MBlock (BlockHeader 100 7 11 12 13)))]
  /\ version_at cx_chain (compute_epoch_at_slot cx_chain 100) = 2.
Proof. vm_compute. intuition. Qed.

(* family 2: the signer's call is the proposer's event, on that run *)
Example C05_compose_example_agreement :
  let e := T5.ex_env T5.ex_local M5.AErr M5.GErr [] in
  let E := honest T6.toy_H N cx_sign in
  let P := spec_provider T6.toy_H cx_chain in
  sign_proposal T6.toy_H N P E (spec_service cx_chain) cx_acc (BlockHeader 100 7 11 12 13)
  = match p_domain P (ssz_domain_type M5.DOMAIN_BEACON_PROPOSER) 3 with
    | Some dm => match e_prop E cx_acc (BlockHeader 100 7 11 12 13) dm with Some x => Ok x | None => Err end
    | None => Err
    end
  /\ exists x, sign_proposal T6.toy_H N P E (spec_service cx_chain) cx_acc (BlockHeader 100 7 11 12 13) = Ok x.
Proof. vm_compute. split; [reflexivity|eexists; reflexivity]. Qed.

(* family 3: an environment in which the account's answer IS the signer's, the beacon node returns a
   block of the duty's slot (100) whose proposer index (8) is NOT the duty's validator index (7) *)
Definition cx_duty : M5.duty := {| M5.d_slot := 100; M5.d_validator := 7; M5.d_account := Some 3; M5.d_randao := 55 |}.
Definition cx_hdr (proposer : N) : M5.hdr :=
  {| M5.h_slot := 100; M5.h_proposer := proposer; M5.h_parent := 11; M5.h_state := 12; M5.h_body := 13 |}.
Definition cx_proposal (proposer : N) : M5.proposal :=
  {| M5.p_version := M5.VCapella; M5.p_blinded := false; M5.p_block := Some (cx_hdr proposer);
     M5.p_body_present := true; M5.p_blobs := 0 |}.
Definition cx_signature (proposer : N) : N :=
  cx_sign 3 (spec_signing_root T6.toy_H cx_chain (MBlock (header_signed cx_duty (cx_hdr proposer)))).
Definition cx_env (proposer : N) : M5.env :=
  {| M5.e_accounts := M5.AccOk [(7, Some 3)]; M5.e_dom_randao := true; M5.e_sig_randao := Some 55;
     M5.e_graffiti := M5.GNone; M5.e_head := 9; M5.e_auction := M5.ANone; M5.e_proposal := M5.POk (cx_proposal proposer);
     M5.e_dom_block := true; M5.e_sig_block := Some (cx_signature proposer);
     M5.e_relays := []; M5.e_submit_ok := true; M5.e_deadline := 4000 |}.

Lemma cx_env_linked : forall proposer,
  block_answer_is_signers T6.toy_H cx_sign cx_chain cx_acc T5.ex_cfg (cx_env proposer) cx_duty.
Proof.
  intros proposer sg a s p pa st bo dom Hsg Hin.
  cbn in Hin. destruct Hin as [Hx|[Hx|[Hx|[]]]]; try discriminate Hx.
  injection Hx as <- <- <- <- <- <- <-.
  cbn [M5.e_sig_block cx_env] in Hsg.
  assert (Hsg' : cx_signature proposer = sg) by (revert Hsg; generalize (cx_signature proposer); intros x Hx; injection Hx; auto).
  subst sg.
  rewrite (C05_block_request_answered T6.toy_H N 0 cx_sign cx_chain cx_acc (BlockHeader 100 7 11 12 13) eq_refl eq_refl).
  unfold cx_signature, header_signed.
  cbn [M5.d_slot M5.d_validator cx_duty cx_hdr M5.h_parent M5.h_state M5.h_body].
  reflexivity.
Qed.

(* the hypotheses of theorem family 3 hold and a block is submitted *)
Example C05_compose_example_submitted :
  block_answer_is_signers T6.toy_H cx_sign cx_chain cx_acc T5.ex_cfg (cx_env 7) cx_duty
  /\ M5.o_submit (M5.propose T5.ex_cfg (cx_env 7) cx_duty)
     = Some (0, L5.signed_proposal (cx_proposal 7) (cx_hdr 7)
                  (cx_sign 3 (spec_signing_root T6.toy_H cx_chain (MBlock (header_of_block (cx_hdr 7))))) M5.CCapella).
Proof. split; [apply cx_env_linked|vm_compute; reflexivity]. Qed.

(* The witness: with proposer index 8 in the block and 7 in the duty the block is submitted all the
   same, and the signature it carries is NOT the one over the signing root of its own header: the
   hypothesis [h_proposer h = d_validator d] of [C05_submitted_block_own_signature_partial] cannot be
   dropped. *)
Theorem C05_submitted_block_own_signature_refuted :
  exists (H : N -> N -> N) (sign : N -> N -> N) (ch : chain) (acc : account) c e d pr h t sp code,
    block_answer_is_signers H sign ch acc c e d
    /\ M5.e_proposal e = M5.POk pr /\ M5.p_blinded pr = false /\ M5.p_block pr = Some h
    /\ M5.h_slot h = M5.d_slot d /\ M5.h_proposer h <> M5.d_validator d
    /\ M5.o_submit (M5.propose c e d) = Some (t, sp)
    /\ M5.signed_container (M5.p_version pr) false = Some code
    /\ sp = L5.signed_proposal pr h (sign (a_key acc) (spec_signing_root H ch (MBlock (header_signed d h)))) code
    /\ sp <> L5.signed_proposal pr h (sign (a_key acc) (spec_signing_root H ch (MBlock (header_of_block h)))) code.
Proof.
  exists T6.toy_H, cx_sign, cx_chain, cx_acc, T5.ex_cfg, (cx_env 8), cx_duty, (cx_proposal 8), (cx_hdr 8), 0,
         (L5.signed_proposal (cx_proposal 8) (cx_hdr 8) (cx_signature 8) M5.CCapella), M5.CCapella.
  split; [apply cx_env_linked|].
  repeat split; try (vm_compute; reflexivity); vm_compute; discriminate.
Qed.
Print Assumptions C05_submitted_block_own_signature_refuted.

(* family 4: two duties of one epoch on one proposer (C05's history example), all Prepares first; the
   request behind the block signature event of the LAST call (Propose for duty 0), made as the third
   request of a signer session that has signed for another epoch and failed once before, gets duty
   0's signature *)
Example C05_compose_example_history :
  let e2 := {| M5.e_accounts := M5.AccOk [(9, Some 4)]; M5.e_dom_randao := true; M5.e_sig_randao := Some 77;
               M5.e_graffiti := M5.GNone; M5.e_head := 9; M5.e_auction := M5.ANone; M5.e_proposal := M5.PErr;
               M5.e_dom_block := true; M5.e_sig_block := Some 67; M5.e_relays := []; M5.e_submit_ok := true;
               M5.e_deadline := 4000 |} in
  let ds := [ {| M5.s_env := T5.ex_env T5.ex_local M5.ANone M5.GNone []; M5.s_duty := T5.ex_duty |};
              {| M5.s_env := e2; M5.s_duty := {| M5.d_slot := 101; M5.d_validator := 9; M5.d_account := None; M5.d_randao := 0 |} |} ] in
  let ops := [M5.OPrepare 0; M5.OPrepare 1; M5.OPropose 1; M5.OPropose 0] in
  let ev := M5.ESignBlock 3 100 7 11 12 13 (M5.DOMAIN_BEACON_PROPOSER, 3) in
  let q := ReqProposal cx_acc (BlockHeader 100 7 11 12 13) in
  let P := spec_provider T6.toy_H cx_chain in
  let down := {| p_domain := fun _ _ => None; p_genesis := fun _ => None |} in
  let qs := [(P, ReqRandao cx_acc 200); (down, q); (P, q)] in
  (exists out, nth_error (M5.history T5.ex_cfg ds ops) 3 = Some out /\ In ev (out_events out))
  /\ request_of_event cx_acc 100 ev = Some q
  /\ nth_error (run_session T6.toy_H N 0 (honest T6.toy_H N cx_sign) (spec_service cx_chain) qs) 2
     = Some (Ok [cx_sign 3 (spec_signing_root T6.toy_H cx_chain (MBlock (BlockHeader 100 7 11 12 13)))])
  /\ nth_error (run_session T6.toy_H N 0 (honest T6.toy_H N cx_sign) (spec_service cx_chain) qs) 1 = Some Err.
Proof.
  cbv zeta. split; [|vm_compute; auto].
  eexists. split; [vm_compute; reflexivity|]. vm_compute. intuition.
Qed.
