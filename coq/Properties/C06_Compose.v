(* C01 + C06 composed: the hypothesis of C06's attestation theorems — the target epoch of the data is
   the epoch of its slot — is exactly what C01 proves of every signing request the attester ever
   makes, in every history and schedule.  Hence every attestation signing request of the attester
   model, handed to the signer model with any accounts, is signed over the consensus specification's
   signing root with DOMAIN_BEACON_ATTESTER at the duty's epoch. *)
From Coq Require Import List NArith.
From Verif Require Import Lib.Base Lib.Ssz Model.C06_Signer Proofs.C06.
From Verif Require Model.C01_Attester Properties.C01 Properties.C06.
Import ListNotations.
Local Open Scope N_scope.

Module A := C01_Attester.

Theorem C06_attester_requests_get_spec_signatures :
  forall (spe : N) (rs : list A.run) (sch : list nat) (q : A.signreq),
    In (A.SignReq q) (A.g_trace (A.exec spe rs sch A.init)) ->
  forall (H : N -> N -> N) (sig : Type) (zero_sig : sig) (sign : N -> N -> sig) (c : chain)
         (accs : list account) (sigs : list sig),
    ch_spe c = spe ->
    run H sig zero_sig (spec_provider H c) (honest H sig sign) (spec_service c)
          (ReqAttestations accs (A.sr_slot q) (map snd (A.sr_pairs q))
                             (A.sr_root q) (A.sr_src q) (A.sr_src_root q) (A.sr_tgt q) (A.sr_tgt_root q)) = Ok sigs ->
    sigs = map (fun it => expected sig zero_sig sign (fst it)
                            (compute_signing_root H
                               (htr_att_data H (AttData (A.sr_slot q) (snd it) (A.sr_root q) (A.sr_src q) (A.sr_src_root q)
                                                            (A.sr_tgt q) (A.sr_tgt_root q)))
                               (get_domain H c DOMAIN_BEACON_ATTESTER (A.sr_tgt q))))
               (combine accs (map snd (A.sr_pairs q))).
Proof.
  intros spe rs sch q Hin H sig zero_sig sign c accs sigs Hspe Hrun.
  destruct (C01.C01_signed_is_valid spe rs sch q Hin) as [r [_ [_ [Htgt _]]]].
  apply (C06.C06_attestations_is_spec_root H sig zero_sig sign c accs (A.sr_slot q) (map snd (A.sr_pairs q))
           (A.sr_root q) (A.sr_src q) (A.sr_src_root q) (A.sr_tgt q) (A.sr_tgt_root q) sigs); [|exact Hrun].
  rewrite Htgt, Hspe. reflexivity.
Qed.
Print Assumptions C06_attester_requests_get_spec_signatures.
