(* C17 — Vouch's own concurrency never corrupts its state.  Property theorems only.
   PARTIAL by construction: proves absence of unsynchronised conflicting accesses (data races on
   the service structs' fields) and lock balance for the lock/access skeletons that the translator
   regenerates from the Go source on every run; it does not prove atomicity of whole operations
   ("results are those of some sequential order"), and the skeleton abstracts from aliasing beyond
   one local variable, from other structs and from the Go memory model (see DESIGN.md, C17). *)
From Verif Require Import Lib.Base Lib.Lockset Proofs.Lockset Gen.C17_Extracted.
From Coq Require Import String.

(* Generic soundness, proved once: for EVERY graph, entry list, skip set and single-instance
   flags, if the analysis accepts then no execution of any number of threads under any schedule
   reaches a state with two threads at conflicting accesses of one (non-skipped) field, and every
   finished thread has released all its locks. *)
Theorem C17_lockset_sound_partial :
  forall (skip : field -> bool) (single : nat -> bool) (g : graph) (entries : list nat),
    analysis_ok skip single g entries = true ->
    forall S0, initial single g entries S0 ->
    forall S, steps g S0 S ->
      ~ racy skip g S /\ (forall i L, nth_error S i = Some (Done, L) -> L = []).
Proof. exact lockset_sound_lemma. Qed.
Print Assumptions C17_lockset_sound_partial.

(* The analysis accepts every service skeleton extracted from the CURRENT source. *)
Theorem C17_tree_analysis_ok :
  forallb (fun '(_, g, e, sk, sg) => analysis_ok sk sg g e) services = true.
Proof. vm_compute. reflexivity. Qed.
Print Assumptions C17_tree_analysis_ok.

(* Hence: every extracted service is race free and lock balanced in every interleaving. *)
Theorem C17_tree_race_free_partial :
  forall name g e sk sg, In (name, g, e, sk, sg) services ->
    forall S0, initial sg g e S0 ->
    forall S, steps g S0 S ->
      ~ racy sk g S /\ (forall i L, nth_error S i = Some (Done, L) -> L = []).
Proof.
  intros name g e sk sg Hin.
  apply lockset_sound_lemma.
  pose proof C17_tree_analysis_ok as H. rewrite forallb_forall in H.
  exact (H _ Hin).
Qed.
Print Assumptions C17_tree_race_free_partial.

(* Non-vacuity: the analysis rejects an unguarded write/read pair and a leaked lock, and accepts
   the guarded version (so acceptance is not trivial). *)
Example C17_rejects_unguarded :
  analysis_ok (fun _ => false) (fun _ => false)
    [ {| n_instr := IAcc 1 true; n_succ := []; n_owner := 0 |} ] [0%nat] = false.
Proof. vm_compute. reflexivity. Qed.

Example C17_rejects_leak :
  analysis_ok (fun _ => false) (fun _ => false)
    [ {| n_instr := ILock 1 false; n_succ := [1%nat; 2%nat]; n_owner := 0 |};
      {| n_instr := ISkip; n_succ := []; n_owner := 0 |};
      {| n_instr := IUnlock 1 false; n_succ := []; n_owner := 0 |} ] [0%nat] = false.
Proof. vm_compute. reflexivity. Qed.

Example C17_rejects_nested_rlock :
  analysis_ok (fun _ => false) (fun _ => false)
    [ {| n_instr := ILock 1 false; n_succ := [1%nat]; n_owner := 0 |};
      {| n_instr := ILock 1 false; n_succ := [2%nat]; n_owner := 0 |};
      {| n_instr := IUnlock 1 false; n_succ := [3%nat]; n_owner := 0 |};
      {| n_instr := IUnlock 1 false; n_succ := []; n_owner := 0 |} ] [0%nat] = false.
Proof. vm_compute. reflexivity. Qed.

Example C17_accepts_guarded :
  analysis_ok (fun _ => false) (fun _ => false)
    [ {| n_instr := ILock 1 true; n_succ := [1%nat]; n_owner := 0 |};
      {| n_instr := IAcc 1 true; n_succ := [2%nat]; n_owner := 0 |};
      {| n_instr := IUnlock 1 true; n_succ := []; n_owner := 0 |};
      {| n_instr := ILock 1 false; n_succ := [4%nat]; n_owner := 1 |};
      {| n_instr := IAcc 1 false; n_succ := [5%nat]; n_owner := 1 |};
      {| n_instr := IUnlock 1 false; n_succ := []; n_owner := 1 |} ] [0%nat; 3%nat] = true.
Proof. vm_compute. reflexivity. Qed.
