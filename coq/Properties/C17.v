(* C17 — Vouch's own concurrency never corrupts its state.  Property theorems only.

   FULL STATEMENT (properties.jsonl): any overlap that Vouch itself creates between duty jobs, head and
   block event handlers, periodic refreshes, registration rounds and proposer-setting lookups leaves
   its shared state consistent: there are no unsynchronised conflicting accesses, so results are those
   of some sequential order of the overlapping operations — for all interleavings.

   PARTIAL by construction (hence the `_partial` names).  What is proved, for the lock/access
   skeletons that the translator regenerates from the Go source on every run, over ALL interleavings
   of ANY number of threads created at any time and running any number of operations each:
     - no two threads are ever at conflicting accesses of one field (data-race freedom);
     - every finished operation has released all its locks; no unlock of a lock not held; no
       re-acquisition of a held mutex; mutual exclusion (run-time lock safety);
     - every shared field has one mutex under which all its writes happen, and while any thread holds
       that mutex nobody else writes the field; where the reads hold it too the exclusive holder is
       alone with the field (isolation of critical sections);
     - the services' own mutexes are acquired in a consistent order, so their threads never all wait
       for each other (deadlock freedom among a service's mutexes).
     - for the account managers' refresh / lookup pair, with its data: every lookup answer is the
       sequential lookup on the store of one refresh (section 5; hand-written model).
   What is NOT proved: atomicity of whole operations in general (an operation that releases and
   re-takes a lock is several sections; "results are those of some sequential order" is proved per
   critical section, and per operation only for the account lookup); the skeleton abstracts from values, from aliasing beyond one local
   variable, from other structs and from the Go memory model (mutual exclusion is taken as
   sufficient for visibility); the translator is trusted (see DESIGN.md, C17, and notes/C17.md). *)
From Verif Require Import Lib.Base Lib.Lockset Lib.LocksetX Proofs.Lockset Proofs.LocksetX Proofs.C17 Gen.C17_Extracted.
From Verif Require Import Model.C17_Snapshot Proofs.C17_Snapshot.
From Verif Require Import Lib.Atomic Proofs.Atomic Model.C17_Cache Proofs.C17_Cache.
From Coq Require Import String.

(* ------------------------------------------------------------------------------------------------
   1. Generic soundness, proved once: for EVERY graph, entry list, skip set and single-instance
   flags, if the analysis accepts then no execution of any number of threads under any schedule
   reaches a state with two threads at conflicting accesses of one (non-skipped) field, and every
   finished thread has released all its locks. *)
Theorem C17_lockset_sound_partial :
  forall (skip : field -> bool) (single : nat -> bool) (g : graph) (entries : list nat),
    analysis_ok skip single g entries = true ->
    forall S0, initial single g entries S0 ->
    forall S, steps g S0 S ->
      ~ racy skip g S /\ (forall i L, nth_error S i = Some (Done, L) -> L = []).
Proof. exact lockset_sound_lemma. Qed.
Print Assumptions C17_lockset_sound_partial.

(* The analysis accepts every service skeleton extracted from the CURRENT source. *)
Theorem C17_tree_analysis_ok :
  forallb (fun '(_, g, e, sk, sg) => analysis_ok sk sg g e) services = true.
Proof. vm_compute. reflexivity. Qed.
Print Assumptions C17_tree_analysis_ok.

(* Hence: every extracted service is race free and lock balanced in every interleaving. *)
Theorem C17_tree_race_free_partial :
  forall name g e sk sg, In (name, g, e, sk, sg) services ->
    forall S0, initial sg g e S0 ->
    forall S, steps g S0 S ->
      ~ racy sk g S /\ (forall i L, nth_error S i = Some (Done, L) -> L = []).
Proof. exact (tree_static_lemma C17_tree_analysis_ok). Qed.
Print Assumptions C17_tree_race_free_partial.

(* ------------------------------------------------------------------------------------------------
   2. Dynamic population.  The statements above fix the threads at the start.  In production the
   scheduler goroutine runs job after job, an event stream delivers event after event, REST workers
   come and go: `xsteps` adds, to the steps of the threads, the creation of a thread at any entry at
   any time and a finished thread starting its next operation (keeping whatever lock it leaked), with
   at most one live thread inside a single-instance group.  For EVERY graph accepted by the analysis
   and EVERY such unbounded history: no two threads are ever at conflicting accesses; a finished
   operation holds no lock; no thread ever releases a lock it does not hold (Go aborts the process on
   that) or re-acquires a mutex it holds (Go blocks for ever on that, C12); mutual exclusion holds. *)
Theorem C17_dynamic_sound_partial :
  forall (skip : field -> bool) (single : nat -> bool) (g : graph) (entries : list nat),
    analysis_ok skip single g entries = true ->
    forall S0, initial single g entries S0 ->
    forall S, xsteps single g entries S0 S ->
      ~ racy skip g S /\ (forall i L, nth_error S i = Some (Done, L) -> L = []) /\ lock_safe g S /\ mutex_safe S.
Proof. exact dynamic_sound_lemma. Qed.
Print Assumptions C17_dynamic_sound_partial.

(* ... in particular for every service of the tree, starting from no thread at all. *)
Theorem C17_tree_dynamic_race_free_partial :
  forall name g e sk sg, In (name, g, e, sk, sg) services ->
    forall S, xsteps sg g e [] S ->
      ~ racy sk g S /\ (forall i L, nth_error S i = Some (Done, L) -> L = []) /\ lock_safe g S /\ mutex_safe S.
Proof. exact (tree_dynamic_lemma C17_tree_analysis_ok). Qed.
Print Assumptions C17_tree_dynamic_race_free_partial.

(* ------------------------------------------------------------------------------------------------
   3. Isolation of critical sections (the part of "results are those of some sequential order" that
   the skeleton can express).  If every write of field f happens under mutex m held exclusively
   (writes_guarded), then while ANY thread holds m — shared or exclusive — no other thread is at a
   write of f: a reader sees a stable f for the whole of its read section and the exclusive holder is
   the only writer for the whole of its section. *)
Theorem C17_sections_write_isolated :
  forall (skip : field -> bool) (single : nat -> bool) (g : graph) (entries : list nat) (f : field) (m : mutex),
    analysis_ok skip single g entries = true ->
    writes_guarded (graph_accesses g entries) f m = true ->
    forall S0, initial single g entries S0 ->
    forall S, xsteps single g entries S0 S -> write_isolated g S f m.
Proof. exact write_isolation_lemma. Qed.
Print Assumptions C17_sections_write_isolated.

(* If moreover every read of f holds m (guarded_by), the exclusive holder of m is alone with f: no
   other thread is at any access of f until it releases m — its whole section is atomic w.r.t. f. *)
Theorem C17_sections_isolated :
  forall (skip : field -> bool) (single : nat -> bool) (g : graph) (entries : list nat) (f : field) (m : mutex),
    analysis_ok skip single g entries = true ->
    guarded_by (graph_accesses g entries) f m = true ->
    forall S0, initial single g entries S0 ->
    forall S, xsteps single g entries S0 S -> isolated g S f m.
Proof. exact isolation_lemma. Qed.
Print Assumptions C17_sections_isolated.

(* The tree follows the discipline: every field of every extracted service that is written after
   construction has ONE mutex under which all its writes happen, or is confined to one
   single-instance group (controller head-event fields, activeValidators), or is a known finding. *)
Theorem C17_tree_guard_discipline :
  forallb (fun '(_, g, e, sk, sg) => discipline_ok sk sg (graph_accesses g e)) services = true.
Proof. vm_compute. reflexivity. Qed.
Print Assumptions C17_tree_guard_discipline.

Theorem C17_tree_sections_write_isolated_partial :
  forall name g e sk sg, In (name, g, e, sk, sg) services ->
    forall f, In f (fields_of (graph_accesses g e)) -> sk f = false -> confined sg (graph_accesses g e) f = false ->
      exists m, forall S, xsteps sg g e [] S -> write_isolated g S f m.
Proof. exact (tree_write_isolated_lemma C17_tree_analysis_ok C17_tree_guard_discipline). Qed.
Print Assumptions C17_tree_sections_write_isolated_partial.

(* and for every (field, mutex) pair of a service's guard table the exclusive holder is alone *)
Theorem C17_tree_guarded_sections_isolated_partial :
  forall name g e sk sg, In (name, g, e, sk, sg) services ->
    forall f m, In (f, m) (guard_table (graph_accesses g e)) ->
      forall S, xsteps sg g e [] S -> isolated g S f m.
Proof. exact (tree_isolated_lemma C17_tree_analysis_ok). Qed.
Print Assumptions C17_tree_guarded_sections_isolated_partial.

(* ------------------------------------------------------------------------------------------------
   4. Deadlock freedom among a service's own mutexes.  lock_order_ok: ranks are inferred and then
   CHECKED — a mutex is only acquired while holding mutexes of strictly smaller rank.  Then in every
   reachable state of every history some live thread can take a step: the service's threads never
   all wait for each other.  Stated twice: for the plain read/write lock (RLock enabled iff nobody
   holds the mutex exclusively), and with Go's WRITER PREFERENCE (`can_step_wp`: a reader also waits
   while any other thread sits at an exclusive Lock of the same mutex — an over-approximation of
   "a writer is waiting", the conservative direction for progress). *)
Theorem C17_deadlock_free_partial :
  forall (skip : field -> bool) (single : nat -> bool) (g : graph) (entries : list nat),
    analysis_ok skip single g entries = true ->
    lock_order_ok g entries = true ->
    forall S0, initial single g entries S0 ->
    forall S, xsteps single g entries S0 S -> live S -> can_step g S.
Proof. exact deadlock_free_lemma. Qed.
Print Assumptions C17_deadlock_free_partial.

Theorem C17_deadlock_free_writer_preference_partial :
  forall (skip : field -> bool) (single : nat -> bool) (g : graph) (entries : list nat),
    analysis_ok skip single g entries = true ->
    lock_order_ok g entries = true ->
    forall S0, initial single g entries S0 ->
    forall S, xsteps single g entries S0 S -> live S -> can_step_wp g S.
Proof. exact deadlock_free_wp_lemma. Qed.
Print Assumptions C17_deadlock_free_writer_preference_partial.

Theorem C17_tree_lock_order_ok :
  forallb (fun '(_, g, e, _, _) => lock_order_ok g e) services = true.
Proof. vm_compute. reflexivity. Qed.
Print Assumptions C17_tree_lock_order_ok.

Theorem C17_tree_deadlock_free_partial :
  forall name g e sk sg, In (name, g, e, sk, sg) services ->
    forall S, xsteps sg g e [] S -> live S -> can_step g S.
Proof. exact (tree_deadlock_free_lemma C17_tree_analysis_ok C17_tree_lock_order_ok). Qed.
Print Assumptions C17_tree_deadlock_free_partial.

Theorem C17_tree_deadlock_free_writer_preference_partial :
  forall name g e sk sg, In (name, g, e, sk, sg) services ->
    forall S, xsteps sg g e [] S -> live S -> can_step_wp g S.
Proof. exact (tree_deadlock_free_wp_lemma C17_tree_analysis_ok C17_tree_lock_order_ok). Qed.
Print Assumptions C17_tree_deadlock_free_writer_preference_partial.

(* ------------------------------------------------------------------------------------------------
   5. Whole operations, where the skeleton stops: the account managers' refresh / lookup pair with its
   data (Model/C17_Snapshot.v; one event = one critical section of `mutex`).  With the lookup taking
   the public keys and the accounts in ONE section (the code as it is now, wallet and dirk), in every
   schedule of any number of refreshes and lookups of any number of threads every answer IS the
   sequential lookup on the store installed by one refresh of the schedule (or the initial one) —
   "results are those of some sequential order" for this pair — and hence names no validator
   without its account. *)
Theorem C17_snapshot_lookup_sequential :
  forall (listing0 : list (key * account)) (sch : list event),
    forallb one_section sch = true ->
    forall t r, In (t, r) (c_out (run sch (init listing0))) ->
      exists s, In s (install listing0 :: stores_of sch) /\ r = lookup_at s.
Proof. exact snapshot_sequential_lemma. Qed.
Print Assumptions C17_snapshot_lookup_sequential.

Theorem C17_snapshot_lookup_whole :
  forall (listing0 : list (key * account)) (sch : list event),
    forallb one_section sch = true ->
    forall t r, In (t, r) (c_out (run sch (init listing0))) -> whole r = true.
Proof. exact snapshot_whole_lemma. Qed.
Print Assumptions C17_snapshot_lookup_whole.

(* The two-section shape (dirk before fix 1b8284f: public keys under one read lock, accounts under a
   second one) does not have the property: keys read, an account removed by a refresh, accounts read —
   the answer names validator 2 without an account and is the lookup of NO store of the schedule.
   (On the implementation: nil account, `account.Name()` panics; scenario dirk-churn, corpus/C17.) *)
Theorem C17_two_section_lookup_refuted :
  exists (listing0 : list (key * account)) (sch : list event) (t : nat) (r : result),
    In (t, r) (c_out (run sch (init listing0))) /\ whole r = false /\
    forall s, In s (install listing0 :: stores_of sch) -> r <> lookup_at s.
Proof. exists torn_listing0, torn_schedule, 0%nat, torn_answer. exact two_section_refuted_lemma. Qed.
Print Assumptions C17_two_section_lookup_refuted.

(* ------------------------------------------------------------------------------------------------
   6. Read-derive-write inside one operation (Lib/Atomic.v).  Lock sets accept an operation that reads a field in
   one critical section, releases the lock, and in a SECOND section writes a value computed from what it read:
   every access is locked, there is no data race — and every update others made between the two sections is lost.
   The translator lists the pairs (read node, write node of the same field whose value derives from that read,
   same operation); the check demands that the guard of the field's writes, held at the read, is not released on
   ANY path of the graph from the read to the write (or that nobody else writes the field at all).

   Generic, proved once: if `no_unlock_between m g r w` then every walk of the graph from r that ends at w
   without coming back to r (the thread's way from its LAST read at r to the write)
   executes no unlock of m, and a thread holding m at r holds it on arrival at w.  With write isolation
   (C17_sections_write_isolated: while a thread holds the write guard nobody else writes the field) the field
   still has the value read at r when w is executed: the operation's read and write are ONE step of a sequential
   order. *)
Theorem C17_guard_kept_between :
  forall (m : mutex) (g : graph) (r w : nat), no_unlock_between m g r w = true ->
    forall l L, is_path g r l -> ~ In r l -> fst (walk m g false r l) = w ->
      holds m L = true ->
      holds m (locks_along g L r l) = true /\
      (forall x, In x (removelast (r :: l)) -> unlocks_at m g x = false).
Proof. exact guard_kept_lemma. Qed.
Print Assumptions C17_guard_kept_between.

(* what an accepted pair is *)
Theorem C17_pair_ok_meaning :
  forall skip single g entries r w, pair_ok skip single g entries (r, w) = true ->
  exists nr nw f, nth_error g r = Some nr /\ nth_error g w = Some nw /\
    n_instr nr = IAcc f false /\ n_instr nw = IAcc f true /\ n_owner nr = n_owner nw /\
    let ls := infer g entries in let A := accesses_from ls 0 g in
    (skip f = true \/ reached ls r = false \/ reached ls w = false \/
     writes_confined single A f (n_owner nw) = true \/
     exists m, writes_guarded A f m = true /\ held_at ls r m = true /\ no_unlock_between m g r w = true).
Proof. exact pair_ok_cases. Qed.
Print Assumptions C17_pair_ok_meaning.

(* every derived pair of every service extracted from the CURRENT source is accepted *)
Theorem C17_tree_atomic_ok :
  forallb (fun '(n, g, e, sk, sg) => atomic_ok sk sg g e (pairs_of n derived_pairs)) services = true.
Proof. vm_compute. reflexivity. Qed.
Print Assumptions C17_tree_atomic_ok.

(* ------------------------------------------------------------------------------------------------
   7. The block root to slot cache with its data (Model/C17_Cache.v), one event per critical section.  With one
   section per operation — the code as it is — a schedule IS a sequential order of the operations: cache and
   answers are those of the sequential specification run in the order of the sections. *)
Theorem C17_cache_one_section_sequential :
  forall sch c0, forallb c_one_section sch = true ->
    k_cache (crun sch (cinit c0)) = s_cache (srun (map op_of sch) {| s_cache := c0; s_out := [] |}) /\
    k_out (crun sch (cinit c0)) = s_out (srun (map op_of sch) {| s_cache := c0; s_out := [] |}).
Proof. exact one_section_sequential_lemma. Qed.
Print Assumptions C17_cache_one_section_sequential.

(* no lost update: a lookup of a root after a set of it, with no other set of the root and only cleans whose
   minimum is not above its slot in between, answers that slot — in every schedule, from every initial cache *)
Theorem C17_cache_set_not_lost :
  forall pre mid post c0 k v t,
    forallb c_one_section (pre ++ CSet k v :: mid ++ CGet t k :: post) = true ->
    forallb (fun e => negb (sets_key k e) && keeps v e) mid = true ->
    In (t, k, Some v) (k_out (crun (pre ++ CSet k v :: mid ++ CGet t k :: post) (cinit c0))).
Proof. exact set_not_lost_lemma. Qed.
Print Assumptions C17_cache_set_not_lost.

(* FULL STATEMENT for a clean made of two sections (copy the entries to keep under the read lock, release, swap
   the copy in under the write lock): every answer is that of a sequential order.  REFUTED: the schedule
   copy; set 2 -> 100; swap; lookup 2 answers "unknown", while every sequential order of the three operations in
   which the set precedes the lookup answers 100. *)
Theorem C17_two_section_clean_refuted :
  k_out (crun lost_schedule (cinit lost_cache0)) = [(1%nat, 2, None)] /\
  forall ops, In ops lost_orders -> s_out (srun ops {| s_cache := lost_cache0; s_out := [] |}) = [(1%nat, 2, Some 100)].
Proof. exact two_section_clean_refuted_lemma. Qed.
Print Assumptions C17_two_section_clean_refuted.

(* ------------------------------------------------------------------------------------------------
   Non-vacuity.  The analysis rejects an unguarded write/read pair, a leaked lock and a nested read
   lock, and accepts the guarded version (so acceptance is not trivial). *)
Example C17_rejects_unguarded :
  analysis_ok (fun _ => false) (fun _ => false) unguarded [0%nat] = false.
Proof. vm_compute. reflexivity. Qed.

(* ... and the rejected graph really has a racy state (two threads at its write), reachable in the
   dynamic semantics from no thread at all: `racy` and `xsteps` are satisfiable *)
Example C17_unguarded_is_racy :
  exists S, xsteps (fun _ => false) unguarded [0%nat] [] S /\ racy (fun _ => false) unguarded S.
Proof. exact unguarded_is_racy. Qed.

Example C17_rejects_leak :
  analysis_ok (fun _ => false) (fun _ => false)
    [ {| n_instr := ILock 1 false; n_succ := [1%nat; 2%nat]; n_owner := 0 |};
      {| n_instr := ISkip; n_succ := []; n_owner := 0 |};
      {| n_instr := IUnlock 1 false; n_succ := []; n_owner := 0 |} ] [0%nat] = false.
Proof. vm_compute. reflexivity. Qed.

Example C17_rejects_nested_rlock :
  analysis_ok (fun _ => false) (fun _ => false)
    [ {| n_instr := ILock 1 false; n_succ := [1%nat]; n_owner := 0 |};
      {| n_instr := ILock 1 false; n_succ := [2%nat]; n_owner := 0 |};
      {| n_instr := IUnlock 1 false; n_succ := [3%nat]; n_owner := 0 |};
      {| n_instr := IUnlock 1 false; n_succ := []; n_owner := 0 |} ] [0%nat] = false.
Proof. vm_compute. reflexivity. Qed.

Example C17_accepts_guarded :
  analysis_ok (fun _ => false) (fun _ => false) guarded_example [0%nat; 3%nat] = true.
Proof. vm_compute. reflexivity. Qed.

(* guard tables: in the accepted example field 1 is guarded by mutex 1; the tree has many guarded
   fields (so the isolation theorems speak about something) *)
Example C17_guard_table_example :
  guard_table (graph_accesses guarded_example [0%nat; 3%nat]) = [(1, 1)].
Proof. vm_compute. reflexivity. Qed.

Example C17_tree_guard_tables_nonempty :
  (10 <=? List.length (flat_map (fun '(_, g, e, _, _) => guard_table (graph_accesses g e)) services))%nat = true.
Proof. vm_compute. reflexivity. Qed.

(* the discipline rejects a field written under two different mutexes *)
Example C17_discipline_rejects_two_guards :
  discipline_ok (fun _ => false) (fun _ => false) (graph_accesses two_guards [0%nat; 3%nat]) = false.
Proof. vm_compute. reflexivity. Qed.

(* writer preference restricts: a reader at its RLock waits for the writer sitting at its Lock, who can go *)
Example C17_writer_preference_example :
  let S := [(At 0, []); (At 3, [])] in
  may_step guarded_example S 1 /\ ~ may_step_wp guarded_example S 1 /\ can_step_wp guarded_example S.
Proof. exact writer_preference_example. Qed.

(* the snapshot theorems speak about schedules that do answer: a refresh between two lookups *)
Example C17_snapshot_example :
  c_out (run [ESnap 0; ERefresh [(1, 10)]; ESnap 1] (init [(1, 10); (2, 20)])) =
    [(1%nat, [(1, Some 10)]); (0%nat, [(1, Some 10); (2, Some 20)])].
Proof. vm_compute. reflexivity. Qed.

(* the lock order rejects AB/BA although the lockset analysis accepts it, and that graph does
   deadlock: a reachable state with two live threads and no possible step *)
Example C17_lock_order_rejects_abba :
  analysis_ok (fun _ => false) (fun _ => false) abba [0%nat; 4%nat] = true /\
  lock_order_ok abba [0%nat; 4%nat] = false.
Proof. vm_compute. split; reflexivity. Qed.

Example C17_abba_deadlocks :
  exists S, xsteps (fun _ => false) abba [0%nat; 4%nat] [] S /\ live S /\ ~ can_step abba S.
Proof. exact abba_deadlocks. Qed.

(* the atomicity check: a read under the read lock, release, write of the derived value under the write lock
   (the shape of seeded change C17-7) is rejected although the lockset analysis accepts the graph; the same read
   and write inside one write section are accepted *)
Definition rcu_graph : graph :=
  [ {| n_instr := ILock 1 false; n_succ := [1%nat]; n_owner := 0 |};
    {| n_instr := IAcc 1 false; n_succ := [2%nat]; n_owner := 0 |};
    {| n_instr := IUnlock 1 false; n_succ := [3%nat]; n_owner := 0 |};
    {| n_instr := ILock 1 true; n_succ := [4%nat]; n_owner := 0 |};
    {| n_instr := IAcc 1 true; n_succ := [5%nat]; n_owner := 0 |};
    {| n_instr := IUnlock 1 true; n_succ := []; n_owner := 0 |} ].
Definition rmw_graph : graph :=
  [ {| n_instr := ILock 1 true; n_succ := [1%nat]; n_owner := 0 |};
    {| n_instr := IAcc 1 false; n_succ := [2%nat]; n_owner := 0 |};
    {| n_instr := IAcc 1 true; n_succ := [3%nat; 1%nat]; n_owner := 0 |};
    {| n_instr := IUnlock 1 true; n_succ := []; n_owner := 0 |} ].

(* a loop that locks, reads, writes and unlocks once per iteration: atomic per iteration *)
Definition rmw_loop_graph : graph :=
  [ {| n_instr := ILock 1 true; n_succ := [1%nat]; n_owner := 0 |};
    {| n_instr := IAcc 1 false; n_succ := [2%nat]; n_owner := 0 |};
    {| n_instr := IAcc 1 true; n_succ := [3%nat]; n_owner := 0 |};
    {| n_instr := IUnlock 1 true; n_succ := [0%nat; 4%nat]; n_owner := 0 |};
    {| n_instr := ISkip; n_succ := []; n_owner := 0 |} ].

Example C17_atomic_rejects_read_copy_swap :
  analysis_ok (fun _ => false) (fun _ => false) rcu_graph [0%nat] = true /\
  atomic_ok (fun _ => false) (fun _ => false) rcu_graph [0%nat] [(1%nat, 4%nat)] = false /\
  atomic_ok (fun _ => false) (fun _ => false) rmw_graph [0%nat] [(1%nat, 2%nat)] = true /\
  atomic_ok (fun _ => false) (fun _ => false) rmw_loop_graph [0%nat] [(1%nat, 2%nat)] = true.
Proof. vm_compute. repeat split; reflexivity. Qed.

(* the tree has derived pairs (so C17_tree_atomic_ok speaks about something) *)
Example C17_tree_derived_pairs_nonempty :
  (5 <=? List.length (flat_map snd derived_pairs))%nat = true.
Proof. vm_compute. reflexivity. Qed.

(* the conditions on observed histories reject the lost update and accept the same history with the entry found *)
Example C17_history_examples : lin_ok lost_history = false /\ lin_ok found_history = true.
Proof. exact lin_ok_examples. Qed.

(* the conditions are necessary at small scope: all 32768 histories of three operations (sets, lookups, lookups of a
   root the node knows, cleans; two roots; intervals overlapping up to two neighbours) and all 104976 of four
   operations on one root that come from a sequential run are accepted *)
Example C17_history_conditions_necessary_small_scope :
  forallb (fun w => lin_ok (hist_of [] 0 w)) (words 3) = true /\
  forallb (fun w => lin_ok (hist_of [] 0 w)) (words4 4) = true.
Proof. exact history_conditions_small_scope_lemma. Qed.

