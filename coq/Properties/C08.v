(* C08 — a submission reaches every configured node and succeeds iff one accepts.
   Property theorems only; the lemmas are in Proofs/C08.v, the model in Model/C08_Submitter.v
   (what the code does) and Model/C08_Spec.v (the documented table of tolerated rejections).

   Reading guide.  [run inp order] is one Submit<Kind> call of the multinode submitter: [inp] fixes
   the submission kind, payload length, processConcurrency, timeout and, per configured node, its
   client type and scripted behaviour (accept / structured error / slow / hang, per call);
   [order] is the schedule, i.e. the order in which the nodes' goroutines reach the semaphore.
   It returns what every node sees ([node_view]) and the SET of possible (success, return time)
   pairs (two events at the same fake instant are unordered).  Every theorem quantifies over all
   inputs and all schedules. *)
From Verif Require Import Lib.Base Model.C08_Submitter Model.C08_Spec Proofs.C08 Proofs.C08_Deadline Check.C08.

(* ------------------------------------------------------------------------------------------- *)
(* util.Scatter / calculateExtentSize: for every positive length and every concurrency (<= 0
   means GOMAXPROCS, which is positive) the extents are non-empty, contiguous from 0 and end at
   the length: they partition [0, len). *)
Theorem C08_scatter_partition :
  forall items conc gomax : Z,
    (0 < items)%Z -> (0 < conc \/ 0 < gomax)%Z ->
    exists l, scatter_extents items conc gomax = Some l /\ chain 0 items l.
Proof. exact scatter_partition. Qed.
Print Assumptions C08_scatter_partition.

(* ... hence cutting any payload of that length along the extents and concatenating the pieces
   gives back the payload: every item is handed to exactly one worker, in order. *)
Theorem C08_scatter_covers_payload :
  forall (A : Type) (xs : list A) conc gomax l,
    scatter_extents (Z.of_nat (length xs)) conc gomax = Some l ->
    (0 < conc \/ 0 < gomax)%Z ->
    concat (map (slice xs) l) = xs.
Proof.
  intros A xs conc gomax l El Hc.
  assert (Hpos : (0 < Z.of_nat (length xs))%Z).
  { destruct (Z_lt_le_dec 0 (Z.of_nat (length xs))) as [H|H]; [exact H|].
    apply (scatter_none_iff _ conc gomax) in H. rewrite H in El. discriminate. }
  destruct (scatter_partition _ conc gomax Hpos Hc) as [l' [El' Hch]].
  rewrite El in El'. injection El' as <-.
  rewrite (chain_concat xs l 0%Z Hch); [reflexivity | apply Z.le_refl].
Qed.
Print Assumptions C08_scatter_covers_payload.

(* Scatter refuses exactly the non-positive lengths. *)
Theorem C08_scatter_error_iff :
  forall items conc gomax, scatter_extents items conc gomax = None <-> (items <= 0)%Z.
Proof. exact scatter_none_iff. Qed.
Print Assumptions C08_scatter_error_iff.

(* ------------------------------------------------------------------------------------------- *)
(* Every node that is contacted at all is offered the payload in full, exactly once: its calls,
   in order, cut the payload into consecutive non-empty pieces (one piece = the whole payload for
   every kind but attestations).  Any kind, length, concurrency >= 1, node behaviours, schedule. *)
Theorem C08_every_node_whole_payload :
  forall (A : Type) (payload : list A) inp order i v,
    wf_input inp -> length payload = N.to_nat (i_len inp) ->
    nth_error (fst (run inp order)) i = Some v -> v_at v <> None ->
    concat (map (nslice payload) (v_calls v)) = payload
    /\ (i_kind inp <> KAttestations -> v_calls v = [(0, i_len inp)])
    /\ (0 < i_len inp -> Forall (fun c => 0 < snd c) (v_calls v)).
Proof. intros A payload inp order i v. exact (whole_payload_lemma inp order i v payload). Qed.
Print Assumptions C08_every_node_whole_payload.

(* If no node hangs (neither at a call nor at a version request: its span is finite), every node is
   contacted eventually, whatever the concurrency (>= 1) and the schedule, and receives exactly the
   calls above. *)
Theorem C08_delivery_eventually :
  forall inp order i v,
    guard_ok (i_kind inp) (i_len inp) = true -> wf_input inp ->
    valid_order (length (i_nodes inp)) order ->
    (forall nd, In nd (i_nodes inp) ->
                node_span (i_kind inp) nd (node_behs (i_kind inp) (i_len inp) (i_conc inp) nd) <> None) ->
    nth_error (fst (run inp order)) i = Some v ->
    v_at v <> None /\ v_calls v = calls_of (i_kind inp) (i_len inp) (i_conc inp).
Proof. exact delivery_eventually. Qed.
Print Assumptions C08_delivery_eventually.

(* ------------------------------------------------------------------------------------------- *)
(* Fault isolation.  With processConcurrency >= number of nodes, what node i sees and does is a
   function of node i alone ([solo_view]: asked for its version at time 0, handed the whole payload
   as soon as it has answered that, finishing after its own span -- its version latency, its own
   slowest call, for a classified rejection its version latency again -- with its own verdict) --
   for every behaviour of the other nodes (error, hang, slow, at a call or at the version request)
   and every schedule. *)
Theorem C08_fault_isolation :
  forall inp order i v,
    guard_ok (i_kind inp) (i_len inp) = true ->
    valid_order (length (i_nodes inp)) order ->
    (Z.of_nat (length (i_nodes inp)) <= i_conc inp)%Z ->
    nth_error (fst (run inp order)) i = Some v ->
    exists nd, nth_error (i_nodes inp) i = Some nd
               /\ v = solo_view (i_kind inp) (i_len inp) (i_conc inp) nd.
Proof. exact contacted_at_once. Qed.
Print Assumptions C08_fault_isolation.

(* In particular the version request (helpers.go serviceInfo -> NodeVersion) that precedes every
   submission to a node is that node's own affair: node i is handed the payload exactly when its own
   version endpoint has answered (never, if it never does), in full, whatever the version endpoints
   and the replies of the other nodes do. *)
Theorem C08_handed_over_after_own_version_request :
  forall inp order i v,
    guard_ok (i_kind inp) (i_len inp) = true ->
    valid_order (length (i_nodes inp)) order ->
    (Z.of_nat (length (i_nodes inp)) <= i_conc inp)%Z ->
    nth_error (fst (run inp order)) i = Some v ->
    exists nd, nth_error (i_nodes inp) i = Some nd
               /\ v_at v = n_ver1 nd
               /\ (n_ver1 nd <> None -> v_calls v = calls_of (i_kind inp) (i_len inp) (i_conc inp)).
Proof.
  intros inp order i v Hg Ho Hc Hv.
  destruct (contacted_at_once inp order i v Hg Ho Hc Hv) as [nd [En ->]].
  exists nd. split; [exact En|]. split; [reflexivity|].
  cbn [solo_view v_calls]. destruct (n_ver1 nd); [reflexivity | congruence].
Qed.
Print Assumptions C08_handed_over_after_own_version_request.

(* ... and success via it: if node i, taken alone, ends with an accepted result at d < timeout,
   every possible outcome is a success, returned no later than d (d > 0; an answer at the very
   instant of the call can be signalled before the caller waits, then the next signal wakes it),
   whatever the other nodes do. *)
Theorem C08_success_via_any_node :
  forall inp order i nd d o,
    guard_ok (i_kind inp) (i_len inp) = true -> 0 < i_timeout inp ->
    valid_order (length (i_nodes inp)) order ->
    (Z.of_nat (length (i_nodes inp)) <= i_conc inp)%Z ->
    nth_error (i_nodes inp) i = Some nd ->
    node_verdict (i_kind inp) (n_client nd) (node_behs (i_kind inp) (i_len inp) (i_conc inp) nd) = VOk ->
    node_span (i_kind inp) nd (node_behs (i_kind inp) (i_len inp) (i_conc inp) nd) = Some d ->
    d < i_timeout inp ->
    In o (snd (run inp order)) ->
    fst o = true /\ (0 < d -> snd o <= d).
Proof. exact success_via. Qed.
Print Assumptions C08_success_via_any_node.

(* ------------------------------------------------------------------------------------------- *)
(* Bounded time: every possible outcome returns no later than the timeout (any concurrency, any
   schedule, hanging nodes included); a reported failure of a non-empty submission returns exactly
   at the timeout; and there always is an outcome (the call terminates). *)
Theorem C08_returns_by_timeout :
  forall inp order o,
    0 < i_timeout inp -> In o (snd (run inp order)) ->
    snd o <= i_timeout inp
    /\ (fst o = false -> guard_ok (i_kind inp) (i_len inp) = true -> snd o = i_timeout inp).
Proof. exact returns_by_timeout. Qed.
Print Assumptions C08_returns_by_timeout.

Theorem C08_always_returns : forall inp order, snd (run inp order) <> [].
Proof. exact some_outcome. Qed.
Print Assumptions C08_always_returns.

(* ------------------------------------------------------------------------------------------- *)
(* Success iff one accepts.
   Full statement: for processConcurrency >= number of nodes, every outcome o of every input
   and schedule satisfies
      fst o = true  ->  some node accepted within the timeout   (d <= T)
      some node accepted before the timeout (d < T)  ->  fst o = true
   where "node nd accepted" = every call that carried a part of the payload to nd was accepted or
   rejected only for reasons of the documented table ([spec_node_ok]) and vouch had nd's answer
   at d ([node_span]: nd's version latency, its slowest call, and for a rejection the version
   latency of the classifier's request).  (At d = T exactly, the store and the timeout race: both results are possible.)

   The faithful model REFUTES the full statement for attestations (two input classes, theorems
   C08_success_iff_refuted_* below), so what is proved is the statement for [clean_input]:
   no attestation error text that names a tolerated reason next to another one ([mixed_body]),
   no node whose attestation chunks fail for tolerated and for other reasons ([chunk_mixed]).
   For the seven other kinds [clean_input] always holds (C08_clean_unless_attestations), so for
   them the statement is proved in full. *)
Theorem C08_success_iff_partial :
  forall inp order o,
    guard_ok (i_kind inp) (i_len inp) = true -> 0 < i_timeout inp ->
    valid_order (length (i_nodes inp)) order ->
    (Z.of_nat (length (i_nodes inp)) <= i_conc inp)%Z ->
    clean_input inp = true ->
    In o (snd (run inp order)) ->
    let accepted_by (bound : N -> Prop) :=
      exists nd d, In nd (i_nodes inp)
        /\ spec_node_ok (i_kind inp) (n_client nd) (node_behs (i_kind inp) (i_len inp) (i_conc inp) nd) = true
        /\ node_span (i_kind inp) nd (node_behs (i_kind inp) (i_len inp) (i_conc inp) nd) = Some d /\ bound d in
    (fst o = true -> accepted_by (fun d => d <= i_timeout inp))
    /\ (accepted_by (fun d => d < i_timeout inp) -> fst o = true).
Proof. exact success_iff_clean. Qed.
Print Assumptions C08_success_iff_partial.

Theorem C08_clean_unless_attestations :
  forall inp, i_kind inp <> KAttestations -> clean_input inp = true.
Proof. exact clean_unless_attestations. Qed.
Print Assumptions C08_clean_unless_attestations.

(* Witness 1 (corpus/C08/att-lighthouse-duplicate-and-invalid-in-one-body.json): a Lighthouse node
   rejects a batch of two attestations, one as already known, one for an invalid signature;
   handleAttestationsError finds "PriorAttestationKnown" somewhere in the text and clears the
   error: success is reported although no node accepted. *)
Definition refute_mixed_body : input :=
  {| i_kind := KAttestations; i_len := 2; i_conc := 1; i_timeout := 1000;
     i_nodes := [ {| n_client := Lighthouse;
                     n_default := BReply 5 (RError {| e_shape := ShFailures; e_entries := [Some PhPriorAtt; Some PhReal] |});
                     n_over := []; n_ver1 := Some 0; n_ver2 := Some 0 |} ] |}.

(* Witness 2 (corpus/C08/att-lighthouse-chunk-real-error-then-duplicate.json): four attestations,
   concurrency 2: Scatter makes two calls; the node rejects the first chunk for a real reason at
   20 ms and the second as already known at 30 ms; Scatter keeps the last error only. *)
Definition refute_chunk_error : input :=
  {| i_kind := KAttestations; i_len := 4; i_conc := 2; i_timeout := 1000;
     i_nodes := [ {| n_client := Lighthouse;
                     n_default := BReply 10 RAccept;
                     n_over := [ (0, BReply 20 (RError {| e_shape := ShFailures; e_entries := [Some PhReal] |}));
                                 (2, BReply 30 (RError {| e_shape := ShFailures; e_entries := [Some PhPriorAtt] |})) ];
                     n_ver1 := Some 0; n_ver2 := Some 0 |} ] |}.

Definition refutes (inp : input) (order : list nat) : Prop :=
  guard_ok (i_kind inp) (i_len inp) = true /\ 0 < i_timeout inp
  /\ valid_order (length (i_nodes inp)) order
  /\ (Z.of_nat (length (i_nodes inp)) <= i_conc inp)%Z
  /\ (exists o, In o (snd (run inp order)) /\ fst o = true)
  /\ (forall nd, In nd (i_nodes inp) ->
        spec_node_ok (i_kind inp) (n_client nd) (node_behs (i_kind inp) (i_len inp) (i_conc inp) nd) = false).

Lemma valid_order_one : valid_order 1 [0%nat].
Proof.
  split; [reflexivity|]. split.
  - intros i Hi. left. destruct i; [reflexivity | inversion Hi as [|? H]; inversion H].
  - intros j [<-|[]]. constructor.
Qed.

Theorem C08_success_iff_refuted_mixed_body : exists inp order, refutes inp order /\ clean_input inp = false.
Proof.
  exists refute_mixed_body, [0%nat]. split; [|reflexivity].
  split; [reflexivity|]. split; [reflexivity|]. split; [exact valid_order_one|]. split; [cbn; apply Z.le_refl|]. split.
  - exists (true, 5). split; [vm_compute; left; reflexivity | reflexivity].
  - intros nd [<-|[]]. reflexivity.
Qed.
Print Assumptions C08_success_iff_refuted_mixed_body.

Theorem C08_success_iff_refuted_chunk_error : exists inp order, refutes inp order /\ clean_input inp = false.
Proof.
  exists refute_chunk_error, [0%nat]. split; [|reflexivity].
  split; [reflexivity|]. split; [reflexivity|]. split; [exact valid_order_one|]. split; [cbn; lia|]. split.
  - exists (true, 30). split; [vm_compute; left; reflexivity | reflexivity].
  - intros nd [<-|[]]. reflexivity.
Qed.
Print Assumptions C08_success_iff_refuted_chunk_error.

(* ------------------------------------------------------------------------------------------- *)
(* Tolerated only: the handlers' classification is the documented table.
   Full statement: forall k c e, tolerated k c e = spec_tolerated k c e, i.e. an error counts as
   "no error" exactly when the node named at least one reason, every reason is tolerated for that
   submission kind from that client, and (sync kinds) the body is readable; every error of the
   five kinds without a handler is an error.  Refuted for attestations on [mixed_body] texts
   (C08_tolerated_only_refuted); proved for everything else. *)
Theorem C08_tolerated_only_partial :
  forall k c e, (k = KAttestations -> mixed_body k c e = false) ->
                tolerated k c e = spec_tolerated k c e.
Proof. exact tolerated_clean. Qed.
Print Assumptions C08_tolerated_only_partial.

Theorem C08_tolerated_only_refuted :
  exists c e, tolerated KAttestations c e = true /\ spec_tolerated KAttestations c e = false.
Proof.
  exists Lighthouse, {| e_shape := ShFailures; e_entries := [Some PhPriorAtt; Some PhReal] |}.
  split; reflexivity.
Qed.
Print Assumptions C08_tolerated_only_refuted.

(* the table the model's handlers use is the documented one *)
Theorem C08_table_is_documented : forall k c p, tol_phrase k c p = spec_tol_phrase k c p.
Proof. exact tol_phrase_spec. Qed.
Print Assumptions C08_table_is_documented.

(* For a clean node, what its goroutine stores is exactly "the node accepted". *)
Theorem C08_node_verdict_is_acceptance :
  forall k c bs d, clean_node k c bs = true -> node_dur bs = Some d ->
                   node_verdict k c bs = if spec_node_ok k c bs then VOk else VErr.
Proof. exact node_verdict_clean. Qed.
Print Assumptions C08_node_verdict_is_acceptance.

(* ------------------------------------------------------------------------------------------- *)
(* The immediate submitter: the one node gets the whole payload in one call; success iff it
   accepts; an empty payload is refused without a call. *)
Theorem C08_immediate_exact :
  forall len r,
    immediate len r = if len =? 0 then ([], false)
                      else ([(0, len)], match r with RAccept => true | RError _ => false end).
Proof. reflexivity. Qed.
Print Assumptions C08_immediate_exact.

(* ... also when the node is scripted per request: its answer to the one request that carries the
   whole payload decides. *)
Theorem C08_immediate_node_exact :
  forall nd len d r, call_beh nd (0, len) = BReply d r ->
    immediate_node nd len = if len =? 0 then ([], false)
                            else ([(0, len)], match r with RAccept => true | RError _ => false end).
Proof. intros nd len d r H. unfold immediate_node. rewrite H. reflexivity. Qed.
Print Assumptions C08_immediate_node_exact.

(* The start order accepted by the correspondence check is a valid schedule of the theorems. *)
Theorem C08_checked_order_is_valid : forall order n, is_perm order n = true -> valid_order n order.
Proof.
  intros order n H. unfold is_perm in H.
  apply andb_true_iff in H as [H H3]. apply andb_true_iff in H as [H1 H2].
  apply Nat.eqb_eq in H1. rewrite forallb_forall in H2, H3.
  split; [exact H1|]. split.
  - intros i Hi. specialize (H2 i ltac:(apply in_seq; lia)).
    apply existsb_exists in H2 as [j [Hj E]]. apply Nat.eqb_eq in E. subst j. exact Hj.
  - intros j Hj. apply Nat.ltb_lt. apply H3. exact Hj.
Qed.
Print Assumptions C08_checked_order_is_valid.

(* ------------------------------------------------------------------------------------------- *)
(* Non-vacuity. *)

(* Scatter: 10 items at concurrency 4 make FIVE workers of 2 (more workers than the concurrency);
   7 items at concurrency 3 make 3+3+1. *)
Example C08_scatter_examples :
  scatter_extents 10 4 1 = Some [(0, 2); (2, 2); (4, 2); (6, 2); (8, 2)]%Z
  /\ scatter_extents 7 3 1 = Some [(0, 3); (3, 3); (6, 1)]%Z
  /\ scatter_extents 3 0 8 = Some [(0, 1); (1, 1); (2, 1)]%Z.
Proof. repeat split. Qed.

(* Three nodes, concurrency 3: one hangs, one rejects with a real error, a Teku node rejects sync
   committee messages as duplicates at 40 ms: success at 40 ms; all three saw the whole payload at
   time 0; the input is clean and meets every hypothesis of the theorems above. *)
Definition example_input : input :=
  {| i_kind := KSyncMessages; i_len := 3; i_conc := 3; i_timeout := 2000;
     i_nodes := [ {| n_client := Lighthouse; n_default := BHang; n_over := []; n_ver1 := Some 0; n_ver2 := Some 0 |};
                  {| n_client := Prysm; n_default := BReply 7 (RError {| e_shape := ShPlain; e_entries := [] |}); n_over := []; n_ver1 := Some 0; n_ver2 := Some 0 |};
                  {| n_client := Teku;
                     n_default := BReply 40 (RError {| e_shape := ShFailures; e_entries := [Some PhTekuDupSync; Some PhTekuDupSync] |});
                     n_over := []; n_ver1 := Some 0; n_ver2 := Some 0 |} ] |}.

Example C08_example_run :
  snd (run example_input [2; 0; 1]%nat) = [(true, 40)]
  /\ map v_start (fst (run example_input [2; 0; 1]%nat)) = [Some 0; Some 0; Some 0]
  /\ map v_calls (fst (run example_input [2; 0; 1]%nat)) = [[(0, 3)]; [(0, 3)]; [(0, 3)]]
  /\ clean_input example_input = true
  /\ is_perm [2; 0; 1]%nat 3 = true.
Proof. vm_compute. repeat split. Qed.

(* Concurrency 1 with the hanging node first in the schedule: nobody else is ever contacted and the
   call fails at the timeout -- the proviso "concurrency not below the number of nodes" matters. *)
Example C08_example_starved :
  let inp := {| i_kind := i_kind example_input; i_len := 3; i_conc := 1; i_timeout := 2000; i_nodes := i_nodes example_input |} in
  snd (run inp [0; 1; 2]%nat) = [(false, 2000)]
  /\ map v_start (fst (run inp [0; 1; 2]%nat)) = [Some 0; None; None].
Proof. vm_compute. repeat split. Qed.

(* Chunked attestations: 7 items at concurrency 3, a Lighthouse node whose middle chunk is rejected
   as already known: accepted. *)
Example C08_example_chunks :
  let inp := {| i_kind := KAttestations; i_len := 7; i_conc := 3; i_timeout := 500;
                i_nodes := [ {| n_client := Lighthouse; n_default := BReply 10 RAccept;
                                n_over := [ (4, BReply 20 (RError {| e_shape := ShFailures; e_entries := [Some PhPriorAtt] |})) ];
                                n_ver1 := Some 0; n_ver2 := Some 0 |} ] |} in
  run inp [0%nat] = ([ {| v_start := Some 0; v_at := Some 0; v_calls := [(0, 3); (3, 3); (6, 1)]; v_done := Some 20; v_verdict := VOk |} ], [(true, 20)])
  /\ clean_input inp = true.
Proof. vm_compute. repeat split. Qed.

(* A tolerated rejection does not end the node's other chunks: 4 items at concurrency 2, the first
   chunk is rejected as already known at 10 ms, the second accepted at 30 ms: the node counts as
   accepting at 30 ms, having been left to answer both requests.  The check's predicate accepts that
   observation, and condemns the same submission when the second request was abandoned at 10 ms
   (reported as a failure at the timeout) or when it merely was abandoned, whatever was reported. *)
Example C08_example_tolerated_chunk_then_accept :
  let inp := {| i_kind := KAttestations; i_len := 4; i_conc := 2; i_timeout := 200;
                i_nodes := [ {| n_client := Lighthouse; n_default := BReply 30 RAccept;
                                n_over := [ (0, BReply 10 (RError {| e_shape := ShFailures; e_entries := [Some PhPriorAtt] |})) ];
                                n_ver1 := Some 0; n_ver2 := Some 0 |} ] |} in
  let calls := [[(0, [0; 1]); (0, [2; 3])]] in
  let seen ok ret cut := {| c_id := 0; c_body := CSubmit inp None [0%nat]
        {| o_panic := false; o_success := ok; o_ret := ret; o_nodes := calls; o_cut := [cut] |} |} in
  run inp [0%nat] = ([ {| v_start := Some 0; v_at := Some 0; v_calls := [(0, 2); (2, 2)]; v_done := Some 30; v_verdict := VOk |} ], [(true, 30)])
  /\ clean_input inp = true
  /\ agree (seen true 30 []) = true /\ P_b (seen true 30 []) = true
  /\ P_b (seen false 200 [(10, false)]) = false
  /\ P_b (seen true 30 [(10, false)]) = false /\ agree (seen true 30 [(10, false)]) = false
  /\ P_b (seen true 30 [(10, true)]) = true /\ P_b (seen true 30 [(200, false)]) = true.
Proof. vm_compute. repeat split. Qed.

(* Faults at the version endpoint.  Sync committee contributions to three nodes, concurrency 3,
   timeout 500 ms: node 0 never answers the version request, node 1 answers it after 300 ms and then
   accepts within 10 ms, node 2 answers it at once and accepts after 40 ms.  The model: node 0 is
   never handed the payload, node 1 at 300 ms, node 2 at once; success at 40 ms.  The check's
   predicate accepts that observation and condemns what a submitter does that asks the nodes for
   their versions one after the other before dispatching (seeded change C08-8): the call that has not
   returned when nothing more can happen, node 2 contacted only once node 1 has answered, and a
   failure reported later than the timeout. *)
Example C08_example_version_faults :
  let nd v d := {| n_client := Lighthouse; n_default := BReply d RAccept; n_over := []; n_ver1 := v; n_ver2 := Some 0 |} in
  let inp := {| i_kind := KSyncContributions; i_len := 2; i_conc := 3; i_timeout := 500;
                i_nodes := [ nd None 10; nd (Some 300) 10; nd (Some 0) 40 ] |} in
  let seen ok ret nodes := {| c_id := 0; c_body := CSubmit inp None [0; 1; 2]%nat
        {| o_panic := false; o_success := ok; o_ret := ret; o_nodes := nodes; o_cut := [[]; []; []] |} |} in
  snd (run inp [0; 1; 2]%nat) = [(true, 40)]
  /\ map v_at (fst (run inp [0; 1; 2]%nat)) = [None; Some 300; Some 0]
  /\ map v_done (fst (run inp [0; 1; 2]%nat)) = [None; Some 310; Some 40]
  /\ agree (seen true 40 [[]; [(300, [0; 1])]; [(0, [0; 1])]]) = true
  /\ P_b (seen true 40 [[]; [(300, [0; 1])]; [(0, [0; 1])]]) = true
  /\ P_b (seen false 2350 [[]; []; []]) = false
  /\ P_b (seen true 340 [[]; [(300, [0; 1])]; [(300, [0; 1])]]) = false
  /\ P_b (seen false 800 [[]; [(300, [0; 1])]; []]) = false.
Proof. vm_compute. repeat split. Qed.

(* The classifier's own version request counts against the node it is made to, and only against it:
   a Teku node rejects sync committee messages as duplicates at 40 ms, having answered the first
   version request after 20 ms, and answers the classifier's version request after another 100 ms:
   vouch has its (tolerated) answer at 160 ms; the other node never answers anything. *)
Example C08_example_version_again :
  let dup := RError {| e_shape := ShFailures; e_entries := [Some PhTekuDupSync] |} in
  let inp := {| i_kind := KSyncMessages; i_len := 2; i_conc := 2; i_timeout := 500;
                i_nodes := [ {| n_client := Teku; n_default := BReply 40 dup; n_over := []; n_ver1 := Some 20; n_ver2 := Some 100 |};
                             {| n_client := Prysm; n_default := BHang; n_over := []; n_ver1 := Some 0; n_ver2 := None |} ] |} in
  let seen ok ret := {| c_id := 0; c_body := CSubmit inp None [0; 1]%nat
        {| o_panic := false; o_success := ok; o_ret := ret; o_nodes := [[(20, [0; 1])]; [(0, [0; 1])]]; o_cut := [[]; []] |} |} in
  run inp [0; 1]%nat
  = ([ {| v_start := Some 0; v_at := Some 20; v_calls := [(0, 2)]; v_done := Some 160; v_verdict := VOk |};
       {| v_start := Some 0; v_at := Some 0; v_calls := [(0, 2)]; v_done := None; v_verdict := VOk |} ], [(true, 160)])
  /\ agree (seen true 160) = true /\ P_b (seen true 160) = true
  /\ P_b (seen false 500) = false /\ P_b (seen true 60) = false.
Proof. vm_compute. repeat split. Qed.

(* ------------------------------------------------------------------------------------------- *)
(* The caller's context.  [run_dl cl inp order] is the same call made with a context that carries a
   deadline [cl_deadline] ms after the call ([cl = None]: no deadline, and then it is [run]); the
   nodes either honour the request context as the HTTP client does or ignore it ([cl_deaf]).  The
   "timeout" of the property is the CONFIGURED one, whatever the caller's context says. *)
Theorem C08_no_deadline_is_run : forall inp order, run_dl None inp order = run inp order.
Proof. exact run_dl_none. Qed.
Print Assumptions C08_no_deadline_is_run.

(* every possible outcome returns no later than the configured timeout, for every deadline of the
   caller (earlier, equal, later), and a reported failure of a non-empty submission returns exactly
   at the timeout; the call terminates *)
Theorem C08_returns_by_timeout_whatever_the_callers_deadline :
  forall cl inp order o,
    0 < i_timeout inp -> In o (snd (run_dl cl inp order)) ->
    snd o <= i_timeout inp
    /\ (fst o = false -> guard_ok (i_kind inp) (i_len inp) = true -> snd o = i_timeout inp).
Proof. exact dl_returns_by_timeout. Qed.
Print Assumptions C08_returns_by_timeout_whatever_the_callers_deadline.

(* A client monitor that takes m ms per ClientOperation call (run_mon: every answer counted m ms
   later) changes neither the timeout bound nor that a reported failure returns exactly then. *)
Theorem C08_returns_by_timeout_whatever_the_monitor_takes :
  forall m inp order o,
    0 < i_timeout inp -> In o (snd (run_mon m inp order)) ->
    snd o <= i_timeout inp
    /\ (fst o = false -> guard_ok (i_kind inp) (i_len inp) = true -> snd o = i_timeout inp).
Proof.
  intros m inp order o HT Hin. unfold run_mon in Hin.
  exact (dl_returns_by_timeout None (slow_by m inp) order o HT Hin).
Qed.
Print Assumptions C08_returns_by_timeout_whatever_the_monitor_takes.

Theorem C08_always_returns_whatever_the_callers_deadline :
  forall cl inp order, snd (run_dl cl inp order) <> [].
Proof. exact dl_some_outcome. Qed.
Print Assumptions C08_always_returns_whatever_the_callers_deadline.

(* a deadline beyond the configured timeout changes nothing of what the caller sees: the possible
   (success, return time) pairs are exactly those of a context without deadline (any concurrency,
   any schedule, nodes honouring the context or not) -- in particular the call does not wait for the
   caller's deadline *)
Theorem C08_deadline_beyond_timeout_changes_nothing :
  forall k inp order o,
    0 < i_timeout inp -> i_timeout inp < cl_deadline k ->
    (In o (snd (run_dl (Some k) inp order)) <-> In o (snd (run inp order))).
Proof. exact dl_beyond_timeout. Qed.
Print Assumptions C08_deadline_beyond_timeout_changes_nothing.

(* success under a deadline is never invented: some node's goroutine stores an accepted result by the
   timeout, and it got there by the caller's deadline (a node that ignores the context: got its
   token by then) *)
Theorem C08_success_under_deadline_needs_a_node :
  forall k inp order t,
    guard_ok (i_kind inp) (i_len inp) = true ->
    In (true, t) (snd (run_dl (Some k) inp order)) ->
    exists v m g, In v (views inp order) /\ v_done v = Some m /\ m <= i_timeout inp
                  /\ (v_verdict v = VOk \/ v_verdict v = VAny)
                  /\ (if cl_deaf k then v_start v else v_done v) = Some g /\ g <= cl_deadline k.
Proof.
  intros k inp order t Hg Ho.
  destruct (dl_success_needs_node (Some k) inp order t Hg Ho) as [v [m [Hv [Hd [Hm [Hvd Hst]]]]]].
  destruct (stores_not_no k v Hst) as [g [Hgate Hle]].
  exists v, m, g. repeat split; assumption.
Qed.
Print Assumptions C08_success_under_deadline_needs_a_node.

(* ... and a deadline shorter than the timeout takes no success away that a node delivers before it
   (process concurrency >= number of nodes): if node i, taken alone, ends with an accepted result at
   d < timeout and d is before the caller's deadline -- or the node ignores the context, whatever d --
   every possible outcome is a success returned no later than d, whatever the other nodes do.  The
   call does not report failure at the caller's deadline. *)
Theorem C08_success_via_any_node_under_deadline :
  forall cl inp order i nd d o,
    guard_ok (i_kind inp) (i_len inp) = true -> 0 < i_timeout inp ->
    valid_order (length (i_nodes inp)) order ->
    (Z.of_nat (length (i_nodes inp)) <= i_conc inp)%Z ->
    nth_error (i_nodes inp) i = Some nd ->
    node_verdict (i_kind inp) (n_client nd) (node_behs (i_kind inp) (i_len inp) (i_conc inp) nd) = VOk ->
    node_span (i_kind inp) nd (node_behs (i_kind inp) (i_len inp) (i_conc inp) nd) = Some d ->
    d < i_timeout inp ->
    match cl with
    | None => True
    | Some k => if cl_deaf k then 0 < cl_deadline k else d < cl_deadline k
    end ->
    In o (snd (run_dl cl inp order)) ->
    fst o = true /\ (0 < d -> snd o <= d).
Proof. exact dl_success_via. Qed.
Print Assumptions C08_success_via_any_node_under_deadline.

(* Non-vacuity and the observations seeded change C08-10 produces.  Aggregates, timeout 200 ms, one node
   hangs, one rejects at 50 ms; the caller's deadline is 2000 ms: failure at 200 ms, and P_b condemns
   a failure reported at 2000 ms.  One node accepting at 300 ms, timeout 500 ms, caller's deadline
   100 ms: a node that ignores the context makes the call succeed at 300 ms (failure at 100 ms is
   condemned); a node that honours it is cut by the caller at 100 ms and the call fails at 500 ms
   (success invented at 300 ms with the request recorded as cut is condemned; a success at 300 ms
   with the request left to be answered is not: the property does not oblige vouch to pass the
   caller's deadline on). *)
Example C08_example_callers_deadline :
  let rej := RError {| e_shape := ShFailures; e_entries := [Some PhReal] |} in
  let nd c b := {| n_client := c; n_default := b; n_over := []; n_ver1 := Some 0; n_ver2 := Some 0 |} in
  let inp1 := {| i_kind := KAggregates; i_len := 2; i_conc := 2; i_timeout := 200;
                 i_nodes := [ nd Prysm BHang; nd Lighthouse (BReply 50 rej) ] |} in
  let long := Some {| cl_deadline := 2000; cl_deaf := false |} in
  let seen1 ok ret cut := {| c_id := 0; c_body := CSubmit inp1 long [0; 1]%nat
        {| o_panic := false; o_success := ok; o_ret := ret; o_nodes := [[(0, [0; 1])]; [(0, [0; 1])]]; o_cut := cut |} |} in
  let inp2 := {| i_kind := KAggregates; i_len := 1; i_conc := 1; i_timeout := 500;
                 i_nodes := [ nd Teku (BReply 300 RAccept) ] |} in
  let short df := Some {| cl_deadline := 100; cl_deaf := df |} in
  let seen2 df ok ret cut := {| c_id := 0; c_body := CSubmit inp2 (short df) [0%nat]
        {| o_panic := false; o_success := ok; o_ret := ret; o_nodes := [[(0, [0])]]; o_cut := [cut] |} |} in
  snd (run_dl long inp1 [0; 1]%nat) = [(false, 200)]
  /\ agree (seen1 false 200 [[(2000, true)]; []]) = true /\ P_b (seen1 false 200 [[(2000, true)]; []]) = true
  /\ P_b (seen1 false 2000 [[(2000, true)]; []]) = false
  /\ snd (run_dl (short true) inp2 [0%nat]) = [(true, 300)]
  /\ agree (seen2 true true 300 []) = true /\ P_b (seen2 true true 300 []) = true
  /\ P_b (seen2 true false 100 []) = false
  /\ snd (run_dl (short false) inp2 [0%nat]) = [(false, 500)]
  /\ agree (seen2 false false 500 [(100, false)]) = true /\ P_b (seen2 false false 500 [(100, false)]) = true
  /\ agree (seen2 false false 100 [(100, false)]) = false /\ P_b (seen2 false false 100 [(100, false)]) = true
  /\ P_b (seen2 false true 300 [(100, false)]) = false
  /\ agree (seen2 false true 300 []) = false /\ P_b (seen2 false true 300 []) = true.
Proof. vm_compute. repeat split. Qed.
