(* C10 — proposer settings follow the documented precedence of the execution config.
   Property theorems only (proofs in Proofs/C10.v and Proofs/C10_Json.v).

   Model: Model/C10_ExecConfig.v.  [proposer_config_v2] / [proposer_config_v1] follow the code
   statement by statement (base options, first matching entry, proposer-level overwrite,
   reset, update / remove / add of relays); [resolve_v2] / [resolve_v1] are the documented
   precedence.  Relay maps are key-unique association lists ([wf_config2]: Go maps). *)
From Verif Require Import Lib.Base Model.C10_ExecConfig Model.C10_Service Proofs.C10 Proofs.C10_Json Proofs.C10_Service Check.C10 Proofs.C10_Check.
From Coq Require Import Permutation.

(* ------------------------------------------------------------------------------------------- *)
(* Version 2: the mutation order of the code IS the documented precedence, for every
   configuration, validator and fallback — relay for relay, field for field, in the same order
   when the maps are iterated in list order. *)
Theorem C10_v2_is_resolve :
  forall (c : config2) (v : validator) (fbfee fbgas : N),
    wf_config2 c -> proposer_config_v2 c v fbfee fbgas = resolve_v2 c v fbfee fbgas.
Proof. exact v2_is_resolve. Qed.
Print Assumptions C10_v2_is_resolve.

(* ... and whatever order Go iterates the relay maps in, the outcome is the same error or the same
   fee recipient with a permutation of the same relay list. *)
Theorem C10_v2_map_order_irrelevant :
  forall (c c' : config2) (v : validator) (fbfee fbgas : N),
    wf_config2 c -> config2_equiv c c' ->
    opt_cfg_equiv (proposer_config_v2 c v fbfee fbgas) (proposer_config_v2 c' v fbfee fbgas).
Proof. exact v2_order_irrelevant. Qed.
Print Assumptions C10_v2_map_order_irrelevant.

(* The precedence, said as a set of relays: with [p] the applicable proposer entry, the fee
   recipient is the first defined of proposer / top level / fallback; every relay address occurs
   at most once; the relays are exactly those inherited from the relay level (none after
   reset_relays) or named by the entry, minus the disabled ones; and each carries, per field,
   the first defined of proposer-relay, proposer, base-relay, top level, fallback
   ([resolve_relay], which is literally that chain). *)
Theorem C10_v2_relay_set :
  forall (c : config2) (p : proposer) (fbfee fbgas : N),
    NoDup (keys (e_relays c)) -> wf_proposer p ->
    let out := resolve_with c p fbfee fbgas in
    pc_fee out = first_some [p_fee p; e_fee c] fbfee /\
    NoDup (map rc_addr (pc_relays out)) /\
    forall r, In r (pc_relays out) <->
              ((In (rc_addr r) (keys (inherited c p)) \/ In (rc_addr r) (keys (p_relays p))) /\
               relay_disabled p (rc_addr r) = false /\
               r = resolve_relay c p fbfee fbgas (rc_addr r)).
Proof. exact resolve_with_relays. Qed.
Print Assumptions C10_v2_relay_set.

(* Only the FIRST matching proposer entry counts: the entries before it (none matching) and all
   entries after it (matching or not, valid or not) have no influence at all. *)
Theorem C10_first_match_only :
  forall (c : config2) (pre : list proposer) (p : proposer) (post : list proposer)
         (v : validator) (fbfee fbgas : N),
    wf_config2 c -> e_props c = pre ++ p :: post ->
    Forall (fun q => matches q v = MNo) pre -> matches p v = MYes ->
    proposer_config_v2 c v fbfee fbgas = Some (resolve_with c p fbfee fbgas).
Proof. exact v2_first_match_only. Qed.
Print Assumptions C10_first_match_only.

(* No entry matches: relay-level and top-level defaults over the fallback, nothing else. *)
Theorem C10_no_match_defaults :
  forall (c : config2) (v : validator) (fbfee fbgas : N),
    wf_config2 c -> Forall (fun q => matches q v = MNo) (e_props c) ->
    proposer_config_v2 c v fbfee fbgas = Some (resolve_with c empty_proposer fbfee fbgas).
Proof. exact v2_no_match. Qed.
Print Assumptions C10_no_match_defaults.

(* The lookup fails exactly when an entry with neither account nor non-zero key is reached
   before any match. *)
Theorem C10_v2_error_iff :
  forall (c : config2) (v : validator) (fbfee fbgas : N),
    wf_config2 c ->
    (proposer_config_v2 c v fbfee fbgas = None <->
     exists pre q post, e_props c = pre ++ q :: post /\
                        Forall (fun q => matches q v = MNo) pre /\ p_sel q = SelKey 0).
Proof. exact v2_error_iff. Qed.
Print Assumptions C10_v2_error_iff.

(* reset_relays discards everything the relay level says: the outcome does not depend on it. *)
Theorem C10_reset_discards_inherited :
  forall (c : config2) (p : proposer) (rs : list (N * base_relay)) (fbfee fbgas : N),
    p_reset p = true ->
    resolve_with (with_relays c rs) p fbfee fbgas = resolve_with c p fbfee fbgas.
Proof. exact reset_discards_inherited. Qed.
Print Assumptions C10_reset_discards_inherited.

(* a relay the entry disables is not used, inherited or not *)
Theorem C10_disabled_removed :
  forall (c : config2) (p : proposer) (fbfee fbgas a : N) (pr : prop_relay),
    aget (p_relays p) a = Some pr -> pr_disabled pr = true ->
    ~ In a (map rc_addr (pc_relays (resolve_with c p fbfee fbgas))).
Proof. exact disabled_removed. Qed.
Print Assumptions C10_disabled_removed.

(* a relay the entry names and does not disable is used, new or inherited *)
Theorem C10_named_relay_present :
  forall (c : config2) (p : proposer) (fbfee fbgas a : N) (pr : prop_relay),
    aget (p_relays p) a = Some pr -> pr_disabled pr = false ->
    In (resolve_relay c p fbfee fbgas a) (pc_relays (resolve_with c p fbfee fbgas)).
Proof. exact named_relay_present. Qed.
Print Assumptions C10_named_relay_present.

(* an inherited relay stays unless reset or disabled *)
Theorem C10_inherited_relay_present :
  forall (c : config2) (p : proposer) (fbfee fbgas a : N),
    In a (keys (e_relays c)) -> p_reset p = false -> relay_disabled p a = false ->
    In (resolve_relay c p fbfee fbgas a) (pc_relays (resolve_with c p fbfee fbgas)).
Proof. exact inherited_relay_present. Qed.
Print Assumptions C10_inherited_relay_present.

(* ------------------------------------------------------------------------------------------- *)
(* Legacy version: proposer entry by key, else default, else fallback; gas limit alone falls back
   field-wise; relays only when the builder is enabled. *)
Theorem C10_v1_lookup :
  forall (c : config1) (key fbfee fbgas : N),
    proposer_config_v1 c key fbfee fbgas = resolve_v1 c key fbfee fbgas.
Proof. exact v1_is_resolve. Qed.
Print Assumptions C10_v1_lookup.

Theorem C10_v1_lookup_cases :
  forall (c : config1) (key fbfee fbgas : N),
    let out := proposer_config_v1 c key fbfee fbgas in
    let of_entry (q : proposer1) :=
      pc_fee out = q_fee q /\
      forall r, In r (pc_relays out) <->
        exists b, q_builder q = Some b /\ b_enabled b = true /\ In (rc_addr r) (b_relays b) /\
                  r = {| rc_addr := rc_addr r; rc_pk := None; rc_fee := q_fee q;
                         rc_gas := if q_gas q =? 0 then fbgas else q_gas q;
                         rc_grace := b_grace b; rc_min := dec_zero |} in
    match aget (c1_props c) key with
    | Some (Some q) => of_entry q
    | Some None | None =>                      (* a null entry is no entry *)
        match c1_default c with
        | Some q => of_entry q
        | None => out = {| pc_fee := fbfee; pc_relays := [] |}
        end
    end.
Proof. exact v1_lookup_cases. Qed.
Print Assumptions C10_v1_lookup_cases.

(* the iteration order of the legacy proposer_config map is irrelevant *)
Theorem C10_v1_map_order_irrelevant :
  forall (c : config1) (ps' : list (N * option proposer1)) (key fbfee fbgas : N),
    wf_config1 c -> Permutation (c1_props c) ps' ->
    proposer_config_v1 {| c1_props := ps'; c1_default := c1_default c |} key fbfee fbgas =
    proposer_config_v1 c key fbfee fbgas.
Proof. exact v1_order_irrelevant. Qed.
Print Assumptions C10_v1_map_order_irrelevant.

(* docs/execlayer.md words the legacy precedence PER VALUE (entry, else default_config, else
   fallback: [resolve_v1_doc]).  Full statement:
     forall c key fbfee fbgas, proposer_config_v1 c key fbfee fbgas = resolve_v1_doc c key fbfee fbgas.
   The code selects one whole entry, so this holds only for lookups whose key has no entry (or a
   null one) or an entry with both a gas limit and a builder ... *)
Theorem C10_v1_fieldwise_partial :
  forall (c : config1) (key fbfee fbgas : N),
    v1_entry_complete c key = true ->
    proposer_config_v1 c key fbfee fbgas = resolve_v1_doc c key fbfee fbgas.
Proof. exact v1_fieldwise_partial. Qed.
Print Assumptions C10_v1_fieldwise_partial.

(* ... and fails on the document's own example (an entry with only a fee recipient does not get
   the builder of default_config).  Known finding C10-v1-entry-not-fieldwise. *)
Theorem C10_v1_fieldwise_refuted :
  exists (c : config1) (key fbfee fbgas : N),
    proposer_config_v1 c key fbfee fbgas <> resolve_v1_doc c key fbfee fbgas.
Proof. exact v1_fieldwise_refuted. Qed.
Print Assumptions C10_v1_fieldwise_refuted.

(* Either version behind the ExecutionConfigurator interface. *)
Theorem C10_lookup_is_resolve :
  forall (c : config) (v : validator) (fbfee fbgas : N),
    wf_config c -> lookup c v fbfee fbgas = resolve c v fbfee fbgas.
Proof. exact lookup_is_resolve. Qed.
Print Assumptions C10_lookup_is_resolve.

(* ------------------------------------------------------------------------------------------- *)
(* Version dispatch: the "version" field alone selects the format (absent / 0: legacy, 2: v2,
   anything else is refused), and an accepted document has the version of its format. *)
Theorem C10_version_dispatch :
  forall o,
    unmarshal (JObj o) =
      match field FVersion o with
      | JNull | JNum 0 => option_map CV1 (config1_of_json (JObj o))
      | JNum 2 => option_map CV2 (config2_of_json (JObj o))
      | _ => None
      end.
Proof. exact unmarshal_dispatch. Qed.
Print Assumptions C10_version_dispatch.

Theorem C10_accepted_version :
  forall j c, unmarshal j = Some c ->
    exists o, j = JObj o /\
      match c with
      | CV1 _ => field FVersion o = JNull \/ field FVersion o = JNum 0
      | CV2 _ => field FVersion o = JNum 2
      end.
Proof. exact unmarshal_version. Qed.
Print Assumptions C10_accepted_version.

(* ------------------------------------------------------------------------------------------- *)
(* Marshal / unmarshal.  Leaf strings (hex, decimal digits, shopspring decimals, patterns) are
   decoded by the harness with the project's own libraries; the model owns the structure
   (omitempty, null / "" = absent, maps, arrays) and the numeric steps (ms <-> ns, ether <-> wei).
   Every configuration unmarshal can produce is canonical ... *)
Theorem C10_unmarshal_canonical :
  forall j c, unmarshal j = Some c -> canon_config c.
Proof. exact unmarshal_canon. Qed.
Print Assumptions C10_unmarshal_canonical.

(* an accepted legacy document has one entry per public key (two spellings of one key are refused),
   so the hypothesis of the legacy theorems holds for whatever unmarshal returns *)
Theorem C10_unmarshal_v1_wf :
  forall j c, unmarshal j = Some (CV1 c) -> wf_config1 c.
Proof. exact unmarshal_v1_wf. Qed.
Print Assumptions C10_unmarshal_v1_wf.

(* ... every canonical configuration comes back from marshal -> unmarshal as itself ... *)
Theorem C10_marshal_unmarshal :
  forall c, canon_config c -> unmarshal (marshal c) = Some c.
Proof. exact marshal_unmarshal. Qed.
Print Assumptions C10_marshal_unmarshal.

(* ... so a configuration survives the round trip with the same meaning: every validator gets
   the same settings (or the same error) from the re-read configuration, with every fallback. *)
Theorem C10_roundtrip_meaning :
  forall j c, unmarshal j = Some c ->
    exists c', unmarshal (marshal c) = Some c' /\
               forall v fbfee fbgas, lookup c' v fbfee fbgas = lookup c v fbfee fbgas.
Proof. exact roundtrip_meaning. Qed.
Print Assumptions C10_roundtrip_meaning.

(* ------------------------------------------------------------------------------------------- *)
(* The block relay service in front of the configuration (Model/C10_Service.v): ONE instance,
   any history of refreshes (a document that is accepted, a document that is refused, nothing
   obtained) and of lookups (direct — proposal preparer, --proposer-config-check, and with a nil
   account UnblindBlock and ValidatorRegistrations — or through AuctionBlock).  Wherever a lookup
   stands in the history, its answer is what the documented precedence gives for ITS OWN public
   key and account under the last document accepted before it (the fallback fee recipient and no
   relays before the first one): nothing asked earlier, with or without the account, counts. *)
Theorem C10_service_history :
  forall (st : svc_state) (pre : list sop) (a : asker) (v : validator) (post : list sop) (fbfee fbgas : N),
    svc_wf st -> Forall op_wf pre ->
    nth (count_lookups pre) (svc_run st (pre ++ SLookup a v :: post) fbfee fbgas) OPanic
    = view a (match latest (rev pre) st with
              | None => OOk (fallback_cfg fbfee)
              | Some c => resolve c v fbfee fbgas
              end).
Proof. exact service_history. Qed.
Print Assumptions C10_service_history.

(* the whole list of answers of a history is the specification's, operation by operation *)
Theorem C10_service_run_is_spec :
  forall (ops : list sop) (fbfee fbgas : N),
    Forall op_wf ops ->
    svc_run None ops fbfee fbgas = svc_spec_run resolve [] None ops fbfee fbgas.
Proof. intros ops fbfee fbgas H. exact (svc_run_is_spec ops [] None fbfee fbgas I H). Qed.
Print Assumptions C10_service_run_is_spec.

(* Lookups leave no trace: two histories with the same refreshes answer a lookup alike, whatever
   was looked up before it, in whatever order, with or without account (no hypothesis at all). *)
Theorem C10_service_lookups_leave_no_trace :
  forall (st : svc_state) (pre pre' : list sop) (a : asker) (v : validator) (post post' : list sop) (fbfee fbgas : N),
    filter is_refresh pre = filter is_refresh pre' ->
    nth (count_lookups pre) (svc_run st (pre ++ SLookup a v :: post) fbfee fbgas) OPanic
    = nth (count_lookups pre') (svc_run st (pre' ++ SLookup a v :: post') fbfee fbgas) OPanic.
Proof. exact service_lookups_leave_no_trace. Qed.
Print Assumptions C10_service_lookups_leave_no_trace.

(* ------------------------------------------------------------------------------------------- *)
(* The check itself.  [P_b] (evaluated on what the implementation returned, never through the
   procedural model) being true means: a document without meaning was refused; otherwise every
   validator got the settings of the documented precedence (same error; or same fee recipient and
   the same relays up to order), --proposer-config-check shows those settings, and after
   marshal -> unmarshal every validator gets them again. *)
Theorem C10_P_b_sound : forall c : case, P_b c = true -> case_ok c.
Proof. exact P_b_sound. Qed.
Print Assumptions C10_P_b_sound.

(* [agree] tests the theorems' hypothesis on every case: where it holds, the parsed configuration
   has key-unique relay maps and the model's lookup is the documented precedence. *)
Theorem C10_agree_wf :
  forall (c : case) (cfg : config), agree c = true -> unmarshal (c_doc c) = Some cfg ->
    wf_config cfg /\
    forall v, lookup cfg v (c_fbfee c) (c_fbgas c) = resolve cfg v (c_fbfee c) (c_fbgas c).
Proof. exact agree_wf. Qed.
Print Assumptions C10_agree_wf.

(* ... and the history of the case: every document a refresh accepted has key-unique relay maps
   (the hypothesis of C10_service_history), and the observed answers are the specification's. *)
Theorem C10_agree_hist_wf :
  forall c : case, agree c = true ->
    Forall op_wf (c_ops c) /\
    Forall2 outcome_equiv (svc_spec_run resolve [] None (c_ops c) (c_fbfee c) (c_fbgas c)) (c_hist c).
Proof. exact agree_hist_wf. Qed.
Print Assumptions C10_agree_hist_wf.

(* ------------------------------------------------------------------------------------------- *)
(* Non-vacuity: the example the tests do not have — a proposer-level value, a relay-level default
   and a proposer-relay override on one relay, a second (ignored) matching entry, a disabled
   inherited relay and a new relay. *)
Definition ex_br (fee gas : option N) : base_relay :=
  {| br_pk := Some 7; br_fee := fee; br_gas := gas; br_grace := None; br_min := Some (5, 17%Z) |}.
Definition ex_pr (dis : bool) (gas : option N) : prop_relay :=
  {| pr_disabled := dis; pr_pk := None; pr_fee := None; pr_gas := gas; pr_grace := Some 2000000; pr_min := None |}.
Definition ex_cfg : config2 :=
  {| e_fee := Some 11; e_gas := None; e_grace := Some 1000000; e_min := None;
     e_relays := [(1, ex_br (Some 12) (Some 100)); (2, ex_br None None)];
     e_props := [ {| p_sel := SelAcct 5; p_fee := Some 13; p_gas := Some 200; p_grace := None; p_min := None;
                     p_reset := false; p_relays := [(1, ex_pr false (Some 300)); (2, ex_pr true None); (3, ex_pr false None)] |};
                  {| p_sel := SelKey 9; p_fee := Some 14; p_gas := None; p_grace := None; p_min := None;
                     p_reset := true; p_relays := [] |} ] |}.

Example C10_example_wf : wf_config2 ex_cfg.
Proof.
  split; [repeat constructor; cbn; intuition discriminate|].
  repeat constructor; cbn; intuition discriminate.
Qed.

Example C10_example_lattice :
  proposer_config_v2 ex_cfg {| v_key := 9; v_accts := [5] |} 99 30000000 =
    Some {| pc_fee := 13;
            pc_relays := [ {| rc_addr := 1; rc_pk := Some 7; rc_fee := 13; rc_gas := 300; rc_grace := 2000000; rc_min := (5, 17%Z) |};
                           {| rc_addr := 3; rc_pk := None; rc_fee := 13; rc_gas := 200; rc_grace := 2000000; rc_min := dec_zero |} ] |}.
Proof. reflexivity. Qed.

Example C10_example_second_entry_alone :
  proposer_config_v2 ex_cfg {| v_key := 9; v_accts := [] |} 99 30000000 = Some {| pc_fee := 14; pc_relays := [] |}.
Proof. reflexivity. Qed.

Example C10_example_error :
  proposer_config_v2 (with_props ex_cfg [empty_proposer]) {| v_key := 9; v_accts := [] |} 99 1 = None.
Proof. reflexivity. Qed.

(* a document, its configuration, and the round trip *)
Definition ex_doc : json :=
  JObj [(FVersion, JNum 2); (FFee, JStr (LAddr 11)); (FGrace, JStr (LNum 1)); (FMin, JStr (LDec (5, (-1)%Z)));
        (FRelays, JMap [(1, JObj [(FGas, JStr (LNum 100))]); (2, JObj [])]);
        (FProposers, JArr [JObj [(FProposer, JStr (LRegex 5)); (FReset, JBool true);
                                 (FRelays, JMap [(3, JObj [(FMin, JStr (LDec (123456789012345678, (-18)%Z)))])])]])].

Example C10_example_roundtrip :
  exists c, unmarshal ex_doc = Some (CV2 c) /\ wf_config2 c /\ e_min c = Some (5, 17%Z) /\
            unmarshal (marshal (CV2 c)) = Some (CV2 c) /\
            proposer_config_v2 c {| v_key := 1; v_accts := [5] |} 99 7 =
              Some {| pc_fee := 11; pc_relays := [ {| rc_addr := 3; rc_pk := None; rc_fee := 11; rc_gas := 7;
                                                      rc_grace := 1000000; rc_min := (123456789012345678, 0%Z) |} ] |}.
Proof.
  eexists. split; [reflexivity|]. split; [|split; [reflexivity|split; reflexivity]].
  split; [repeat constructor; cbn; intuition discriminate|].
  repeat constructor; cbn; intuition discriminate.
Qed.

Example C10_example_version_refused : unmarshal (JObj [(FVersion, JNum 1)]) = None.
Proof. reflexivity. Qed.

(* the same configuration with every relay map written in another order *)
Definition ex_cfg_permuted : config2 :=
  {| e_fee := Some 11; e_gas := None; e_grace := Some 1000000; e_min := None;
     e_relays := [(2, ex_br None None); (1, ex_br (Some 12) (Some 100))];
     e_props := [ {| p_sel := SelAcct 5; p_fee := Some 13; p_gas := Some 200; p_grace := None; p_min := None;
                     p_reset := false; p_relays := [(3, ex_pr false None); (2, ex_pr true None); (1, ex_pr false (Some 300))] |};
                  {| p_sel := SelKey 9; p_fee := Some 14; p_gas := None; p_grace := None; p_min := None;
                     p_reset := true; p_relays := [] |} ] |}.

Example C10_example_equiv : config2_equiv ex_cfg ex_cfg_permuted.
Proof.
  constructor; try reflexivity.
  - cbn. apply perm_swap.
  - cbn. constructor; [|constructor; [|constructor]].
    + constructor; try reflexivity. cbn.
      eapply perm_trans; [apply perm_swap|]. eapply perm_trans; [apply perm_skip, perm_swap|]. apply perm_swap.
    + constructor; reflexivity.
Qed.

Example C10_example_permuted_outcome :
  proposer_config_v2 ex_cfg_permuted {| v_key := 9; v_accts := [5] |} 99 30000000 =
    Some {| pc_fee := 13;
            pc_relays := [ {| rc_addr := 1; rc_pk := Some 7; rc_fee := 13; rc_gas := 300; rc_grace := 2000000; rc_min := (5, 17%Z) |};
                           {| rc_addr := 3; rc_pk := None; rc_fee := 13; rc_gas := 200; rc_grace := 2000000; rc_min := dec_zero |} ] |}.
Proof. reflexivity. Qed.

(* the legacy per-value reading and the code on the document's own example *)
Example C10_example_v1_fieldwise :
  let c := {| c1_props := [(1, Some {| q_fee := 11; q_gas := 0; q_builder := None |})];
              c1_default := Some {| q_fee := 12; q_gas := 0;
                                    q_builder := Some {| b_enabled := true; b_grace := 0; b_relays := [1; 2] |} |} |} in
  pc_relays (proposer_config_v1 c 1 99 30000000) = [] /\
  map rc_addr (pc_relays (resolve_v1_doc c 1 99 30000000)) = [1; 2] /\
  v1_entry_complete c 1 = false /\ v1_entry_complete c 2 = true.
Proof. repeat split. Qed.

(* a history on one service: no configuration yet; the document of C10_example_roundtrip arrives;
   the validator's key is asked WITHOUT its account (as when unblinding), then WITH it (pattern 5
   matches: reset_relays, relay 3 only), then without again, then through an auction; a refused
   document and an unavailable source change nothing; an empty version 2 document does. *)
Example C10_example_service_history :
  let v_with := {| v_key := 1; v_accts := [5] |} in
  let v_without := {| v_key := 1; v_accts := [] |} in
  let r3 := {| rc_addr := 3; rc_pk := None; rc_fee := 11; rc_gas := 7; rc_grace := 1000000; rc_min := (123456789012345678, 0%Z) |} in
  let r1 := {| rc_addr := 1; rc_pk := None; rc_fee := 11; rc_gas := 100; rc_grace := 1000000; rc_min := (5, 17%Z) |} in
  let r2 := {| rc_addr := 2; rc_pk := None; rc_fee := 11; rc_gas := 7; rc_grace := 1000000; rc_min := (5, 17%Z) |} in
  svc_run None [ SLookup ADirect v_with; SRefresh (FDoc ex_doc);
                 SLookup ADirect v_without; SLookup ADirect v_with; SLookup ADirect v_without; SLookup AAuction v_with;
                 SRefresh (FDoc (JObj [(FVersion, JNum 1)])); SRefresh FNothing; SLookup ADirect v_with;
                 SRefresh (FDoc (JObj [(FVersion, JNum 2)])); SLookup ADirect v_with; SLookup AAuction v_with ] 99 7
  = [ OOk (fallback_cfg 99);
      OOk {| pc_fee := 11; pc_relays := [r1; r2] |}; OOk {| pc_fee := 11; pc_relays := [r3] |};
      OOk {| pc_fee := 11; pc_relays := [r1; r2] |}; OOk {| pc_fee := 11; pc_relays := [r3] |};
      OOk {| pc_fee := 11; pc_relays := [r3] |};
      OOk (fallback_cfg 99); OOk (fallback_cfg 0) ].
Proof. reflexivity. Qed.
