(* C06 composed with the properties whose models make the other kinds of signing requests:
   (a) C11 validator registrations, (c) C15 sync committee messages, selection proofs and
   contribution-and-proofs, (b) C14 slot-selection signatures (PARTIAL: C14's model has no signing
   request).  In the style of C06_Compose.v (C01's attestation requests).  Theorems only; the lemmas
   are in Proofs/Compose_C06more.v and Proofs/Compose_C06_C14.v; notes/compose_C06more.md says in
   words what each theorem states and which hypothesis is which property's conclusion.

   Reading guide.  [run H sig zero_sig (spec_provider H c) (honest H sig sign) (spec_service c) q] is
   the signer model (C06) handling request [q] on chain [c] with accounts that sign what their
   interfaces document; [expected a r] = [sign (a_key a) r], or [zero_sig] when account [a] cannot
   sign.  [R] = Model/C11_Registrations.v, [RP] = Proofs/C11.v, [S] = Model/C15_Sync.v, [SP]/[SF] =
   Proofs/C15.v / C15_Fire.v, [G] = Model/C14_Subscriptions.v, [GS] = Model/C14_Spec.v.
   The emitting models name a signature by the request that produced it (C11 [R.sig], C15 [S.sg]);
   [reg_sig_value], [sg_value], [cp_value] give such a tag the value the signer model returns.
   [acct] maps the emitting model's name of an account (C11: account id, C14/C15: validator index) to
   the account object the signer sees; it is arbitrary everywhere. *)
From Coq Require Import List NArith Bool.
From Verif Require Import Lib.Base Lib.Ssz Model.C06_Signer Proofs.C06 Proofs.C06_Spec.
From Verif Require Import Proofs.Compose_C06more Proofs.Compose_C06_C14.
From Verif Require Properties.C06 Properties.C11 Properties.C14 Properties.C15.
Import ListNotations.
Local Open Scope N_scope.

(* ============================================================================================ *)
(* (a) C11 + C06: validator registrations.                                                      *)

(* Timestamps.  C11 stamps a registration with a whole number of seconds ([R.r_now]: the code rounds
   time.Now() to the second before it builds the registration).  The signer is handed the Go value
   ([go_reg], inside [reg_request]): fee recipient, gas limit, public key and a time.Time whose
   instant is that many seconds EXACTLY (gr_time_ns = stamp * 10^9, no sub-second part), and signs
   the wire message, whose timestamp is uint64(Timestamp.Unix()).  The equations "the signature is
   over the registration with this timestamp" below therefore carry the explicit hypothesis that the
   timestamp fits a uint64, [... < 18446744073709551616] (= 2^64 = [uint64_bound]).  It is true of
   every real clock (2^64 s is about 5.8e11 years; a Go time.Time cannot represent such an instant)
   and is a hypothesis on the clock alone: every timestamp met below is the [R.r_now] of a round of
   the history (first theorem; Proofs/Compose_C06more.v [request_stamps_fit], [sent_stamps_fit],
   [cached_stamps_fit] for [clock_fits ops]).  Everything else -- who signs, that the account can
   sign, which message the tag names -- holds without it; without it the message signed is the same
   with the timestamp taken modulo 2^64 ([reg_request_signed_wrapped]). *)

(* Every signing request the registration model ever makes (any history of rounds, forwardings,
   preparations) was made in a round [r], for a relay entry [rc] of the resolved settings of a
   validator [v] of that round, by that validator's account; handed to the signer as
   ReqRegistration, whenever it is answered the answer is ONE signature, by that account's key, over
   the builder specification's signing root -- DOMAIN_APPLICATION_BUILDER, genesis fork version,
   zero genesis validators root -- of the registration (rc's fee recipient, rc's gas limit, the
   round's time, v's public key); the request carries the Go value whose instant is the round's
   time in seconds exactly ([reg_request_instant]). *)
Theorem C06_registration_requests_get_builder_signatures :
  forall (ops : list R.op) (q : R.sigreq),
    In q (RP.all_reqs (snd (R.run R.init ops))) ->
    exists k r v res rc,
      nth_error ops k = Some (R.ORound r) /\ In v (R.r_vals r) /\ R.v_res v = Some res /\ In rc (R.rs_relays res)
      /\ R.q_acct q = R.v_acct v
      /\ reg_msg (R.q_content q) (R.q_stamp q) = Registration (R.rc_fee rc) (R.rc_gas rc) (R.r_now r) (R.v_pub v)
      /\ forall (H : N -> N -> N) (sig : Type) (zero_sig : sig) (sign : N -> N -> sig) (c : chain)
                (acct : N -> account) (sigs : list sig),
           run H sig zero_sig (spec_provider H c) (honest H sig sign) (spec_service c) (reg_request acct q) = Ok sigs ->
           (R.r_now r < 18446744073709551616 ->
            sigs = [sign (a_key (acct (R.v_acct v)))
                         (compute_signing_root H
                            (htr_registration H (Registration (R.rc_fee rc) (R.rc_gas rc) (R.r_now r) (R.v_pub v)))
                            (compute_domain H DOMAIN_APPLICATION_BUILDER (ch_genesis_version c) 0))])
           /\ a_fail (acct (R.v_acct v)) = false.
Proof. exact registration_requests_signed. Qed.
Print Assumptions C06_registration_requests_get_builder_signatures.

(* Every registration that reaches relay [a] in a round (C11_registration_content_and_signer, one
   account per key): its message is (fee recipient, gas limit) of an entry at [a] of its validator's
   settings, its own timestamp, the validator's key; a successful signing request [q] for EXACTLY
   this message was made by the validator's account in this round or an earlier one; and the
   signature attached ([R.sr_sig sr], valued by [reg_sig_value]) is what the signer answers to [q]:
   that account's signature over the builder signing root of exactly the message submitted --
   with the timestamp it is submitted with, not the zeroed one that keys the cache. *)
Theorem C06_relay_registrations_are_signed_over_the_submitted_message :
  forall (acct_of : N -> N) (ops : list R.op),
    RP.accts_ok acct_of ops ->
    forall i r err reqs relays nodes,
      nth_error ops i = Some (R.ORound r) ->
      nth_error (snd (R.run R.init ops)) i = Some (R.OutRound err reqs relays nodes) ->
      forall a regs sr, In (a, regs) relays -> In sr regs ->
        exists v res rc q,
          In v (R.r_vals r) /\ R.v_res v = Some res /\ In rc (R.rs_relays res) /\ R.rc_addr rc = a
          /\ sreg_msg sr = Registration (R.rc_fee rc) (R.rc_gas rc) (R.sr_stamp sr) (R.v_pub v)
          /\ In q (RP.all_reqs (firstn (S i) (snd (R.run R.init ops)))) /\ R.q_ok q = true
          /\ R.q_acct q = R.v_acct v /\ reg_msg (R.q_content q) (R.q_stamp q) = sreg_msg sr
          /\ forall (H : N -> N -> N) (sig : Type) (zero_sig : sig) (sign : N -> N -> sig) (c : chain)
                    (acct : N -> account) (sigs : list sig),
               run H sig zero_sig (spec_provider H c) (honest H sig sign) (spec_service c) (reg_request acct q) = Ok sigs ->
               (R.sr_stamp sr < 18446744073709551616 -> sigs = [reg_sig_value H sig sign c acct (R.sr_sig sr)])
               /\ reg_sig_value H sig sign c acct (R.sr_sig sr)
                  = sign (a_key (acct (R.v_acct v)))
                         (compute_signing_root H
                            (htr_registration H (Registration (R.rc_fee rc) (R.rc_gas rc) (R.sr_stamp sr) (R.v_pub v)))
                            (compute_domain H DOMAIN_APPLICATION_BUILDER (ch_genesis_version c) 0))
               /\ a_fail (acct (R.v_acct v)) = false.
Proof. exact relay_registrations_configured_and_signed. Qed.
Print Assumptions C06_relay_registrations_are_signed_over_the_submitted_message.

(* The same without any hypothesis on the accounts, and for the secondary beacon nodes as well:
   whatever a round sends to a relay or to a node is the product [RP.reg_of_req q] of a successful
   signing request [q] of the history so far, and the signature it carries is the signer's answer to
   [q], over the builder signing root of the message sent. *)
Theorem C06_sent_registrations_carry_the_signature_of_their_own_message :
  forall (ops : list R.op) i r err reqs relays nodes,
    nth_error ops i = Some (R.ORound r) ->
    nth_error (snd (R.run R.init ops)) i = Some (R.OutRound err reqs relays nodes) ->
    forall sr, round_sends relays nodes sr ->
      exists q,
        In q (RP.all_reqs (firstn (S i) (snd (R.run R.init ops)))) /\ R.q_ok q = true
        /\ sr = RP.reg_of_req q
        /\ forall (H : N -> N -> N) (sig : Type) (zero_sig : sig) (sign : N -> N -> sig) (c : chain)
                  (acct : N -> account) (sigs : list sig),
             run H sig zero_sig (spec_provider H c) (honest H sig sign) (spec_service c) (reg_request acct q) = Ok sigs ->
             (R.sr_stamp sr < 18446744073709551616 -> sigs = [reg_sig_value H sig sign c acct (R.sr_sig sr)])
             /\ reg_sig_value H sig sign c acct (R.sr_sig sr)
                = sign (a_key (acct (R.q_acct q)))
                       (compute_signing_root H (htr_registration H (sreg_msg sr))
                          (compute_domain H DOMAIN_APPLICATION_BUILDER (ch_genesis_version c) 0))
             /\ a_fail (acct (R.q_acct q)) = false.
Proof. exact sent_registrations_signed. Qed.
Print Assumptions C06_sent_registrations_carry_the_signature_of_their_own_message.

(* ... and for the cache: after any history, every entry of signedValidatorRegistrations is stored
   under its own content and is the product of a successful signing request of the history, its
   signature being the signer's answer to that request over the cached message. *)
Theorem C06_cached_registrations_carry_the_signature_of_their_own_message :
  forall (ops : list R.op) ct sr,
    In (ct, sr) (R.signed (fst (R.run R.init ops))) ->
    exists q,
      In q (RP.all_reqs (snd (R.run R.init ops))) /\ R.q_ok q = true
      /\ sr = RP.reg_of_req q /\ ct = R.sr_content sr
      /\ forall (H : N -> N -> N) (sig : Type) (zero_sig : sig) (sign : N -> N -> sig) (c : chain)
                (acct : N -> account) (sigs : list sig),
           run H sig zero_sig (spec_provider H c) (honest H sig sign) (spec_service c) (reg_request acct q) = Ok sigs ->
           (R.sr_stamp sr < 18446744073709551616 -> sigs = [reg_sig_value H sig sign c acct (R.sr_sig sr)])
           /\ reg_sig_value H sig sign c acct (R.sr_sig sr)
              = sign (a_key (acct (R.q_acct q)))
                     (compute_signing_root H (htr_registration H (sreg_msg sr))
                        (compute_domain H DOMAIN_APPLICATION_BUILDER (ch_genesis_version c) 0))
           /\ a_fail (acct (R.q_acct q)) = false.
Proof. exact cached_registrations_signed. Qed.
Print Assumptions C06_cached_registrations_carry_the_signature_of_their_own_message.

(* Non-vacuity: the history of Properties/C11.v (validator 200 / account 100, A -> B -> A) on the toy
   chain of Properties/C06.v: four signing requests; the first is answered by account 100's
   signature over the builder root of (fee 1, gas 30, time 10, key 200), and the registration
   relay 1 receives first in round 0 is that message with that signature's tag. *)
Example C06_registration_example :
  let outs := snd (R.run R.init Properties.C11.ex_ops) in
  let acct := Properties.C06.wallet_acc in
  length (RP.all_reqs outs) = 4%nat
  /\ match RP.all_reqs outs with
     | q :: _ =>
         run Properties.C06.toy_H (N * N) (0, 0) (spec_provider Properties.C06.toy_H Properties.C06.toy_chain)
             (honest Properties.C06.toy_H (N * N) Properties.C06.toy_sign) (spec_service Properties.C06.toy_chain)
             (reg_request acct q)
         = Ok [(100, spec_signing_root Properties.C06.toy_H Properties.C06.toy_chain (MRegistration (Registration 1 30 10 200)))]
     | [] => False
     end
  /\ match outs with
     | R.OutRound _ _ ((1, sr :: _) :: _) _ :: _ =>
         sreg_msg sr = Registration 1 30 10 200
         /\ reg_sig_value Properties.C06.toy_H (N * N) Properties.C06.toy_sign Properties.C06.toy_chain acct (R.sr_sig sr)
            = (100, spec_signing_root Properties.C06.toy_H Properties.C06.toy_chain (MRegistration (Registration 1 30 10 200)))
     | _ => False
     end.
Proof. vm_compute. repeat split; reflexivity. Qed.

(* ============================================================================================ *)
(* (c) C15 + C06: sync committee messages, selection proofs, contribution-and-proofs.           *)
(* [S.fire p mem hasacct f] is the chain prepare job -> message job -> aggregation job of the    *)
(* slot [S.f_slot f] for the members [mem] and the account predicate [hasacct].                  *)

(* The request of a fired slot of a call of scheduleSyncCommitteeMessages is the request of
   [S.fire] for that call's members and accounts, and exists only when the slot has its prepare job
   (whose slot C15_schedule_jobs places in the period's window); its signers are exactly the
   validators with a duty and an account held. *)
Theorem C06_fired_slot_is_a_scheduled_slot :
  forall p i f,
    (S.fire_scheduled p i f = S.fire p (S.members i) (S.has_account i) f
     /\ In (S.JPrepare, S.f_slot f, S.prepare_time p (S.f_slot f)) (S.so_jobs (S.schedule p i))
     /\ forall v, In v (S.signers (S.members i) (S.has_account i)) <-> SF.has_duty i v /\ SF.holds_account i v)
    \/ S.fire_scheduled p i f = S.no_fire.
Proof.
  intros p i f. destruct (fire_scheduled_cases p i f) as [[H1 H2]|H]; [left|right; exact H].
  split; [exact H1|]. split; [exact H2 | apply scheduled_signers].
Qed.
Print Assumptions C06_fired_slot_is_a_scheduled_slot.

(* SignSyncCommitteeRoots.  Whenever the message job signs (the model's call [accts, e, rr]): the
   accounts are those of the members with an account, none nil; the epoch is the fired slot's, the
   root the head root served in that slot; handed to the signer on a chain with the same
   SLOTS_PER_EPOCH, an answer is one signature per such member, in order: its account's signature
   over compute_signing_root(root, get_domain(DOMAIN_SYNC_COMMITTEE, epoch of the slot)) -- altair
   get_sync_committee_message -- or the zero signature for an account that cannot sign.  When the
   scripted signer of C15 and the accounts of C06 fail for the same validators ([zero_agrees]), these
   are position by position the values of the model's tags [S.root_sig], and every message handed
   to the submitter (C15_message_sound: slot s', root r', validator v, tag x) carries the signer's
   answer at v's position: v's signature for the epoch of the message's OWN slot over its OWN root. *)
Theorem C06_sync_message_requests_get_spec_signatures :
  forall p mem hasacct f accts e rr,
    S.o_root_call (S.fire p mem hasacct f) = Some (accts, e, rr) ->
    let vs := S.signers mem hasacct in
    accts = map Some vs /\ e = S.f_slot f / S.spe p /\ S.f_root f = Some rr
    /\ (forall v, In v vs <-> In v (map fst mem) /\ hasacct v = true)
    /\ forall (H : N -> N -> N) (sig : Type) (zero_sig : sig) (sign : N -> N -> sig) (c : chain)
              (acct : N -> account) (sigs : list sig),
         ch_spe c = S.spe p ->
         run H sig zero_sig (spec_provider H c) (honest H sig sign) (spec_service c)
             (ReqSyncRoots (map acct vs) e rr) = Ok sigs ->
         sigs = map (fun v => expected sig zero_sig sign (acct v)
                                (compute_signing_root H rr
                                   (get_domain H c DOMAIN_SYNC_COMMITTEE (compute_epoch_at_slot c (S.f_slot f))))) vs
         /\ (zero_agrees acct (S.f_root_zero f) vs ->
             map Some sigs = map (fun v => sg_value H sig zero_sig sign c acct (S.root_sig p f rr v)) vs)
         /\ (zero_agrees acct (S.f_root_zero f) vs ->
             forall s' r' v x, In (s', r', v, x) (S.opt_list (S.o_submitted (S.fire p mem hasacct f))) ->
               exists k s, nth_error vs k = Some v /\ nth_error sigs k = Some s
                 /\ sg_value H sig zero_sig sign c acct x = Some s
                 /\ s = sign (a_key (acct v))
                          (compute_signing_root H r'
                             (get_domain H c DOMAIN_SYNC_COMMITTEE (compute_epoch_at_slot c s')))).
Proof. exact fire_sync_messages_signed. Qed.
Print Assumptions C06_sync_message_requests_get_spec_signatures.

(* SignSyncCommitteeSelections.  For the pairs (validator, subcommittee) of the prepare job's call
   in ANY order and multiplicity ([pairs] drawn from the model's call: the model records it sorted,
   the code makes it in duty order): each is a member with an account and the subcommittee
   position / (size / subnets) of one of its positions (C15_subcommittee_and_selection_spec), and an
   answer of the signer is, in order, each account's signature over
   compute_signing_root(SyncAggregatorSelectionData(fired slot, subcommittee),
   get_domain(DOMAIN_SYNC_COMMITTEE_SELECTION_PROOF, epoch of the fired slot)) -- altair
   get_sync_committee_selection_proof -- i.e. the values of the model's tags [S.sel_sig]. *)
Theorem C06_sync_selection_requests_get_spec_signatures :
  forall p mem hasacct f (pairs : list (N * N)),
    (forall x, In x pairs -> In x (S.opt_list (S.o_sel_call (S.fire p mem hasacct f)))) ->
    (forall x, In x pairs ->
       exists ps pos, In (fst x, ps) mem /\ hasacct (fst x) = true /\ In pos ps /\ snd x = SF.spec_subcommittee p pos)
    /\ forall (H : N -> N -> N) (sig : Type) (zero_sig : sig) (sign : N -> N -> sig) (c : chain)
              (acct : N -> account) (sigs : list sig),
         run H sig zero_sig (spec_provider H c) (honest H sig sign) (spec_service c)
             (ReqSyncSelections (map (fun x => acct (fst x)) pairs) (S.f_slot f) (map snd pairs)) = Ok sigs ->
         sigs = map (fun x => expected sig zero_sig sign (acct (fst x))
                                (compute_signing_root H (htr_sync_selection_data H (S.f_slot f) (snd x))
                                   (get_domain H c DOMAIN_SYNC_COMMITTEE_SELECTION_PROOF
                                               (compute_epoch_at_slot c (S.f_slot f))))) pairs
         /\ (zero_agrees acct (S.f_sel_zero f) (map fst pairs) ->
             map Some sigs = map (fun x => sg_value H sig zero_sig sign c acct (S.sel_sig f x)) pairs).
Proof. exact fire_sync_selections_signed. Qed.
Print Assumptions C06_sync_selection_requests_get_spec_signatures.

(* SignContributionAndProofs.  For contributions [ks] of the aggregation job's payload in any order
   (C15_contribution_sound: each by a selected aggregator, for the fired slot and that slot's head
   root, with the selection proof the signer gave), made into altair.ContributionAndProof with
   whatever aggregation bits and aggregate signature the node served ([bits], [nsig]) and any byte
   encoding of signatures ([enc]): an answer of the signer is, in order, each aggregator's
   signature over compute_signing_root(ContributionAndProof, get_domain(
   DOMAIN_CONTRIBUTION_AND_PROOF, epoch of the FIRED slot)) -- altair
   get_contribution_and_proof_signature --, and the selection proof inside each message is the
   signer's answer to the prepare job's request for (that aggregator, the fired slot, the
   contribution's subcommittee). *)
Theorem C06_contribution_requests_get_spec_signatures :
  forall p mem hasacct f (ks : list S.contrib),
    (forall k, In k ks -> In k (S.opt_list (S.o_contribs (S.fire p mem hasacct f)))) ->
    (forall k, In k ks ->
       In (S.cp_agg k, S.cp_subc k) (S.aggregators p mem hasacct f)
       /\ S.cp_slot k = S.f_slot f /\ S.f_root f = Some (S.cp_root k)
       /\ S.cp_proof k = S.sel_sig f (S.cp_agg k, S.cp_subc k))
    /\ forall (H : N -> N -> N) (sig : Type) (zero_sig : sig) (sign : N -> N -> sig) (c : chain)
              (acct : N -> account) (bits nsig : S.contrib -> N) (enc : sig -> N) (sigs : list sig),
         run H sig zero_sig (spec_provider H c) (honest H sig sign) (spec_service c)
             (cp_request H sig zero_sig sign c acct bits nsig enc ks) = Ok sigs ->
         sigs = map (fun k => expected sig zero_sig sign (acct (S.cp_agg k))
                                (compute_signing_root H
                                   (htr_contribution_and_proof H (cp06 H sig zero_sig sign c acct bits nsig enc k))
                                   (get_domain H c DOMAIN_CONTRIBUTION_AND_PROOF
                                               (compute_epoch_at_slot c (S.f_slot f))))) ks
         /\ forall k, In k ks ->
              (In (S.cp_agg k) (S.f_sel_zero f) <-> a_fail (acct (S.cp_agg k)) = true) ->
              cp_selection_proof (cp06 H sig zero_sig sign c acct bits nsig enc k)
              = enc (expected sig zero_sig sign (acct (S.cp_agg k))
                       (compute_signing_root H (htr_sync_selection_data H (S.f_slot f) (S.cp_subc k))
                          (get_domain H c DOMAIN_SYNC_COMMITTEE_SELECTION_PROOF
                                      (compute_epoch_at_slot c (S.f_slot f))))).
Proof. exact fire_contributions_signed. Qed.
Print Assumptions C06_contribution_requests_get_spec_signatures.

(* The two preconditions of C06's signer for a batch of contributions are C15's conclusions: the
   aggregation job's batch is never empty (no index panic) and all of ONE slot, the fired one (no
   refusal "several epochs", the repair of C06) -- so with accounts of one family per kind
   (C06_batch_complete) the signer answers, with every item's signature. *)
Theorem C06_contribution_batches_are_accepted :
  forall p mem hasacct f (ks : list S.contrib),
    S.o_contribs (S.fire p mem hasacct f) = Some ks ->
    ks <> [] /\ (forall k, In k ks -> S.cp_slot k = S.f_slot f)
    /\ forall (H : N -> N -> N) (sig : Type) (zero_sig : sig) (sign : N -> N -> sig) (c : chain)
              (acct : N -> account) (bits nsig : S.contrib -> N) (enc : sig -> N),
         let items := combine (map (fun k => acct (S.cp_agg k)) ks)
                              (map (htr_contribution_and_proof H)
                                   (map (cp06 H sig zero_sig sign c acct bits nsig enc) ks)) in
         uniform (filter not_dist items) -> uniform (filter is_dist items) ->
         run H sig zero_sig (spec_provider H c) (honest H sig sign) (spec_service c)
             (cp_request H sig zero_sig sign c acct bits nsig enc ks)
         = Ok (map (cp_value H sig zero_sig sign c acct bits nsig enc) ks).
Proof. exact fire_contribution_batch_accepted. Qed.
Print Assumptions C06_contribution_batches_are_accepted.

(* Aggregate called on its own ([S.aggregate a], any duty, accounts possibly missing): its batch is
   not empty, all of the duty's slot, over the cached or head root, by aggregators whose account is
   held; the signer's answer is each aggregator's signature with the fork of the DUTY slot's epoch,
   and the batch is accepted for accounts of one family per kind. *)
Theorem C06_direct_aggregate_contributions_get_spec_signatures :
  forall (a : S.agg_in) (ks : list S.contrib),
    S.aggregate a = Some ks ->
    ks <> [] /\ (forall k, In k ks -> S.cp_slot k = S.a_slot a /\ SF.agg_root a = Some (S.cp_root k)
                                      /\ In (S.cp_agg k) (S.a_accts a))
    /\ forall (H : N -> N -> N) (sig : Type) (zero_sig : sig) (sign : N -> N -> sig) (c : chain)
              (acct : N -> account) (bits nsig : S.contrib -> N) (enc : sig -> N),
         (forall sigs,
            run H sig zero_sig (spec_provider H c) (honest H sig sign) (spec_service c)
                (cp_request H sig zero_sig sign c acct bits nsig enc ks) = Ok sigs ->
            sigs = map (fun k => expected sig zero_sig sign (acct (S.cp_agg k))
                                   (compute_signing_root H
                                      (htr_contribution_and_proof H (cp06 H sig zero_sig sign c acct bits nsig enc k))
                                      (get_domain H c DOMAIN_CONTRIBUTION_AND_PROOF
                                                  (compute_epoch_at_slot c (S.a_slot a))))) ks)
         /\ (let items := combine (map (fun k => acct (S.cp_agg k)) ks)
                                  (map (htr_contribution_and_proof H)
                                       (map (cp06 H sig zero_sig sign c acct bits nsig enc) ks)) in
             uniform (filter not_dist items) -> uniform (filter is_dist items) ->
             run H sig zero_sig (spec_provider H c) (honest H sig sign) (spec_service c)
                 (cp_request H sig zero_sig sign c acct bits nsig enc ks)
             = Ok (map (cp_value H sig zero_sig sign c acct bits nsig enc) ks)).
Proof. exact aggregate_contributions_signed. Qed.
Print Assumptions C06_direct_aggregate_contributions_get_spec_signatures.

(* Non-vacuity: the call and the fired slot 6 of Properties/C15.v (members 5, 6, 7; 6 without
   account; 5 aggregates subcommittee 1) on a chain with 4 slots per epoch and a fork at epoch 1.
   The message job signs for [5; 7] at epoch 1 over root 12: the signer's answer is the value of the
   two tags submitted; the prepare job's selections and the aggregation job's one contribution are
   answered as well, the latter carrying the former's answer as selection proof. *)
Definition ex_chain4 : chain := Chain 1 [(1, 2)] 99 4.
Definition ex_acct (v : N) : account := if v =? 7 then Properties.C06.dirk_dist_acc v else Properties.C06.wallet_acc v.

Example C06_sync_example :
  let H := Properties.C06.toy_H in
  let sign := Properties.C06.toy_sign in
  let out := S.fire_scheduled Properties.C15.ex_p Properties.C15.ex_i Properties.C15.ex_f in
  let RUN := run H (N * N) (0, 0) (spec_provider H ex_chain4) (honest H (N * N) sign) (spec_service ex_chain4) in
  let enc := fun s : N * N => fst s * 1000 + snd s mod 1000 in
  ch_spe ex_chain4 = S.spe Properties.C15.ex_p
  /\ S.o_root_call out = Some ([Some 5; Some 7], 1, 12)
  /\ zero_agrees ex_acct (S.f_root_zero Properties.C15.ex_f) [5; 7]
  /\ RUN (ReqSyncRoots (map ex_acct [5; 7]) 1 12)
     = Ok [(5, spec_signing_root H ex_chain4 (MSyncMessage 1 12)); (7, spec_signing_root H ex_chain4 (MSyncMessage 1 12))]
  /\ map (fun m => sg_value H (N * N) (0, 0) sign ex_chain4 ex_acct (snd m)) (S.opt_list (S.o_submitted out))
     = [Some (5, spec_signing_root H ex_chain4 (MSyncMessage 1 12)); Some (7, spec_signing_root H ex_chain4 (MSyncMessage 1 12))]
  /\ version_at ex_chain4 1 = 2
  /\ match S.o_sel_call out with
     | Some pairs =>
         pairs = [(5, 1); (7, 3)]
         /\ RUN (ReqSyncSelections (map (fun x => ex_acct (fst x)) pairs) 6 (map snd pairs))
            = Ok [(5, spec_signing_root H ex_chain4 (MSyncSelection 6 1)); (7, spec_signing_root H ex_chain4 (MSyncSelection 6 3))]
     | None => False
     end
  /\ match S.o_contribs out with
     | Some ks =>
         map (fun k => (S.cp_agg k, S.cp_slot k, S.cp_subc k, S.cp_root k)) ks = [(5, 6, 1, 12)]
         /\ RUN (cp_request H (N * N) (0, 0) sign ex_chain4 ex_acct (fun _ => 255) (fun _ => 77) enc ks)
            = Ok (map (cp_value H (N * N) (0, 0) sign ex_chain4 ex_acct (fun _ => 255) (fun _ => 77) enc) ks)
         /\ map (fun k => cp_selection_proof (cp06 H (N * N) (0, 0) sign ex_chain4 ex_acct (fun _ => 255) (fun _ => 77) enc k)) ks
            = [enc (5, spec_signing_root H ex_chain4 (MSyncSelection 6 1))]
     | None => False
     end.
Proof.
  cbv zeta. split; [reflexivity|]. split; [vm_compute; reflexivity|].
  split; [intros v [<-|[<-|[]]]; vm_compute; (split; [intros [] | discriminate])|].
  vm_compute. repeat split; reflexivity.
Qed.

(* ============================================================================================ *)
(* (b) C14 + C06: slot-selection signatures -- PARTIAL.                                         *)
(* Full statement wanted:  the slot signature requested for a duty is get_slot_signature of the   *)
(* duty's slot at the epoch of that slot.   Model/C14_Subscriptions.v has no signing request: the  *)
(* signature of a duty is an input ([G.d_sig]: an identifier, [G.d_hash]: its digest), the call     *)
(* SignSlotSelections appears only as the oracle [sign_ok slot].  What is proved: C14 keeps the     *)
(* triple (validator, slot, signature identifier) of a duty together up to the stored subscription   *)
(* and the aggregation job, so IF the identifiers denote ([sigv]) the signer's answers for (that     *)
(* validator's account, that duty's slot) -- hypothesis [ids_are_signer_answers], which no theorem   *)
(* of C14 delivers --, every stored signature and every new job's selection proof is                 *)
(* get_slot_signature of ITS validator for ITS slot with the fork of ITS slot's epoch.               *)

Theorem C06_stored_subscriptions_carry_slot_signature_partial :
  forall (H : N -> N -> N) (sig : Type) (zero_sig : sig) (sign : N -> N -> sig) (c : chain)
         (acct : N -> account) (sigv : N -> sig) target sign_ok duties,
    ids_are_signer_answers H sig zero_sig sign c acct sigv sign_ok duties ->
    forall e, In e (G.subscription_info target sign_ok duties) ->
      sigv (G.s_sig e)
      = expected sig zero_sig sign (acct (G.s_val e))
          (compute_signing_root H (u64_chunk (G.s_slot e))
             (get_domain H c DOMAIN_SELECTION_PROOF (compute_epoch_at_slot c (G.s_slot e)))).
Proof. exact stored_subscriptions_carry_slot_signature. Qed.
Print Assumptions C06_stored_subscriptions_carry_slot_signature_partial.

Theorem C06_new_aggregation_jobs_carry_slot_signature_partial :
  forall (H : N -> N -> N) (sig : Type) (zero_sig : sig) (sign : N -> N -> sig) (c : chain)
         (acct : N -> account) (sigv : N -> sig) target sign_ok duties pr cur acct_ok jobs atts,
    ids_are_signer_answers H sig zero_sig sign c acct sigv sign_ok duties ->
    NoDup (map GS.jkey jobs) ->
    forall j, In j (G.attest_run pr (G.subscription_info target sign_ok duties) cur acct_ok jobs atts) ->
      ~ In j jobs ->
      G.j_dslot j = G.j_slot j
      /\ sigv (G.j_sig j)
         = expected sig zero_sig sign (acct (G.j_val j))
             (compute_signing_root H (u64_chunk (G.j_dslot j))
                (get_domain H c DOMAIN_SELECTION_PROOF (compute_epoch_at_slot c (G.j_dslot j)))).
Proof. exact new_jobs_carry_slot_signature. Qed.
Print Assumptions C06_new_aggregation_jobs_carry_slot_signature_partial.

(* The hypothesis is what C06 gives as soon as the identifiers of the duties [ds] of one slot are
   read off the signer's answer to ONE batch for that slot (the call of AggregatorsAndSignatures). *)
Theorem C06_slot_selection_batch_answer_gives_the_identifiers :
  forall (H : N -> N -> N) (sig : Type) (zero_sig : sig) (sign : N -> N -> sig) (c : chain)
         (acct : N -> account) (sigv : N -> sig) (ds : list G.duty) (slot : N) (sigs : list sig),
    (forall d, In d ds -> G.d_slot d = slot) ->
    run H sig zero_sig (spec_provider H c) (honest H sig sign) (spec_service c)
        (ReqSlotSelections (map (fun d => acct (G.d_val d)) ds) slot) = Ok sigs ->
    map (fun d => sigv (G.d_sig d)) ds = sigs ->
    forall d, In d ds ->
      sigv (G.d_sig d)
      = expected sig zero_sig sign (acct (G.d_val d))
          (compute_signing_root H (u64_chunk (G.d_slot d))
             (get_domain H c DOMAIN_SELECTION_PROOF (compute_epoch_at_slot c (G.d_slot d)))).
Proof. exact batch_answer_gives_ids. Qed.
Print Assumptions C06_slot_selection_batch_answer_gives_the_identifiers.

(* Non-vacuity: two duties of slot 72 (validators 40 and 41, identifiers 2001 and 2002) whose
   identifiers denote the signer's answer to the batch for slot 72 on the toy chain (epoch 9, before
   the forks): the hypothesis holds, and both are recorded as aggregators. *)
Definition ex_duties72 : list G.duty :=
  [ G.mkDuty 40 72 0 64 3 1 2001 [0; 0; 0; 0; 0; 0; 0; 0]; G.mkDuty 41 72 1 64 3 2 2002 [0; 0; 0; 0; 0; 0; 0; 0] ].
Definition ex_sigv (id : N) : N * N :=
  if id =? 2001 then (40, spec_signing_root Properties.C06.toy_H Properties.C06.toy_chain (MSlotSelection 72))
  else if id =? 2002 then (41, spec_signing_root Properties.C06.toy_H Properties.C06.toy_chain (MSlotSelection 72))
  else (0, 0).

Example C06_slot_selection_example :
  let H := Properties.C06.toy_H in
  let sign := Properties.C06.toy_sign in
  run H (N * N) (0, 0) (spec_provider H Properties.C06.toy_chain) (honest H (N * N) sign) (spec_service Properties.C06.toy_chain)
      (ReqSlotSelections (map (fun d => Properties.C06.wallet_acc (G.d_val d)) ex_duties72) 72)
  = Ok (map (fun d => ex_sigv (G.d_sig d)) ex_duties72)
  /\ ids_are_signer_answers H (N * N) (0, 0) sign Properties.C06.toy_chain Properties.C06.wallet_acc ex_sigv (fun _ => true) ex_duties72
  /\ map (fun e => (G.s_val e, G.s_slot e, G.s_agg e, G.s_sig e)) (G.subscription_info 16 (fun _ => true) ex_duties72)
     = [(40, 72, true, 2001); (41, 72, true, 2002)].
Proof.
  cbv zeta. split; [vm_compute; reflexivity|]. split; [|vm_compute; reflexivity].
  intros d [<-|[<-|[]]] _; vm_compute; reflexivity.
Qed.
