(* C20 <-> C01 — the two models of the attester's per-epoch [attested] map are two views of the same
   code (services/attester/standard/attest.go: fetchValidatorIndices creates attested[epoch];
   housekeepAttestedMap, after a successful Attest of epoch e > 1, deletes every key < e-1) and agree.

   C01 (Model/C01_Attester.v): the whole map [g_att], every call of Attest a thread, any schedule of
   the atomic steps.  C20 (Model/C20_Bookkeeping.v): the key set [attested], operations OStart s (the
   job of slot s starts) and OFinish s true (its Attest succeeded), ghost clocks [g_start], [g_succ].

   [keys st] = the keys of C01's map, newest first (C20's representation).  [op_of rs st i] = what the
   next step of thread i is in C20's vocabulary: AStart slot (the "ensure a map for this epoch"
   section), AFinish slot (the housekeeping section), ANone (every other step, the per-validator
   test-and-mark included).  [apply_op] = the expressions of C20's [step] for these operations. *)
From Verif Require Import Lib.Base Proofs.Bridge_C20C01.
From Verif Require Properties.C01 Properties.C20.

(* ---------------------------------------------------------------------------------------------- *)
(* (1) the abstraction commutes with every step: in EVERY state (reachable or not), for every thread,
   the key list after the step is C20's operation applied to the key list before — equal as lists. *)
Theorem C20_bridge_attested_step :
  forall (spe : N) (rs : list A.run) (st : A.state) (i : nat),
    keys (A.step spe rs st i) = apply_op spe (op_of rs st i) (keys st).
Proof. exact step_abs. Qed.
Print Assumptions C20_bridge_attested_step.

(* ... and [apply_op] is what C20's machine does to [attested]: OStart of a job in the table and
   OFinish _ true of an executing job apply it, every other operation leaves [attested] alone *)
Theorem C20_bridge_apply_op_is_C20_step :
  forall (spe : N) (y : B.sys) (o : B.op),
    B.attested (B.step spe true y o) =
    match o with
    | B.OStart s => if B.mem s (B.jobs y) then apply_op spe (AStart s) (B.attested y) else B.attested y
    | B.OFinish s true => if B.mem s (B.running y) then apply_op spe (AFinish s) (B.attested y) else B.attested y
    | _ => B.attested y
    end.
Proof. exact c20_attested_only. Qed.
Print Assumptions C20_bridge_apply_op_is_C20_step.

(* hence for every set of calls, every schedule and every starting state: the keys at the end are
   C20's operations folded over the keys at the start *)
Theorem C20_bridge_attested_exec :
  forall (spe : N) (rs : list A.run) (sch : list nat) (st : A.state),
    keys (A.exec spe rs sch st) =
    fold_left (fun l o => apply_op spe o l) (ops_along spe rs sch st) (keys st).
Proof. exact exec_abs. Qed.
Print Assumptions C20_bridge_attested_exec.

(* History level.  FULL STATEMENT (false, see the _refuted theorem below): the conclusion for every
   schedule, without [in_order].  [hist spe rs sch init] is the C20 history a C01 schedule stands for (AStart s =
   [OSched 0 false [s]; OStart s], AFinish s = [OFinish s true]); [mon_run] carries C20's two ghost
   clocks along the C01 schedule; [in_order] is C20's condition [starts_ok] said of the C01 schedule:
   the calls execute their "ensure" section in slot order.  Under it the C20 history meets
   [starts_ok], and C20's machine ends with exactly C01's keys and the same clocks — for every set of
   calls (the same duty delivered twice included) and every schedule. *)
Theorem C20_bridge_attested_history_partial :
  forall (spe : N) (rs : list A.run) (sch : list nat),
    0 < spe -> in_order spe rs sch A.init mon0 = true ->
    let h := hist spe rs sch A.init in
    let y := B.run spe true h B.init in
    let m := mon_run spe rs sch A.init mon0 in
    B.guarded spe true B.starts_ok h B.init = true /\
    B.attested y = keys (A.exec spe rs sch A.init) /\
    B.g_start y = m_start m /\ B.g_succ y = m_succ m.
Proof.
  intros spe rs sch Hspe Hord.
  destruct (sim_exec spe rs Hspe sch A.init B.init mon0 (sim_init spe rs) Hord) as [Hg [H1 H2 H3 _ _]].
  repeat split; assumption.
Qed.
Print Assumptions C20_bridge_attested_history_partial.

(* Calls of pairwise different slots (what the controller hands to the attester: one job per slot):
   the full statement holds, for every schedule. *)
Theorem C20_bridge_attested_history_distinct_slots :
  forall (spe : N) (rs : list A.run) (sch : list nat),
    NoDup (map (fun r => A.d_slot (A.r_duty r)) rs) ->
    B.attested (B.run spe true (hist spe rs sch A.init) B.init) = keys (A.exec spe rs sch A.init).
Proof. intros spe rs sch H. exact (distinct_history spe rs H sch). Qed.
Print Assumptions C20_bridge_attested_history_distinct_slots.

(* Without the order condition the history-level agreement fails (the step-level one above does
   not): two calls of one slot of epoch 5 and a call of epoch 1 that starts between their
   housekeepings.  C20 keeps one "executing" mark per SLOT, so its second OFinish does nothing and
   epoch 1 stays; in C01 (and in the code) the second call's housekeeping deletes it. *)
Theorem C20_bridge_attested_history_unordered_refuted :
  exists (spe : N) (rs : list A.run) (sch : list nat),
    in_order spe rs sch A.init mon0 = false /\
    keys (A.exec spe rs sch A.init) = [5] /\
    B.attested (B.run spe true (hist spe rs sch A.init) B.init) = [1; 5].
Proof. exists 4, d_runs, d_sch. vm_compute. auto. Qed.
Print Assumptions C20_bridge_attested_history_unordered_refuted.

(* ---------------------------------------------------------------------------------------------- *)
(* (2) FULL STATEMENT (false, see the _refuted theorem below): the bound in every state reachable by
   any schedule.  C20's window invariant on C01's model, obtained from C20_attested_bounded through the
   simulation: for every set of calls of Attest (any duties, any environment outcomes) and every
   schedule in which the calls create their epoch's map in slot order, the map of the state reached
   holds no epoch twice, only epochs from (highest epoch whose housekeeping has run) - 1 to the epoch
   of the highest slot started, hence at most  newest - last_successful + 2  of them. *)
Theorem C20_bridge_attested_bounded_on_C01_partial :
  forall (spe : N) (rs : list A.run) (sch : list nat),
    0 < spe -> in_order spe rs sch A.init mon0 = true ->
    let st := A.exec spe rs sch A.init in
    let m := mon_run spe rs sch A.init mon0 in
    NoDup (map fst (A.g_att st)) /\
    (forall k, In k (map fst (A.g_att st)) -> m_succ m <= k + 1 /\ k <= A.epoch_of spe (m_start m)) /\
    N.of_nat (length (A.g_att st)) <= A.epoch_of spe (m_start m) - m_succ m + 2.
Proof. intros spe rs sch Hspe. exact (c01_window spe rs Hspe sch). Qed.
Print Assumptions C20_bridge_attested_bounded_on_C01_partial.

(* The condition is C20's own, and it is needed on C01's model too: calls of epochs 1, 2, 3 that start
   after a call of epoch 10 has succeeded leave 4 entries where the bound says 2.  (Input class of
   the known finding C01-stale-epoch-redelivery: duties older than a completed newer epoch.) *)
Theorem C20_bridge_attested_unordered_refuted :
  exists (spe : N) (rs : list A.run) (sch : list nat),
    let st := A.exec spe rs sch A.init in
    let m := mon_run spe rs sch A.init mon0 in
    in_order spe rs sch A.init mon0 = false /\
    N.of_nat (length (A.g_att st)) = 4 /\ A.epoch_of spe (m_start m) - m_succ m + 2 = 2.
Proof. exists 4, x_runs, x_sch. vm_compute. auto. Qed.
Print Assumptions C20_bridge_attested_unordered_refuted.

(* ---------------------------------------------------------------------------------------------- *)
(* (3) what C01's safety argument needs of the housekeeping: C20's operation keeps exactly the keys
   from epoch-1 on (everything when epoch <= 1), so it never drops the current or the previous epoch;
   whatever it drops is two or more epochs old.  The second statement holds of the tree before the
   C20 repair as well (it dropped epoch-2 only). *)
Theorem C20_bridge_housekeep_keeps_from_previous_epoch :
  forall (e : N) (l : list N) (k : N),
    In k (B.housekeep true e l) <-> In k l /\ (e <= 1 \/ e <= k + 1).
Proof. exact housekeep_kept. Qed.
Print Assumptions C20_bridge_housekeep_keeps_from_previous_epoch.

Theorem C20_bridge_housekeep_drops_only_older :
  forall (fx : bool) (e : N) (l : list N) (k : N),
    In k l -> ~ In k (B.housekeep fx e l) -> 1 < e /\ k + 1 < e.
Proof. exact housekeep_dropped_any. Qed.
Print Assumptions C20_bridge_housekeep_drops_only_older.

(* C01's ghost list of purged epochs grows, at every step of every thread in every state, by exactly
   the keys that C20's operation for that step drops *)
Theorem C20_bridge_purged_is_what_C20_drops :
  forall (spe : N) (rs : list A.run) (st : A.state) (i : nat) (k : N),
    In k (A.g_purged (A.step spe rs st i)) <->
    (In k (keys st) /\ ~ In k (apply_op spe (op_of rs st i) (keys st))) \/ In k (A.g_purged st).
Proof. intros spe rs st i k. rewrite <- step_abs. apply step_purged. Qed.
Print Assumptions C20_bridge_purged_is_what_C20_drops.

(* hence, in every history and schedule, every purged epoch is two or more below C20's g_succ (the
   highest epoch whose housekeeping has run) *)
Theorem C20_bridge_purged_below_last_success :
  forall (spe : N) (rs : list A.run) (sch : list nat) (k : N),
    In k (A.g_purged (A.exec spe rs sch A.init)) -> k + 1 < m_succ (mon_run spe rs sch A.init mon0).
Proof. intros spe rs sch. apply purged_below_succ. intros k []. Qed.
Print Assumptions C20_bridge_purged_below_last_success.

(* so C01's condition [window_ok] (stated with the ghost list) follows from a condition on the
   schedule alone, in C20's terms: no test-and-mark for epoch e is executed once the housekeeping of
   an attestation of epoch e+2 or later has run ... *)
Theorem C20_bridge_timely_claims_give_window :
  forall (spe : N) (rs : list A.run) (sch : list nat),
    claims_timely spe rs sch A.init mon0 -> A.window_ok spe rs sch A.init.
Proof. intros spe rs sch. apply (timely_window spe rs sch A.init mon0). intros k []. Qed.
Print Assumptions C20_bridge_timely_claims_give_window.

(* ... and C01's main theorem holds under that condition (the full statement, without any condition
   on the schedule, is C01's and is refuted there: C01_window_refuted) *)
Theorem C20_bridge_at_most_once_when_claims_timely_partial :
  forall (spe : N) (rs : list A.run) (sch : list nat),
    AP.wf_runs rs -> claims_timely spe rs sch A.init mon0 ->
    NoDup (A.sign_list spe (A.g_trace (A.exec spe rs sch A.init))).
Proof.
  intros spe rs sch Hwf Ht. apply C01.C01_at_most_once_partial; [exact Hwf|].
  apply C20_bridge_timely_claims_give_window, Ht.
Qed.
Print Assumptions C20_bridge_at_most_once_when_claims_timely_partial.

(* ---------------------------------------------------------------------------------------------- *)
(* Non-vacuity: three overlapping calls of epochs 1, 2 and 4 (4 slots per epoch); the second and
   third create their maps before either marks a validator.  Both conditions hold, the last
   housekeeping purges epochs 1 and 2, all three calls reach the signer and the submitter, and the
   C20 history has nine operations. *)
Example C20_bridge_example :
  let st := A.exec 4 y_runs y_sch A.init in
  in_order 4 y_runs y_sch A.init mon0 = true /\
  claims_timely 4 y_runs y_sch A.init mon0 /\
  NoDup (map (fun r => A.d_slot (A.r_duty r)) y_runs) /\
  keys st = [4] /\ A.g_purged st = [1; 2] /\
  mon_run 4 y_runs y_sch A.init mon0 = {| m_start := 16; m_succ := 4 |} /\
  length (A.g_trace st) = 6%nat /\
  hist 4 y_runs y_sch A.init =
    [B.OSched 0 false [4]; B.OStart 4; B.OFinish 4 true; B.OSched 0 false [8]; B.OStart 8;
     B.OSched 0 false [16]; B.OStart 16; B.OFinish 8 true; B.OFinish 16 true].
Proof.
  split; [vm_compute; reflexivity|].
  split; [apply claims_timelyb_sound; vm_compute; reflexivity|].
  split; [cbn; repeat constructor; cbn; intuition discriminate|].
  vm_compute. repeat split; reflexivity.
Qed.
