(* C01 — a validator never attests twice in an epoch, and only for its duty epoch.
   Property theorems only.  Model: Model/C01_Attester.v (every call of Attest is a thread; a
   history is any set of calls over any duties, any environment outcomes and any schedule of their
   atomic steps: the three kinds of critical section of attestedMu and the returns of the data
   provider, accounts provider, signer and submitter). *)
From Verif Require Import Lib.Base Model.C01_Attester Model.C01_Ties Proofs.C01 Proofs.C01_Ties.

(* FULL STATEMENT (what the property text says):
     forall spe rs sch, wf_runs rs -> NoDup (sign_list spe (g_trace (exec spe rs sch init)))
   i.e. over the whole history no (validator, epoch) is handed to the signer twice.  It is FALSE of
   the code: see C01_window_refuted below.  What is proved is the statement for every history in
   which no test-and-mark for an epoch e is executed after housekeeping deleted epoch e
   ([window_ok]: housekeeping deletes e when a duty of epoch e+2 or later has attested successfully; the
   controller never schedules duties that far in the past).  The excluded class is exactly the
   known finding C01-stale-epoch-redelivery.
   [wf_runs]: the accounts provider's answer is a Go map, so it has no validator twice. *)
Theorem C01_at_most_once_partial :
  forall (spe : N) (rs : list run) (sch : list nat),
    wf_runs rs -> window_ok spe rs sch init ->
    NoDup (sign_list spe (g_trace (exec spe rs sch init))).
Proof. exact at_most_once. Qed.
Print Assumptions C01_at_most_once_partial.

(* the same, counted: for every validator and epoch at most one signature is requested *)
Theorem C01_at_most_once_count_partial :
  forall (spe : N) (rs : list run) (sch : list nat) (v : vidx) (e : epoch),
    wf_runs rs -> window_ok spe rs sch init ->
    (count_occ pair_eq_dec (sign_list spe (g_trace (exec spe rs sch init))) (v, e) <= 1)%nat.
Proof. exact at_most_once_count. Qed.
Print Assumptions C01_at_most_once_count_partial.

(* Without window_ok the full statement fails: epoch 0 attests, epoch 2 attests (housekeeping
   deletes the epoch-0 marks), the epoch-0 duty is delivered again and validator 1 is signed for
   epoch 0 a second time.  The same witness is corpus/C01/stale-epoch-redelivery.json, replayed on
   the implementation by every check. *)
Theorem C01_window_refuted :
  exists (spe : N) (rs : list run) (sch : list nat),
    wf_runs rs /\ ~ NoDup (sign_list spe (g_trace (exec spe rs sch init))).
Proof.
  exists 32, w_runs, w_seq. split; [exact w_runs_wf|].
  rewrite window_refuted_sign. intro H. inversion H as [|? ? Hn _]; subst. apply Hn. right. left. reflexivity.
Qed.
Print Assumptions C01_window_refuted.

(* ... and an interleaving of two calls in which housekeeping of epoch 2 falls between "create the
   map for epoch 0" and "mark validator 1" writes to a deleted inner map: a Go panic. *)
Theorem C01_window_refuted_panic :
  exists (spe : N) (rs : list run) (sch : list nat),
    wf_runs rs /\ g_panic (exec spe rs sch init) = true.
Proof. exists 32, w_runs, w_panic. split; [exact w_runs_wf | exact window_refuted_panic]. Qed.
Print Assumptions C01_window_refuted_panic.

(* Every signing request, in every history and schedule (no window condition), carries the slot of
   the duty of the call that made it, a target epoch equal to the epoch of that slot and a source
   epoch not above the target. *)
Theorem C01_signed_is_valid :
  forall (spe : N) (rs : list run) (sch : list nat) (q : signreq),
    In (SignReq q) (g_trace (exec spe rs sch init)) ->
    exists r, nth_error rs (sr_run q) = Some r /\
              sr_slot q = d_slot (r_duty r) /\
              sr_tgt q = epoch_of spe (sr_slot q) /\
              sr_src q <= sr_tgt q.
Proof. exact signed_is_valid. Qed.
Print Assumptions C01_signed_is_valid.

(* A call whose beacon node failed or returned data with another slot, a target epoch other than
   the epoch of the duty's slot, or a source above the target never reaches the signer or the
   submitter, in any history and schedule. *)
Theorem C01_invalid_refused :
  forall (spe : N) (rs : list run) (sch : list nat) (i : nat) (r : run),
    nth_error rs i = Some r ->
    match s_fetch (r_script r) with
    | None => True
    | Some a => a_slot a <> d_slot (r_duty r) \/ a_tgt a <> epoch_of spe (d_slot (r_duty r)) \/ a_tgt a < a_src a
    end ->
    forall ev, In ev (g_trace (exec spe rs sch init)) ->
               match ev with SignReq q => sr_run q <> i | Submit j _ => j <> i end.
Proof. exact invalid_refused. Qed.
Print Assumptions C01_invalid_refused.

(* Once a call has marked validator v (at any point sch1 of the history), then whatever happens to
   that call afterwards -- data, accounts, signing or submission failing, or success -- no OTHER
   call of the same epoch ever asks the signer for v: a failed attempt is not retried.
   (Same window condition as C01_at_most_once_partial; the full statement without it is refuted
   by the same witness.) *)
Theorem C01_failed_run_not_retried_partial :
  forall (spe : N) (rs : list run) (sch1 sch2 : list nat) (i j : nat) (ri rj : run) (v : vidx) (q : signreq),
    wf_runs rs -> window_ok spe rs (sch1 ++ sch2) init ->
    nth_error rs i = Some ri -> nth_error rs j = Some rj -> i <> j ->
    epoch_of spe (d_slot (r_duty ri)) = epoch_of spe (d_slot (r_duty rj)) ->
    In v (t_claimed (g_thr (exec spe rs sch1 init) i)) ->
    In (SignReq q) (g_trace (exec spe rs (sch1 ++ sch2) init)) -> sr_run q = j ->
    ~ In v (map fst (sr_pairs q)).
Proof. exact failed_run_not_retried. Qed.
Print Assumptions C01_failed_run_not_retried_partial.

(* Calls that arrive together.  When several calls of Attest wake up at the same instant (two
   deliveries of a duty arriving together as the first calls of their epoch, a call starting while
   another's submission returns, ...) the check enumerates every interleaving of the atomic steps of
   the tied code segments ([outcomes], Model/C01_Ties.v: [ws] are the wake-ups as (instant, call), in any
   order) and compares the implementation, driven through such an interleaving by the harness, with
   that set.  Every member of the set is the outcome of a schedule of the model, so all theorems above
   speak about it ... *)
Theorem C01_tied_outcomes_are_histories :
  forall (spe : N) (rs : list run) (ws : list (N * nat)) (st : state) (sch : list nat),
    In (st, sch) (outcomes spe rs ws) -> st = exec spe rs sch init.
Proof. exact outcomes_exec. Qed.
Print Assumptions C01_tied_outcomes_are_histories.

(* ... in particular at-most-once: however the tied calls interleave, no (validator, epoch) is handed to
   the signer twice (same window condition as C01_at_most_once_partial). *)
Theorem C01_at_most_once_tied_partial :
  forall (spe : N) (rs : list run) (ws : list (N * nat)) (st : state) (sch : list nat),
    wf_runs rs -> In (st, sch) (outcomes spe rs ws) -> window_ok spe rs sch init ->
    NoDup (sign_list spe (g_trace st)).
Proof. exact tied_at_most_once. Qed.
Print Assumptions C01_at_most_once_tied_partial.

(* Non-vacuity: three overlapping calls -- the same duty of epoch 3 delivered twice (validators 5
   and 6, listed in opposite orders) and a duty of epoch 4 re-using validator 5 -- under an
   interleaved schedule that satisfies window_ok: the two deliveries race for the marks, one gets
   validator 6 and the other validator 5, each signs only for what it marked; epoch 4 signs 5. *)
Definition ex_duty (sl : slot) (vs : list vidx) : duty :=
  {| d_slot := sl; d_vals := vs; d_comms := map (fun _ => 0) vs; d_poss := vs; d_sizes := [(0, 9)] |}.
Definition ex_run (sl : slot) (e : epoch) (vs : list vidx) (submit : bool) : run :=
  {| r_duty := ex_duty sl vs;
     r_script := {| s_fetch := Some {| a_slot := sl; a_root := 1; a_src := e - 1; a_src_root := 2; a_tgt := e; a_tgt_root := 3 |};
                    s_accounts := Some [5; 6]; s_sign := Some []; s_submit := submit |} |}.
Definition ex_runs : list run := [ex_run 100 3 [5; 6] false; ex_run 100 3 [6; 5] true; ex_run 130 4 [5] true].
Definition ex_sch : list nat := [0; 1; 0; 1; 2; 1; 0; 2; 2; 0; 1; 1; 0; 2; 2; 0; 1; 2; 2; 0; 1; 1; 2]%nat.

Example C01_history_example :
  wf_runs ex_runs /\ window_ok 32 ex_runs ex_sch init /\
  sign_list 32 (g_trace (exec 32 ex_runs ex_sch init)) = [(6, 3); (5, 3); (5, 4)] /\
  length (g_trace (exec 32 ex_runs ex_sch init)) = 6%nat.
Proof.
  split; [|split; [apply window_okb_sound; vm_compute; reflexivity | split; vm_compute; reflexivity]].
  repeat constructor; intros l H; injection H as <-; repeat constructor; cbn; intuition discriminate.
Qed.

(* Non-vacuity: the same duty of epoch 3 (validators 5, 6) delivered twice at instant 0 as the first calls
   of the epoch, all later instants distinct: the two start segments (create the set, mark 5, mark 6
   each) have 20 interleavings; in every one of them each validator is signed for exactly once, and
   both splits of the marks between the two calls occur. *)
Definition tied_runs : list run := [ex_run 100 3 [5; 6] true; ex_run 100 3 [5; 6] true].
Definition tied_ws : list (N * nat) :=
  [(0, 0%nat); (16, 0%nat); (32, 0%nat); (48, 0%nat); (64, 0%nat);
   (0, 1%nat); (17, 1%nat); (33, 1%nat); (49, 1%nat); (65, 1%nat)].

Example C01_tied_example :
  (length (outcomes 32 tied_runs tied_ws) = 20%nat) /\
  (forallb (fun o => list_eqb (prod_eqb N.eqb N.eqb)
                       (sort_by fst (sign_list 32 (g_trace (fst o)))) [(5, 3); (6, 3)])
           (outcomes 32 tied_runs tied_ws) = true) /\
  (existsb (fun o => list_eqb N.eqb (t_claimed (g_thr (fst o) 0)) [5] &&
                     list_eqb N.eqb (t_claimed (g_thr (fst o) 1)) [6])
           (outcomes 32 tied_runs tied_ws) = true).
Proof. vm_compute. repeat split. Qed.

(* Non-vacuity of C01_invalid_refused: data of the right slot whose target is one epoch behind. *)
Example C01_refused_example :
  let r := {| r_duty := ex_duty 100 [5];
              r_script := {| s_fetch := Some {| a_slot := 100; a_root := 1; a_src := 2; a_src_root := 2; a_tgt := 2; a_tgt_root := 3 |};
                             s_accounts := Some [5]; s_sign := Some []; s_submit := true |} |} in
  g_trace (exec 32 [r] (repeat 0%nat 8) init) = [] /\
  t_claimed (g_thr (exec 32 [r] (repeat 0%nat 8) init) 0) = [5].
Proof. vm_compute. split; reflexivity. Qed.
