(* C11 -- relays and beacon nodes are told exactly what the configuration says.
   Property theorems only.  Model: Model/C11_Registrations.v (the registration round of
   services/blockrelay/standard, its REST forwarding, services/proposalpreparer/standard).
   A history is a list of operations (rounds by the job or the API, forwardings, preparations);
   [run init ops] gives, op by op, the signing requests made and what reached each relay and each
   beacon node.  The resolution of a validator's settings (C10) is an input of each round
   ([v_res], None = cannot be resolved), as are the outcomes of the signing requests, relays and
   nodes; the validators of a round come in an arbitrary order (Go map iteration). *)
From Verif Require Import Lib.Base Model.C11_Registrations Model.C11_Delivery Model.C11_Accounts
     Proofs.C11 Proofs.C11_Delivery Proofs.C11_Accounts.

(* ------------------------------------------------------------------------------------------- *)
(* 1. Content and signer.  In every history, every registration that reaches relay [a] in a round
   is the registration of a validator [v] of that round for a relay entry [rc] at address [a] of
   [v]'s resolved settings: it names [v]'s public key with exactly that entry's fee recipient and
   gas limit, its signature is the one made by [v]'s account over exactly this content and
   timestamp, and that signing request was made (and succeeded) in this round or in an earlier
   one.  The relay is one that can be reached at all. *)
Theorem C11_registration_content_and_signer :
  forall (acct_of : N -> N) (ops : list op),
    accts_ok acct_of ops ->
    forall i r err reqs relays nodes,
      nth_error ops i = Some (ORound r) ->
      nth_error (snd (run init ops)) i = Some (OutRound err reqs relays nodes) ->
      forall a regs sr, In (a, regs) relays -> In sr regs ->
        reached (kind_of (r_relays r) a) = true /\
        exists v res rc,
          In v (r_vals r) /\ v_res v = Some res /\ In rc (rs_relays res) /\ rc_addr rc = a
          /\ sr_content sr = {| ct_fee := rc_fee rc; ct_gas := rc_gas rc; ct_pub := v_pub v |}
          /\ sr_sig sr = {| sg_acct := v_acct v; sg_content := sr_content sr; sg_stamp := sr_stamp sr |}
          /\ In {| q_acct := v_acct v; q_content := sr_content sr; q_stamp := sr_stamp sr; q_ok := true |}
                (all_reqs (firstn (S i) (snd (run init ops)))).
Proof.
  intros acct_of ops Hacc i r err reqs relays nodes Hop Hout a regs sr Hin Hsr.
  exact (content_and_signer acct_of ops Hacc i r err reqs relays nodes Hop Hout a sr
           (ex_intro _ regs (conj Hin Hsr))).
Qed.
Print Assumptions C11_registration_content_and_signer.

(* 2. ... and every one of them gets there, whatever happens to the others.  In a round that does
   its work (a configuration is present; the job also needs accounts), for EVERY validator whose
   settings resolve and EVERY relay entry of them whose relay can be reached, a registration with
   exactly that content reaches that relay -- unless a signing request by that very validator's
   account for that very content failed in this round.  No failure of another validator (settings
   that cannot be resolved, failing signatures), relay or beacon node is an excuse; and the round
   itself does not report an error. *)
Theorem C11_registration_reaches_every_relay :
  forall ops i r err reqs relays nodes,
    nth_error ops i = Some (ORound r) ->
    nth_error (snd (run init ops)) i = Some (OutRound err reqs relays nodes) ->
    active r = true ->
    err = false
    /\ forall v res rc, In v (r_vals r) -> v_res v = Some res -> In rc (rs_relays res) ->
         reached (kind_of (r_relays r) (rc_addr rc)) = true ->
         (exists regs sr, In (rc_addr rc, regs) relays /\ In sr regs
                     /\ sr_content sr = {| ct_fee := rc_fee rc; ct_gas := rc_gas rc; ct_pub := v_pub v |})
         \/ (exists q, In q reqs /\ q_ok q = false /\ q_acct q = v_acct v
                       /\ q_content q = {| ct_fee := rc_fee rc; ct_gas := rc_gas rc; ct_pub := v_pub v |}).
Proof.
  intros ops i r err reqs relays nodes Hop Hout Hact.
  destruct (round_complete ops i r err reqs relays nodes Hop Hout Hact) as [He H].
  split; [exact He|]. intros v res rc Hv Hres Hrc Hreach.
  destruct (H v res rc Hv Hres Hrc Hreach) as [[sr [[regs [H1 H2]] H3]]|Hq]; [left|right; exact Hq].
  exists regs, sr. auto.
Qed.
Print Assumptions C11_registration_reaches_every_relay.

(* ------------------------------------------------------------------------------------------- *)
(* 3. Reuse.  A registration sent in a round but not signed in it (its timestamp is not the
   round's) is exactly what the LAST successful signing request for that validator before the
   round produced: nothing else -- no other content -- has been signed for that validator since.
   [last_ok log p] is the last successful request for public key [p] in [log]. *)
Theorem C11_reuse_implies_unchanged_content :
  forall ops i r err reqs relays nodes,
    nth_error ops i = Some (ORound r) ->
    nth_error (snd (run init ops)) i = Some (OutRound err reqs relays nodes) ->
    forall a regs sr, In (a, regs) relays -> In sr regs ->
      sr_stamp sr <> r_now r ->
      exists q, last_ok (all_reqs (firstn i (snd (run init ops)))) (ct_pub (sr_content sr)) = Some q
                /\ sr_content sr = q_content q /\ sr_stamp sr = q_stamp q
                /\ sr_sig sr = {| sg_acct := q_acct q; sg_content := q_content q; sg_stamp := q_stamp q |}.
Proof.
  intros ops i r err reqs relays nodes Hop Hout a regs sr Hin Hsr Hne.
  destruct (reuse_unchanged ops i r err reqs relays nodes Hop Hout a sr (ex_intro _ regs (conj Hin Hsr)) Hne)
    as [q [H1 ->]].
  exists q. repeat split; assumption.
Qed.
Print Assumptions C11_reuse_implies_unchanged_content.

(* 4. For every history of configuration changes between rounds at increasing times: what a
   validator's registrations carry as timestamp never goes back from one round to a later one
   (so a relay never sees a registration older than one it was sent before) ... *)
Theorem C11_stamps_never_go_back :
  forall ops, increasing ops ->
    forall i j ri rj erri reqsi relaysi nodesi errj reqsj relaysj nodesj,
      (i < j)%nat ->
      nth_error ops i = Some (ORound ri) ->
      nth_error ops j = Some (ORound rj) ->
      nth_error (snd (run init ops)) i = Some (OutRound erri reqsi relaysi nodesi) ->
      nth_error (snd (run init ops)) j = Some (OutRound errj reqsj relaysj nodesj) ->
      forall a regsi sri a' regsj srj,
        In (a, regsi) relaysi -> In sri regsi -> In (a', regsj) relaysj -> In srj regsj ->
        ct_pub (sr_content sri) = ct_pub (sr_content srj) ->
        sr_stamp sri <= sr_stamp srj.
Proof.
  intros ops Hinc i j ri rj erri reqsi relaysi nodesi errj reqsj relaysj nodesj Hlt Hi Hj Hoi Hoj
         a regsi sri a' regsj srj H1 H2 H3 H4 Hp.
  exact (proj1 (stamps_along ops Hinc i j ri rj erri reqsi relaysi nodesi errj reqsj relaysj nodesj Hlt Hi Hj Hoi Hoj
                  a sri a' srj (ex_intro _ regsi (conj H1 H2)) (ex_intro _ regsj (conj H3 H4)) Hp)).
Qed.
Print Assumptions C11_stamps_never_go_back.

(* ... and a registration sent after a change (its content differs from one sent for the same
   validator in an earlier round -- A -> B, and A -> B -> A alike) carries a strictly newer
   timestamp than every registration sent for that validator before the change.  The only
   exception the code allows: the later registration was itself signed during that earlier round
   (same second), which needs a validator with two different per-relay contents in one round. *)
Theorem C11_stamp_newer_after_change :
  forall ops, increasing ops ->
    forall i j ri rj erri reqsi relaysi nodesi errj reqsj relaysj nodesj,
      (i < j)%nat ->
      nth_error ops i = Some (ORound ri) ->
      nth_error ops j = Some (ORound rj) ->
      nth_error (snd (run init ops)) i = Some (OutRound erri reqsi relaysi nodesi) ->
      nth_error (snd (run init ops)) j = Some (OutRound errj reqsj relaysj nodesj) ->
      forall a regsi sri a' regsj srj,
        In (a, regsi) relaysi -> In sri regsi -> In (a', regsj) relaysj -> In srj regsj ->
        ct_pub (sr_content sri) = ct_pub (sr_content srj) ->
        sr_content sri <> sr_content srj ->
        sr_stamp sri < sr_stamp srj \/ sr_stamp srj = r_now ri.
Proof.
  intros ops Hinc i j ri rj erri reqsi relaysi nodesi errj reqsj relaysj nodesj Hlt Hi Hj Hoi Hoj
         a regsi sri a' regsj srj H1 H2 H3 H4 Hp.
  exact (proj2 (stamps_along ops Hinc i j ri rj erri reqsi relaysi nodesi errj reqsj relaysj nodesj Hlt Hi Hj Hoi Hoj
                  a sri a' srj (ex_intro _ regsi (conj H1 H2)) (ex_intro _ regsj (conj H3 H4)) Hp)).
Qed.
Print Assumptions C11_stamp_newer_after_change.

(* Without per-relay differences the exception disappears: if in the earlier round all relay
   entries of that validator carry the same fee recipient and gas limit ([uniform_pub]), a
   registration with another content sent in any later round is STRICTLY newer -- the statement of
   DESIGN section 6 in full, for every history of configuration changes. *)
Theorem C11_stamp_strictly_newer_after_change :
  forall ops, increasing ops ->
    forall i j ri rj erri reqsi relaysi nodesi errj reqsj relaysj nodesj,
      (i < j)%nat ->
      nth_error ops i = Some (ORound ri) ->
      nth_error ops j = Some (ORound rj) ->
      nth_error (snd (run init ops)) i = Some (OutRound erri reqsi relaysi nodesi) ->
      nth_error (snd (run init ops)) j = Some (OutRound errj reqsj relaysj nodesj) ->
      forall a regsi sri a' regsj srj,
        In (a, regsi) relaysi -> In sri regsi -> In (a', regsj) relaysj -> In srj regsj ->
        ct_pub (sr_content sri) = ct_pub (sr_content srj) ->
        sr_content sri <> sr_content srj ->
        uniform_pub ri (ct_pub (sr_content sri)) ->
        sr_stamp sri < sr_stamp srj.
Proof.
  intros ops Hinc i j ri rj erri reqsi relaysi nodesi errj reqsj relaysj nodesj Hlt Hi Hj Hoi Hoj
         a regsi sri a' regsj srj H1 H2 H3 H4 Hp Hne Hun.
  exact (stamps_strict ops Hinc i j ri rj erri reqsi relaysi nodesi errj reqsj relaysj nodesj Hlt Hi Hj Hoi Hoj
           a sri a' srj (ex_intro _ regsi (conj H1 H2)) (ex_intro _ regsj (conj H3 H4)) Hp Hne Hun).
Qed.
Print Assumptions C11_stamp_strictly_newer_after_change.

(* ------------------------------------------------------------------------------------------- *)
(* 5. Proposal preparations.  Whenever the accounts are available and there is at least one, EVERY
   configured beacon node is called, each with the same list, whatever the other nodes answer; the
   list has an entry (index, fee recipient) exactly for every validator whose settings resolve,
   with its resolved fee recipient (the fallback for everybody when no configuration is
   available). *)
Theorem C11_preparation_per_validator_per_node :
  forall ops st i p err nodes,
    nth_error ops i = Some (OPrepare p) ->
    nth_error (snd (run st ops)) i = Some (OutPrepare err nodes) ->
    p_acct_err p = false -> p_vals p <> [] ->
    err = false
    /\ exists l, nodes = map (fun _ => Some l) (p_nodes p)
       /\ (forall idx fee, In (idx, fee) l <->
             exists v, In v (p_vals p) /\ v_index v = idx
                       /\ (if p_cfg p then option_map rs_fee (v_res v) else Some (p_fallback p)) = Some fee).
Proof. exact prepare_spec. Qed.
Print Assumptions C11_preparation_per_validator_per_node.

(* ------------------------------------------------------------------------------------------- *)
(* 6. Failures are isolated.  Changing how ANY relays behave (accepting, failing, not being a
   submitter, no client at all) changes neither the state the round leaves, nor the signing
   requests, nor what the beacon nodes get, nor what is sent to any relay whose own behaviour
   is unchanged. *)
Theorem C11_relay_failures_isolated :
  forall st r ks',
    fst (step_round st (set_relays r ks')) = fst (step_round st r)
    /\ exists err reqs relays relays' nodes,
         snd (step_round st r) = OutRound err reqs relays nodes
         /\ snd (step_round st (set_relays r ks')) = OutRound err reqs relays' nodes
         /\ forall a, kind_of ks' a = kind_of (r_relays r) a -> entry_of relays' a = entry_of relays a.
Proof. exact relay_failures_isolated. Qed.
Print Assumptions C11_relay_failures_isolated.

(* The answers of the secondary beacon nodes change nothing at all: not the state, not what any
   relay or any other node is sent. *)
Theorem C11_node_failures_isolated :
  forall st r ns', length ns' = length (r_nodes r) -> step_round st (set_nodes r ns') = step_round st r.
Proof. exact node_failures_isolated. Qed.
Print Assumptions C11_node_failures_isolated.

Theorem C11_preparation_node_failures_isolated :
  forall p ns', length ns' = length (p_nodes p) -> step_prepare (set_pnodes p ns') = step_prepare p.
Proof. exact prep_node_failures_isolated. Qed.
Print Assumptions C11_preparation_node_failures_isolated.

(* The failures of a VALIDATOR are isolated as well, over whole histories.  Take two histories
   that differ only in what concerns the validator with public key [p'] ([rel_op p']: same
   operations, rounds at the same times with the same relays, nodes and flags, the validators
   pairwise with the same public keys and IDENTICAL unless the key is [p'] -- so [p']'s settings,
   whether they resolve at all, and the outcome of each of its signing requests are arbitrary on
   both sides).  Then in every round both histories make exactly the same signing requests for
   the other validators, send exactly the same registrations of the other validators (content,
   timestamp, signature) to each relay and to the beacon nodes, report the same error status, and
   forward exactly the same registrations ([rel_out p']).  In particular turning one validator's
   signing request or resolution from success into failure changes nothing for the others, now
   or in any later round. *)
Theorem C11_validator_failures_isolated :
  forall (p' : N) (ops ops' : list op),
    Forall2 (rel_op p') ops ops' ->
    Forall2 (rel_out p') (snd (run init ops)) (snd (run init ops')).
Proof. intros p' ops ops' H. exact (run_related p' ops ops' init init (SRC_init p') H). Qed.
Print Assumptions C11_validator_failures_isolated.

(* Secondary beacon nodes: all of them are sent the same thing, whatever they answer, and every
   registration in it is the registration for the FIRST relay entry of a validator of the round. *)
Theorem C11_secondary_nodes_get_first_relay_registrations :
  forall ops i r err reqs relays nodes,
    nth_error ops i = Some (ORound r) ->
    nth_error (snd (run init ops)) i = Some (OutRound err reqs relays nodes) ->
    (exists x, nodes = map (fun _ => x) (r_nodes r))
    /\ forall l sr, In (Some l) nodes -> In sr l ->
         exists v res rc, In v (r_vals r) /\ v_res v = Some res /\ hd_error (rs_relays res) = Some rc
                          /\ sr_content sr = {| ct_fee := rc_fee rc; ct_gas := rc_gas rc; ct_pub := v_pub v |}.
Proof. exact round_nodes. Qed.
Print Assumptions C11_secondary_nodes_get_first_relay_registrations.

(* ------------------------------------------------------------------------------------------- *)
(* 7. Forwarding.  A registration reaches relay [a] through the REST handler exactly when it is
   one of the received registrations (unchanged: the very same content, timestamp and signature),
   its validator is not controlled by Vouch -- [ctrl_spec [] (firstn i ops)] is the set of public
   keys of the last round before it that did its work --, a configuration is available, [a] is a
   relay of that validator's resolved settings, and [a] can be reached.  Registrations of
   controlled validators are never forwarded. *)
Theorem C11_forward_uncontrolled_only :
  forall ops i f relays,
    nth_error ops i = Some (OForward f) ->
    nth_error (snd (run init ops)) i = Some (OutForward relays) ->
    forall a sr,
      (exists regs, In (a, regs) relays /\ In sr regs) <->
      (In sr (f_incoming f)
       /\ memb N.eqb (ct_pub (sr_content sr)) (ctrl_spec [] (firstn i ops)) = false
       /\ f_cfg f = true
       /\ (exists addrs, lookup_resolve (f_resolve f) (ct_pub (sr_content sr)) = Some addrs /\ In a addrs)
       /\ reached (kind_of (f_relays f) a) = true).
Proof. exact forward_history. Qed.
Print Assumptions C11_forward_uncontrolled_only.

(* ------------------------------------------------------------------------------------------- *)
(* 8. Peers that take time.  Real relay and beacon node clients need a round trip and abandon a
   request whose context is cancelled before it is answered (Model/C11_Delivery.v: every peer of an
   operation has a latency, the operation is given a context by its caller, [run_timed] says what
   ARRIVES).  As long as the caller's own context lives, everything that sections 1-7 say is sent
   does arrive: for every history, whatever each relay and node needs as time and whichever of them
   fails first, what arrives at every relay and every beacon node is exactly what [run] sends -- no
   peer's failure ever cancels the request to another one. *)
Theorem C11_everything_sent_arrives_while_the_callers_context_lives :
  forall ops st tms,
    Forall (fun tm => t_ctx tm = None) tms ->
    run_timed st ops tms = run st ops.
Proof. exact run_timed_alive. Qed.
Print Assumptions C11_everything_sent_arrives_while_the_callers_context_lives.

(* ... and whatever happens to the caller's context (cancelled at any moment, or never): which
   preparer nodes get the preparations depends on that context and on how long the nodes take, never
   on what any node ANSWERS (accepting, failing, not active). *)
Theorem C11_preparation_node_answers_cancel_nothing :
  forall tm p ns', length ns' = length (p_nodes p) ->
    deliver tm (OPrepare (set_pnodes p ns')) (step_prepare (set_pnodes p ns'))
    = deliver tm (OPrepare p) (step_prepare p).
Proof. exact timed_prep_node_failures_isolated. Qed.
Print Assumptions C11_preparation_node_answers_cancel_nothing.

(* The same for the secondary beacon nodes of a round: their answers change nothing of what arrives
   anywhere ... *)
Theorem C11_secondary_node_answers_cancel_nothing :
  forall tm st r ns', length ns' = length (r_nodes r) ->
    step_timed st (ORound (set_nodes r ns')) tm = step_timed st (ORound r) tm.
Proof. exact timed_node_failures_isolated. Qed.
Print Assumptions C11_secondary_node_answers_cancel_nothing.

(* ... and for relays: however the other relays behave, what ARRIVES at a relay whose own behaviour
   is unchanged is the same, under every timing and every caller's context; signing requests, error
   status and state are the same; and with a living context the beacon nodes get the same. *)
Theorem C11_relay_answers_cancel_nothing :
  forall tm st r ks',
    fst (step_timed st (ORound (set_relays r ks')) tm) = fst (step_timed st (ORound r) tm)
    /\ exists err reqs relays relays' nodes nodes',
         snd (step_timed st (ORound r) tm) = OutRound err reqs relays nodes
         /\ snd (step_timed st (ORound (set_relays r ks')) tm) = OutRound err reqs relays' nodes'
         /\ (forall a, kind_of ks' a = kind_of (r_relays r) a -> entry_of relays' a = entry_of relays a)
         /\ (t_ctx tm = None -> nodes' = nodes).
Proof. exact timed_relay_failures_isolated. Qed.
Print Assumptions C11_relay_answers_cancel_nothing.

(* ------------------------------------------------------------------------------------------- *)
(* 9. WHICH validators: "every validator that is about to be active".  Sections 1-8 take the
   validators of a round as given.  They are not: the registration job and the proposal preparer ask
   the accounts provider, which knows from which epoch on every account validates and until which
   one, and answers the accounts active AT THE EPOCH ASKED FOR (Model/C11_Accounts.v: a history is a
   list of [eop], each job round and preparation with the current epoch and the provider's table;
   [run_epochs] says what arrives).  Both ask for the NEXT epoch.  So, for every history and at
   every epoch: an account the provider reports validating at the next epoch -- active now and still
   then, or ACTIVATING then, i.e. not yet in the current epoch's answer -- is served by the job's
   round exactly as section 2 says: the round does its work without reporting an error, and every
   reachable relay entry of its resolved settings gets its registration unless a signing request of
   that very validator for that very content failed.  (A round that asked for the current epoch
   would leave such a validator without any registration until a round after its activation.) *)
Theorem C11_validators_about_to_be_active_are_registered :
  forall xs tms i epoch wins r err reqs relays nodes,
    Forall (fun tm => t_ctx tm = None) tms ->
    nth_error xs i = Some (EJob epoch wins r) ->
    nth_error (snd (run_epochs init xs tms)) i = Some (OutRound err reqs relays nodes) ->
    r_api r = false -> r_acct_err r = false -> r_cfg r = true ->
    forall v w, In (v, w) (with_windows (r_vals r) wins) -> validating_at (epoch + 1) w = true ->
      err = false
      /\ forall res rc, v_res v = Some res -> In rc (rs_relays res) ->
           reached (kind_of (r_relays r) (rc_addr rc)) = true ->
           (exists regs sr, In (rc_addr rc, regs) relays /\ In sr regs
                       /\ sr_content sr = {| ct_fee := rc_fee rc; ct_gas := rc_gas rc; ct_pub := v_pub v |})
           \/ (exists q, In q reqs /\ q_ok q = false /\ q_acct q = v_acct v
                         /\ q_content q = {| ct_fee := rc_fee rc; ct_gas := rc_gas rc; ct_pub := v_pub v |}).
Proof. exact job_serves_next_epoch. Qed.
Print Assumptions C11_validators_about_to_be_active_are_registered.

(* ... and nobody else: the validators of the job's round are exactly the provider's accounts
   validating at the next epoch (so whatever reaches a relay names one of them and is signed by its
   account); the API's round is about the accounts its caller hands over. *)
Theorem C11_job_round_is_about_the_next_epochs_validators :
  forall epoch wins r,
    (r_api r = false ->
     forall v, In v (r_vals (job_round epoch wins r))
               <-> exists w, In (v, w) (with_windows (r_vals r) wins) /\ validating_at (epoch + 1) w = true)
    /\ (r_api r = true -> job_round epoch wins r = r).
Proof.
  intros epoch wins r. split.
  - intros H v. exact (job_round_vals epoch wins r v H).
  - exact (job_round_api epoch wins r).
Qed.
Print Assumptions C11_job_round_is_about_the_next_epochs_validators.

Theorem C11_registrations_name_next_epochs_validators_only :
  forall (acct_of : N -> N) xs tms i epoch wins r err reqs relays nodes,
    accts_ok acct_of (elaborate xs) ->
    Forall (fun tm => t_ctx tm = None) tms ->
    nth_error xs i = Some (EJob epoch wins r) ->
    nth_error (snd (run_epochs init xs tms)) i = Some (OutRound err reqs relays nodes) ->
    r_api r = false ->
    forall a regs sr, In (a, regs) relays -> In sr regs ->
      exists v w, In (v, w) (with_windows (r_vals r) wins) /\ validating_at (epoch + 1) w = true
                  /\ ct_pub (sr_content sr) = v_pub v
                  /\ sg_acct (sr_sig sr) = v_acct v.
Proof. exact job_serves_only_next_epoch. Qed.
Print Assumptions C11_registrations_name_next_epochs_validators_only.

(* The preparer asks the same question: every configured beacon node gets a preparation exactly for
   the provider's accounts validating at the next epoch whose settings resolve, with the resolved
   fee recipient ... *)
Theorem C11_validators_about_to_be_active_are_prepared :
  forall xs st i epoch wins p err nodes,
    nth_error xs i = Some (EPrep epoch wins p) ->
    nth_error (snd (run st (elaborate xs))) i = Some (OutPrepare err nodes) ->
    p_acct_err p = false ->
    (exists v w, In (v, w) (with_windows (p_vals p) wins) /\ validating_at (epoch + 1) w = true) ->
    err = false
    /\ exists l, nodes = map (fun _ => Some l) (p_nodes p)
       /\ (forall idx fee, In (idx, fee) l <->
             exists v w, In (v, w) (with_windows (p_vals p) wins) /\ validating_at (epoch + 1) w = true
                         /\ v_index v = idx
                         /\ (if p_cfg p then option_map rs_fee (v_res v) else Some (p_fallback p)) = Some fee).
Proof. exact preparer_prepares_next_epoch. Qed.
Print Assumptions C11_validators_about_to_be_active_are_prepared.

(* ... so the registration job and the preparer, run at the same epoch against the same provider,
   are about the same validators: nobody is registered with the relays without being prepared on
   the beacon nodes, or the other way round. *)
Theorem C11_job_and_preparer_are_about_the_same_validators :
  forall epoch wins r p,
    r_api r = false -> p_vals p = r_vals r ->
    p_vals (prep_call epoch wins p) = r_vals (job_round epoch wins r).
Proof. exact job_and_preparer_agree. Qed.
Print Assumptions C11_job_and_preparer_are_about_the_same_validators.

(* ------------------------------------------------------------------------------------------- *)
(* Non-vacuity: a history A -> B -> A of one validator (account 100, key 200) with two relays,
   the second with its own fee recipient, and a second validator whose settings cannot be
   resolved in the second round. *)
Definition ex_val (fee1 fee2 : N) (sign : list bool) : validator :=
  {| v_index := 3; v_acct := 100; v_pub := 200;
     v_res := Some {| rs_fee := fee1; rs_relays := [ {| rc_addr := 1; rc_fee := fee1; rc_gas := 30 |};
                                                      {| rc_addr := 2; rc_fee := fee2; rc_gas := 30 |} ] |};
     v_sign := sign |}.
Definition ex_other (res : bool) (sign : list bool) : validator :=
  {| v_index := 5; v_acct := 101; v_pub := 211;
     v_res := if res then Some {| rs_fee := 9; rs_relays := [ {| rc_addr := 1; rc_fee := 9; rc_gas := 30 |} ] |} else None;
     v_sign := sign |}.
Definition ex_round (now : N) (vals : list validator) (ks : list (N * rkind)) : op :=
  ORound {| r_now := now; r_cfg := true; r_api := false; r_acct_err := false; r_vals := vals;
            r_relays := ks; r_nodes := [true; false] |}.
Definition ex_ops : list op :=
  [ ex_round 10 [ex_val 1 1 []; ex_other true []] [];
    ex_round 20 [ex_other false []; ex_val 2 2 []] [(2, RErr)];
    ex_round 30 [ex_val 1 1 []; ex_other true [false]] [(1, RNoClient)];
    ex_round 40 [ex_val 1 1 []; ex_other true []] [] ].

Example C11_history_example :
  increasing ex_ops /\ accts_ok (fun p => if p =? 200 then 100 else 101) ex_ops
  /\ map (fun x => match x with
                   | OutRound _ _ relays _ => map (fun e => (fst e, map (fun sr => (ct_pub (sr_content sr), ct_fee (sr_content sr), sr_stamp sr)) (snd e))) relays
                   | _ => []
                   end) (snd (run init ex_ops))
     = [ [(1, [(200, 1, 10); (211, 9, 10)]); (2, [(200, 1, 10)])];   (* A, signed at 10 *)
         [(1, [(200, 2, 20)]); (2, [(200, 2, 20)])];                  (* B: signed at 20; 211 cannot be resolved, 200 still served *)
         [(2, [(200, 1, 30)])];                                       (* A again: re-signed at 30, not the copy of 10; relay 1 has no client *)
         [(1, [(200, 1, 30); (211, 9, 10)]); (2, [(200, 1, 30)])] ].  (* unchanged: 200's registration of 30 and 211's of 10 reused *)
Proof.
  split; [|split].
  - unfold increasing; cbn. repeat constructor.
  - intros o v Ho Hv. cbn in Ho.
    repeat (destruct Ho as [<-|Ho]; [cbn in Hv; repeat (destruct Hv as [<-|Hv]; [reflexivity|]); destruct Hv|]).
    destruct Ho.
  - vm_compute. reflexivity.
Qed.

(* Non-vacuity of the isolation theorem: the same history where validator 211 resolves and signs
   everywhere, against the one above where it does not; both are related for p' = 211. *)
Definition ex_ops' : list op :=
  [ ex_round 10 [ex_val 1 1 []; ex_other true [false]] [];
    ex_round 20 [ex_other true []; ex_val 2 2 []] [(2, RErr)];
    ex_round 30 [ex_val 1 1 []; ex_other false []] [(1, RNoClient)];
    ex_round 40 [ex_val 1 1 []; ex_other true []] [] ].

Example C11_isolation_example :
  Forall2 (rel_op 211) ex_ops ex_ops' /\ snd (run init ex_ops) <> snd (run init ex_ops').
Proof.
  split.
  - repeat constructor; cbn; try reflexivity; try (intro H; exfalso; apply H; reflexivity); try discriminate.
  - vm_compute. discriminate.
Qed.

(* Non-vacuity of [uniform_pub]: validator 200 in the first round of the example (both relay
   entries with fee recipient 1 and gas limit 30), next to validator 211. *)
Example C11_uniform_example :
  uniform_pub {| r_now := 10; r_cfg := true; r_api := false; r_acct_err := false;
                 r_vals := [ex_val 1 1 []; ex_other true []]; r_relays := []; r_nodes := [] |} 200.
Proof.
  intros v v' res res' rc rc' Hv Hv' Hp Hp' Hres Hres' Hrc Hrc'. cbn in Hv, Hv'.
  destruct Hv as [<-|[<-|[]]]; [|discriminate]. destruct Hv' as [<-|[<-|[]]]; [|discriminate].
  cbn in Hres, Hres'. injection Hres as <-. injection Hres' as <-. cbn in Hrc, Hrc'.
  destruct Hrc as [<-|[<-|[]]]; destruct Hrc' as [<-|[<-|[]]]; split; reflexivity.
Qed.

(* Non-vacuity of section 8: a preparation for three nodes, the first failing after 10 ms, the
   others healthy after 250 and 120 ms.  With a living context all three get the list; the layer is
   not trivial: a caller cancelling after 300 ms would leave the third node (in flight from 260 ms
   to 380 ms) without it -- and the first node's answer plays no part in either. *)
Definition ex_prep (k : pkind) : prepare_in :=
  {| p_cfg := true; p_fallback := 8; p_acct_err := false; p_vals := [ex_val 1 1 []]; p_nodes := [k; POk; POk] |}.
Example C11_delivery_example :
  (forall k, deliver {| t_ctx := None; t_relays := []; t_nodes := [10; 250; 120] |} (OPrepare (ex_prep k)) (step_prepare (ex_prep k))
             = OutPrepare false [Some [(3, 1)]; Some [(3, 1)]; Some [(3, 1)]])
  /\ (forall k, deliver {| t_ctx := Some 300; t_relays := []; t_nodes := [10; 250; 120] |} (OPrepare (ex_prep k)) (step_prepare (ex_prep k))
                = OutPrepare false [Some [(3, 1)]; Some [(3, 1)]; None]).
Proof. split; intros []; vm_compute; reflexivity. Qed.

(* Non-vacuity of section 9: at epoch 10 the provider knows validator 200 (activating at epoch 11:
   not in the current epoch's answer, about to be active), validator 211 (on its last epoch: exits at
   11) and a validator activating at 12.  The job's round at epoch 10 registers 200 and only 200; one
   epoch earlier it registers 211 and only 211; the preparer at epoch 10 prepares 200 (index 3). *)
Definition ex_later : validator :=
  {| v_index := 7; v_acct := 102; v_pub := 222;
     v_res := Some {| rs_fee := 4; rs_relays := [ {| rc_addr := 1; rc_fee := 4; rc_gas := 30 |} ] |}; v_sign := [] |}.
Definition ex_job (epoch now : N) : eop :=
  EJob epoch [(11, 0); (0, 11); (12, 0)]
       {| r_now := now; r_cfg := true; r_api := false; r_acct_err := false;
          r_vals := [ex_val 1 1 []; ex_other true []; ex_later]; r_relays := []; r_nodes := [] |}.
Example C11_activation_example :
  validating_at 10 (11, 0) = false /\ validating_at 11 (11, 0) = true
  /\ map (fun x => match x with
                   | OutRound _ _ relays _ => map (fun e => (fst e, map (fun sr => ct_pub (sr_content sr)) (snd e))) relays
                   | OutPrepare _ nodes => map (fun n => (0, match n with Some l => map fst l | None => [] end)) nodes
                   | _ => []
                   end)
         (snd (run_epochs init [ ex_job 9 5; ex_job 10 10;
                                 EPrep 10 [(11, 0); (0, 11); (12, 0)]
                                       {| p_cfg := true; p_fallback := 8; p_acct_err := false;
                                          p_vals := [ex_val 1 1 []; ex_other true []; ex_later]; p_nodes := [POk] |} ] []))
     = [ [(1, [211])]; [(1, [200]); (2, [200])]; [(0, [3])] ].
Proof. vm_compute. repeat split; reflexivity. Qed.
