(* C11 -- placeholder, theorems follow. *)
From Verif Require Import Lib.Base Model.C11_Registrations.
