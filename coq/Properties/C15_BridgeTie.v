(* C15 <-> C03 — C15's tie to the source carried to C03's model.

   C15 ties the window of scheduleSyncCommitteeMessages and firstEpochOfSyncPeriod to the Go source
   by translation (Properties/C15_Tie.v); C03's [sync_window] and [feosp], about which the C03
   theorems on start-up, epoch ticks and refreshes are proved, are written by hand only.  The bridge
   (Properties/C15_Bridge.v) shows the two hand-written models equal; hence C03's window and first
   epoch are equal to the gotrans transcriptions of the Go statements as well (every uint64 input
   below 2^64; the current epoch is the epoch of the current slot, as in both models). *)
From Coq Require Import ZArith NArith.
From Verif Require Import Lib.Base Lib.GoInt Gen.Pure_C03 Gen.Pure_C15 Proofs.TieLib.
From Verif Require Import Proofs.Bridge_C15C03 Proofs.Bridge_C15C03_Tie.
Local Open Scope Z_scope.

Theorem C15_bridge_tie_C03_first_epoch_of_period : forall (c : C3.config) (ae period : N),
  nu64 ae ->
  Z.of_N (C3.feosp c ae period) =
  controller_firstEpochOfSyncPeriod (Z.of_N (C3.c_period c)) (Z.of_N ae) (Z.of_N period).
Proof. exact feosp_tied. Qed.
Print Assumptions C15_bridge_tie_C03_first_epoch_of_period.

Theorem C15_bridge_tie_C03_sync_window : forall (c : C3.config) (ae epoch cur : N),
  nu64 ae -> nu64 epoch -> nu64 cur ->
  controller_syncWindow (Z.of_N (C3.c_period c)) (Z.of_N ae) (Z.of_N epoch)
                        (Z.of_N (C3.cur_epoch c cur)) (Z.of_N cur) (Z.of_N (CT.ct_spe (C3.c_ct c)))
  = (let '(fe, fs, ls) := C3.sync_window c ae cur epoch in (Z.of_N fe, Z.of_N fs, Z.of_N ls)).
Proof. exact sync_window_tied. Qed.
Print Assumptions C15_bridge_tie_C03_sync_window.

(* sanity: C03's window for a period of 256 epochs of 32 slots, fork at 0, clock at slot 9300 *)
Example C15_bridge_tie_example :
  let c := config_of_params {| C15_Sync.spe := 32; C15_Sync.epp := 256; C15_Sync.fork := 0; C15_Sync.slot_ns := 12;
                               C15_Sync.msg_delay := 4; C15_Sync.agg_delay := 8; C15_Sync.csize := 512;
                               C15_Sync.subnets := 4; C15_Sync.target := 16 |} 0 0 0 false None false in
  C3.sync_window c 0 9300 300 = (290%N, 9300%N, 16382%N) /\
  controller_syncWindow 256 0 300 290 9300 32 = (290, 9300, 16382).
Proof. vm_compute. split; reflexivity. Qed.
