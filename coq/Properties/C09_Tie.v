(* C09 — tie of the bid score to the source by translation: the statements "score := resp.score"
   to the last assignment of score in setBuilderBid of both builder-bid strategies
   (strategies/builderbid/{best,deadline}/builderbid.go; math/big operations as exact integer
   arithmetic, Div as Euclidean division) are transcribed by gotrans on every run; the model's
   [score], about which C09_score_formula / C09_winner_is_max_eligible are proved, computes the same
   from the builder's configuration. *)
From Coq Require Import ZArith NArith.
From Verif Require Import Lib.Base Lib.GoInt Gen.Pure_C09 Model.C09_Auction Proofs.TieLib Proofs.Tie_C09.
Local Open Scope Z_scope.

Theorem C09_tie_score : forall (cfgs : bconfs) (b : bid),
  let c := conf_of cfgs b in
  score cfgs b =
  builderbid_score (Z.of_N (b_value b))
                   (match bc_offset c with Some _ => true | None => false end)
                   (match bc_offset c with Some o => o | None => 0 end)
                   (match bc_factor c with Some _ => true | None => false end)
                   (match bc_factor c with Some f => f | None => 0 end).
Proof. exact tie_score. Qed.
Print Assumptions C09_tie_score.

Theorem C09_tie_score_deadline : forall v ho o hf f,
  builderbid_deadline_score v ho o hf f = builderbid_score v ho o hf f.
Proof. exact tie_score_deadline. Qed.
Print Assumptions C09_tie_score_deadline.

(* (value + offset) * factor / 100 with floor (Euclidean) division: -50/100 = -1, not 0 *)
Example C09_tie_example :
  builderbid_score 1000 true 50 true 90 = 945 /\ builderbid_score 1000 false 0 false 0 = 1000 /\
  builderbid_score 10 true (-60) true 100 = -50 /\ builderbid_score 10 true (-60) true 1 = -1.
Proof. vm_compute. repeat split. Qed.
