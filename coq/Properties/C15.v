(* C15 -- sync committee members message every slot of their period, independently.
   Property theorems only; lemmas in Proofs/C15.v (window) and Proofs/C15_Fire.v (per-slot chain),
   the model in Model/C15_Sync.v.

   Reading guide.  [window_of guarded p epoch cur] / [window_slots ...] is the slot loop of
   scheduleSyncCommitteeMessages on uint64 arithmetic ([guarded = true]: the code as it stands,
   [false]: the decrement before the repair); [schedule p i] the whole call (requests, job table,
   subscription); [fire p mem acct f] the chain prepare job -> message job -> aggregation job of
   one slot for the members [mem] (validator, committee positions), the account predicate [acct]
   and the scripted environment [f] (head root, signer / node / submitter behaviour);
   [fire_scheduled p i f] the same for a slot of a call [i] (nothing unless its prepare job exists).
   [chain_ok]: spe > 0, epp > 0 (divisors in the code), a period has at least two slots.
   [in_range]: the clock and the first slot after the period fit uint64.
   Exact specification arithmetic: [period_start] / [period_end] = first slot of the fork-clamped
   period of [epoch] / first slot after it; [spec_first] = max(period_start - 1, now) with the
   subtraction saturating at slot 0; [spec_last] = period_end - 2 (the slot before the last). *)
From Verif Require Import Lib.Base Lib.JobTab Model.C15_Sync Model.C15_Hist Check.C15 Proofs.C15 Proofs.C15_Fire Proofs.C15_Check
  Proofs.C15_Pass Proofs.C15_Hist.

(* ------------------------------------------------------------------------------------------- *)
(* C15_window.  For every chain (slots per epoch, epochs per period, fork epoch), every epoch
   argument -- period 0, the fork epoch, a period cut by the fork included -- every clock position
   and both values of notCurrentSlot, the slots the loop visits on the WRAPPED arithmetic are
   exactly the slots max(first-1, now) .. last-1 of the fork-clamped period, minus the current slot
   when told so, each once; the duties and accounts are asked for max(first epoch, current epoch)
   and the subscription runs until the first epoch of the next period. *)
Theorem C15_window :
  forall p epoch cur notcur,
    chain_ok p -> in_range p epoch cur ->
    (forall s, In s (window_slots true p epoch cur notcur) <->
               spec_first p epoch cur <= s <= spec_last p epoch /\ (notcur = true -> s <> cur))
    /\ NoDup (window_slots true p epoch cur notcur)
    /\ w_first_epoch (window_of true p epoch cur) = N.max (period_first_epoch p epoch) (cur / spe p)
    /\ w_until (window_of true p epoch cur) = period_next_epoch p epoch.
Proof.
  intros p epoch cur notcur Hok Hr. split; [|split; [|split]].
  - intros s. exact (window_slots_spec p epoch cur notcur s Hok Hr).
  - apply window_slots_NoDup.
  - rewrite (window_exact p epoch cur Hok Hr). reflexivity.
  - rewrite (window_exact p epoch cur Hok Hr). reflexivity.
Qed.
Print Assumptions C15_window.

(* Consecutive periods tile the slot line: a call for the next period made before this period ends
   starts its window exactly one slot after this period's window ends (the slot before a period's
   last slot is this period's last duty, the last slot itself is the next period's first): no slot
   without a message duty, none with two. *)
Theorem C15_windows_tile :
  forall p epoch cur,
    chain_ok p -> cur < period_end p epoch ->
    period_start p (epoch + epp p) = period_end p epoch
    /\ spec_first p (epoch + epp p) cur = spec_last p epoch + 1.
Proof. exact windows_tile. Qed.
Print Assumptions C15_windows_tile.

(* No uint64 subtraction of the repaired window wraps and no product or sum overflows:
   lastEpoch = next - 1 has next >= 1, lastSlot = FirstSlotOfEpoch(lastEpoch + 1) - 2 has a first
   operand >= 2 (and it is the exact first slot after the period), the guarded firstSlot-- is
   applied to a positive slot only. *)
Theorem C15_window_no_wrap :
  forall p epoch cur,
    chain_ok p -> in_range p epoch cur ->
    let q := epoch / epp p in
    let ne := first_epoch_of_period p (add64 q 1) in
    let fe := w_first_epoch (window_of true p epoch cur) in
    1 <= ne /\ 2 <= first_slot_of_epoch p (add64 (sub64 ne 1) 1)
    /\ ne = period_next_epoch p epoch
    /\ first_slot_of_epoch p (add64 (sub64 ne 1) 1) = period_end p epoch
    /\ first_slot_of_epoch p fe = fe * spe p
    /\ (0 < first_slot_of_epoch p fe -> 1 <= first_slot_of_epoch p fe).
Proof. exact window_no_wrap. Qed.
Print Assumptions C15_window_no_wrap.

(* The unguarded decrement (the tree before "fix: do not underflow the first sync committee message
   slot at epoch 0") computes the same window except when the first slot is slot 0 ... *)
Theorem C15_window_unguarded_same_unless_slot0 :
  forall p epoch cur,
    0 < first_slot_of_epoch p (w_first_epoch (window_of true p epoch cur)) ->
    first_slot_of_epoch p (w_first_epoch (window_of true p epoch cur)) < two64 ->
    window_of false p epoch cur = window_of true p epoch cur.
Proof. exact unguarded_same_unless_slot0. Qed.
Print Assumptions C15_window_unguarded_same_unless_slot0.

(* ... where it wraps to 2^64-1 for EVERY chain whose Altair fork is at genesis: started in epoch 0,
   it schedules nothing for the whole first period, while every later slot up to the one before
   the period's last is due (and scheduled by the repaired code). *)
Theorem C15_window_unguarded_refuted :
  forall p epoch cur notcur,
    chain_ok p -> in_range p epoch cur ->
    fork p = 0 -> epoch < epp p -> cur < spe p ->
    w_first (window_of false p epoch cur) = two64 - 1
    /\ window_slots false p epoch cur notcur = []
    /\ (forall s, cur < s <= spe p * epp p - 2 -> In s (window_slots true p epoch cur notcur)).
Proof. exact unguarded_wraps_at_epoch0. Qed.
Print Assumptions C15_window_unguarded_refuted.

(* The job table after scheduleSyncCommitteeMessages: exactly one prepare job per slot of the
   window, 1.5 slots before the slot's start -- provided the call gets that far ([ready]: some
   validator index, current epoch at or after the fork, a non-empty duties answer, accounts
   obtained); otherwise no job. *)
Theorem C15_schedule_jobs :
  forall p i k s t,
    chain_ok p -> in_range p (si_epoch i) (si_cur i) ->
    (In (k, s, t) (so_jobs (schedule p i)) <->
     ready p i /\ k = JPrepare /\ t = prepare_time p s
     /\ spec_first p (si_epoch i) (si_cur i) <= s <= spec_last p (si_epoch i)
     /\ (si_notcur i = true -> s <> si_cur i)).
Proof. exact schedule_jobs_spec. Qed.
Print Assumptions C15_schedule_jobs.

(* Before the Altair fork -- whatever the parameters, including a fork epoch of FAR_FUTURE_EPOCH
   = 2^64-1, which is outside [in_range] -- the call does nothing: no duties request, no job, no
   subscription. *)
Theorem C15_before_fork_nothing :
  forall p i, epoch_of_slot p (si_cur i) < fork p ->
    schedule p i = {| so_query := None; so_jobs := []; so_sub := None |}.
Proof. exact before_fork_nothing. Qed.
Print Assumptions C15_before_fork_nothing.

(* ------------------------------------------------------------------------------------------- *)
(* C15_message_every_slot.  For every call that reaches the loop and every slot of the window
   whose jobs run: unless a step fails for the whole batch (head root unavailable, selection
   signer or root signer error), the payload handed to SubmitSyncCommitteeMessages contains, for
   each validator that has a duty, an account and a non-zero signature, exactly one message, with
   that slot, the head root served in that slot, the validator's index and its account's signature
   over that root for the slot's epoch -- and nothing else; the message job is at
   StartOfSlot + delay. *)
Theorem C15_message_every_slot :
  forall p i f r,
    chain_ok p -> in_range p (si_epoch i) (si_cur i) -> ready p i -> in_window p i (f_slot f) ->
    f_root f = Some r -> f_sel_err f = false -> f_root_err f = false ->
    let out := fire_scheduled p i f in
    (forall s' r' v x,
       In (s', r', v, x) (opt_list (o_submitted out)) <->
       s' = f_slot f /\ r' = r /\ has_duty i v /\ holds_account i v /\ ~ In v (f_root_zero f)
       /\ x = SgRoot v (f_slot f / spe p) r)
    /\ NoDup (map msg_validator (opt_list (o_submitted out)))
    /\ o_msg_job out = Some (message_time p (f_slot f)).
Proof. exact message_every_slot. Qed.
Print Assumptions C15_message_every_slot.

(* Whatever fails, a message handed to the submitter is sound: for the fired slot, which has its
   prepare job, over the head root served in that slot, by a validator with a duty and an account,
   signed by that account for the slot's epoch. *)
Theorem C15_message_sound :
  forall p i f s' r' v x,
    In (s', r', v, x) (opt_list (o_submitted (fire_scheduled p i f))) ->
    s' = f_slot f /\ f_root f = Some r' /\ has_duty i v /\ holds_account i v
    /\ x = SgRoot v (f_slot f / spe p) r'
    /\ In (JPrepare, f_slot f, prepare_time p (f_slot f)) (so_jobs (schedule p i)).
Proof. exact message_sound. Qed.
Print Assumptions C15_message_sound.

(* Outside the window nothing happens at all. *)
Theorem C15_nothing_outside_window :
  forall p i f,
    chain_ok p -> in_range p (si_epoch i) (si_cur i) -> ~ (ready p i /\ in_window p i (f_slot f)) ->
    fire_scheduled p i f = no_fire.
Proof. exact fire_scheduled_out. Qed.
Print Assumptions C15_nothing_outside_window.

(* ------------------------------------------------------------------------------------------- *)
(* C15_independence.  Run B differs from run A only in what concerns a set [bad] of members (any
   subset): in B they may have no account ([fewer_accounts]), their message signatures and selection
   proofs may be zero or different ([same_for_others]); every other member and the whole-batch
   behaviour of the environment are the same.  Then, for every environment (failing or not):
   every message of a member outside [bad] submitted in A is submitted in B ... *)
Theorem C15_independence :
  forall p mem bad acct acct' f f' m,
    fewer_accounts bad acct acct' -> same_for_others bad f f' -> bad (msg_validator m) = false ->
    In m (opt_list (o_submitted (fire p mem acct f))) ->
    In m (opt_list (o_submitted (fire p mem acct' f'))).
Proof. exact independence_messages. Qed.
Print Assumptions C15_independence.

(* ... and conversely unless the selection signer fails as a whole (a batch that fails in A may be
   empty, hence not attempted, in B): the other members' messages are the same in both runs. *)
Theorem C15_independence_converse :
  forall p mem bad acct acct' f f' m,
    fewer_accounts bad acct acct' -> same_for_others bad f f' -> bad (msg_validator m) = false ->
    f_sel_err f = false ->
    In m (opt_list (o_submitted (fire p mem acct' f'))) ->
    In m (opt_list (o_submitted (fire p mem acct f))).
Proof. exact independence_messages_back. Qed.
Print Assumptions C15_independence_converse.

(* As an equation: when the selection signer does not fail as a whole, the sub-list of the other
   members' messages (same messages, same order, same multiplicity) is identical in both runs. *)
Theorem C15_independence_exact :
  forall p mem bad acct acct' f f',
    fewer_accounts bad acct acct' -> same_for_others bad f f' -> f_sel_err f = false ->
    filter (others bad) (opt_list (o_submitted (fire p mem acct f)))
    = filter (others bad) (opt_list (o_submitted (fire p mem acct' f'))).
Proof. exact independence_exact. Qed.
Print Assumptions C15_independence_exact.

(* The same on the inputs of scheduleSyncCommitteeMessages: the account manager holding fewer
   accounts (any subset [bad] of the validators removed) changes neither the job table nor the
   messages of the other validators, in any slot and any environment. *)
Theorem C15_independence_accounts :
  forall p i a a' (bad : N -> bool) f m,
    si_accts i = Some a ->
    (forall v, (bad v = false -> (In v a' <-> In v a)) /\ (In v a' -> In v a)) ->
    bad (msg_validator m) = false ->
    In m (opt_list (o_submitted (fire_scheduled p i f))) ->
    so_jobs (schedule p (with_accts i a')) = so_jobs (schedule p i)
    /\ In m (opt_list (o_submitted (fire_scheduled p (with_accts i a') f))).
Proof.
  intros p i a a' bad f m Ha Hs Hb Hin. split.
  - exact (schedule_jobs_with_accts p i a a' Ha).
  - exact (independence_accounts p i a a' bad f m Ha Hs Hb Hin).
Qed.
Print Assumptions C15_independence_accounts.

(* Contributions.  Full statement: "every contribution of an aggregator outside [bad] submitted in
   A is submitted in B".  Proved under two provisos that the code makes necessary: some message
   outside [bad] goes out (Message reports an error when it has nothing to submit and the
   aggregation job is then not scheduled), and the node serves the contributions B asks for (one
   failed contribution request ends Aggregate). *)
Theorem C15_independence_contributions_partial :
  forall p mem bad acct acct' f f' c,
    fewer_accounts bad acct acct' -> same_for_others bad f f' -> bad (cp_agg c) = false ->
    (exists m, In m (opt_list (o_submitted (fire p mem acct f))) /\ bad (msg_validator m) = false) ->
    (forall x, In x (aggregators p mem acct' f') -> ~ In (snd x) (f_contrib_err f')) ->
    In c (opt_list (o_contribs (fire p mem acct f))) ->
    In c (opt_list (o_contribs (fire p mem acct' f'))).
Proof. exact independence_contributions. Qed.
Print Assumptions C15_independence_contributions_partial.

(* Aggregate on its own: removing the accounts of any set of aggregators leaves every other
   aggregator's contributions. *)
Theorem C15_independence_aggregate :
  forall (bad : N -> bool) a a' c,
    a_slot a' = a_slot a -> a_aggs a' = a_aggs a -> a_cached a' = a_cached a -> a_head a' = a_head a ->
    a_contrib_err a' = a_contrib_err a -> a_cp_err a' = a_cp_err a ->
    (forall v, (bad v = false -> (In v (a_accts a') <-> In v (a_accts a)))
               /\ (In v (a_accts a') -> In v (a_accts a))) ->
    bad (cp_agg c) = false ->
    In c (opt_list (aggregate a)) -> In c (opt_list (aggregate a')).
Proof. exact independence_aggregate. Qed.
Print Assumptions C15_independence_aggregate.

(* ------------------------------------------------------------------------------------------- *)
(* C15_subcommittee_and_selection_spec.  The selection proofs are requested for exactly the
   (member with account, position / (size / subnets)) pairs; a member aggregates a subcommittee
   iff it is one of those pairs and LE64(sha256(selection proof)[0:8]) mod max(1, size / subnets /
   target) = 0 (the hash is the environment's: [f_hash8]); the guards are those of the code
   (both divisors positive). *)
Theorem C15_subcommittee_and_selection_spec :
  forall p mem acct f v c,
    0 < csize p / subnets p -> 0 < target p ->
    (In (v, c) (opt_list (o_sel_call (fire p mem acct f))) <->
     exists ps pos, In (v, ps) mem /\ acct v = true /\ In pos ps /\ c = spec_subcommittee p pos)
    /\ (In (v, c) (aggregators p mem acct f) <->
        (exists ps pos, In (v, ps) mem /\ acct v = true /\ In pos ps /\ c = spec_subcommittee p pos)
        /\ exists h, lookup3 (f_hash8 f) v c = Some h /\ spec_is_aggregator p h).
Proof.
  intros p mem acct f v c _ _. split; [|apply selection_spec].
  rewrite fire_sel_call_In, sel_pairs_In. split.
  - intros ([v' ps] & pos & Hm & Ha & Hp & Heq). cbn in *. injection Heq as -> ->. eauto 8.
  - intros (ps & pos & Hm & Ha & Hp & ->). exists (v, ps), pos. cbn. auto.
Qed.
Print Assumptions C15_subcommittee_and_selection_spec.

(* valid committee positions land in a valid subnet *)
Theorem C15_subcommittee_in_range :
  forall p pos, 0 < subnets p -> csize p mod subnets p = 0 -> pos < csize p ->
                spec_subcommittee p pos < subnets p.
Proof. exact subcommittee_lt_subnets. Qed.
Print Assumptions C15_subcommittee_in_range.

(* Every contribution handed to the submitter, whatever fails, is by a selected aggregator, for
   the fired slot and that slot's head root, with the selection proof the signer gave; the
   aggregation job was at StartOfSlot + aggregation delay. *)
Theorem C15_contribution_sound :
  forall p mem acct f c,
    In c (opt_list (o_contribs (fire p mem acct f))) ->
    In (cp_agg c, cp_subc c) (aggregators p mem acct f)
    /\ cp_slot c = f_slot f /\ f_root f = Some (cp_root c)
    /\ cp_proof c = sel_sig f (cp_agg c, cp_subc c) /\ cp_sig c = SgCP (cp_agg c) (f_slot f) (cp_subc c)
    /\ o_agg_job (fire p mem acct f) = Some (aggregate_time p (f_slot f)).
Proof. exact contribution_sound. Qed.
Print Assumptions C15_contribution_sound.

(* When the messages went out and neither the node nor the contribution signer fails, every
   selected (member, subcommittee) has its contribution. *)
Theorem C15_contribution_complete :
  forall p mem acct f r v sc,
    f_root f = Some r -> message_ok p mem acct f r = true ->
    (forall x, In x (aggregators p mem acct f) -> ~ In (snd x) (f_contrib_err f)) -> f_cp_err f = false ->
    In (v, sc) (aggregators p mem acct f) ->
    In {| cp_agg := v; cp_slot := f_slot f; cp_subc := sc; cp_root := r;
          cp_proof := sel_sig f (v, sc); cp_sig := SgCP v (f_slot f) sc |}
       (opt_list (o_contribs (fire p mem acct f)))
    /\ o_agg_job (fire p mem acct f) = Some (aggregate_time p (f_slot f)).
Proof. exact contribution_complete. Qed.
Print Assumptions C15_contribution_complete.

(* ------------------------------------------------------------------------------------------- *)
(* The boolean predicate the check evaluates on the OBSERVED outputs of the implementation
   (Check.C15.P_b) is sound for the statements above: a case that passes it has the job table of
   C15_schedule_jobs and, for every fired slot, a payload that is sound and complete in the sense
   of C15_message_every_slot (nothing outside the window). *)
Theorem C15_check_predicate_sound :
  forall c,
    P_b c = true -> chain_ok (c_par c) -> (0 <= slot_ns (c_par c))%Z ->
    let p := c_par c in let i := c_in c in
    (forall k s t, In (k, s, t) (so_jobs (c_out c)) <->
       ready p i /\ k = JPrepare /\ t = prepare_time p s
       /\ spec_first p (si_epoch i) (si_cur i) <= s <= spec_last p (si_epoch i)
       /\ (si_notcur i = true -> s <> si_cur i))
    /\ NoDup (so_jobs (c_out c))
    /\ length (c_fouts c) = length (c_fires c)
    /\ forall k f o, nth_error (c_fires c) k = Some f -> nth_error (c_fouts c) k = Some o -> ready p i ->
         (~ in_window p i (f_slot f) -> opt_list (o_submitted o) = [])
         /\ (in_window p i (f_slot f) -> forall r, f_root f = Some r ->
             (forall s' r' v x, In (s', r', v, x) (opt_list (o_submitted o)) ->
                s' = f_slot f /\ r' = r /\ has_duty i v /\ holds_account i v /\ x = SgRoot v (f_slot f / spe p) r)
             /\ NoDup (map msg_validator (opt_list (o_submitted o)))
             /\ (f_sel_err f = false -> f_root_err f = false ->
                 forall v, has_duty i v -> holds_account i v -> ~ In v (f_root_zero f) ->
                   In (f_slot f, r, v, SgRoot v (f_slot f / spe p) r) (opt_list (o_submitted o)))
             /\ (f_sel_err f = false -> o_msg_job o = Some (message_time p (f_slot f)))).
Proof. exact P_b_sound. Qed.
Print Assumptions C15_check_predicate_sound.

(* ... the observed selection-signer call, root-signer call (slot's epoch, slot's head root, no nil
   hole, only members with an account), aggregation job and contributions are those of
   C15_subcommittee_and_selection_spec / C15_contribution_sound / C15_contribution_complete ... *)
Theorem C15_check_predicate_sound_contributions :
  forall c,
    P_b c = true -> chain_ok (c_par c) ->
    let p := c_par c in let i := c_in c in
    forall k f o r, nth_error (c_fires c) k = Some f -> nth_error (c_fouts c) k = Some o ->
      ready p i -> in_window p i (f_slot f) -> f_root f = Some r ->
      let aggs := aggregators p (members i) (has_account i) f in
      (forall x, In x (opt_list (o_sel_call o)) <-> In x (sel_pairs p (members i) (has_account i)))
      /\ (forall c, In c (opt_list (o_contribs o)) ->
           In (cp_agg c, cp_subc c) aggs /\ c = mk_contrib f r (cp_agg c, cp_subc c))
      /\ NoDup (map (fun c => (cp_agg c, cp_subc c)) (opt_list (o_contribs o)))
      /\ (f_sel_err f = false -> f_root_err f = false -> f_submit_err f = false ->
          (exists v, has_duty i v /\ holds_account i v /\ ~ In v (f_root_zero f)) ->
          (aggs = [] -> o_agg_job o = None)
          /\ (aggs <> [] -> o_agg_job o = Some (aggregate_time p (f_slot f))
              /\ (f_cp_err f = false -> (forall x, In x aggs -> ~ In (snd x) (f_contrib_err f)) ->
                  forall x, In x aggs -> In (mk_contrib f r x) (opt_list (o_contribs o)))))
      /\ (forall accts e rr, o_root_call o = Some (accts, e, rr) ->
            e = f_slot f / spe p /\ rr = r
            /\ forall a, In a accts -> exists v, a = Some v /\ has_duty i v /\ holds_account i v).
Proof. exact P_b_sound_contributions. Qed.
Print Assumptions C15_check_predicate_sound_contributions.

(* ... and a direct Aggregate call submitted exactly the contributions of the aggregators that
   have an account, each once, all of them unless the node or the contribution signer fails. *)
Theorem C15_check_predicate_sound_aggregate :
  forall c a o,
    P_b c = true -> c_agg c = Some (a, o) ->
    (forall c, In c (opt_list o) ->
       exists r, agg_root a = Some r /\ In (cp_agg c, cp_subc c) (agg_items a)
                 /\ c = agg_contrib a r (cp_agg c, cp_subc c))
    /\ NoDup (map (fun c => (cp_agg c, cp_subc c)) (opt_list o))
    /\ (forall r, agg_root a = Some r -> a_cp_err a = false ->
        (forall x, In x (agg_items a) -> ~ In (snd x) (a_contrib_err a)) ->
        forall x, In x (agg_items a) -> In (agg_contrib a r x) (opt_list o)).
Proof. exact P_b_sound_aggregate. Qed.
Print Assumptions C15_check_predicate_sound_aggregate.

(* Conversely the predicate is never stronger than what the model does: on every input in range, a
   case on which the implementation agrees with the model (Check.C15.agree) passes P_b.  So on a
   tree that still is the model the predicate cannot raise an alarm, and a tree that fails P_b on
   some input necessarily disagrees with the model there.  (A direct Aggregate call must list each
   (aggregator, subcommittee) once: SelectionProofs is a map per validator.  Every call of a
   history is in range and every refresh is for a period that does not begin at slot 0.) *)
Theorem C15_agreement_implies_check :
  forall c,
    chain_ok (c_par c) -> in_range (c_par c) (si_epoch (c_in c)) (si_cur (c_in c)) ->
    (0 <= slot_ns (c_par c))%Z ->
    (forall a o, c_agg c = Some (a, o) -> NoDup (agg_items a)) ->
    Forall (hop_ok (c_par c)) (c_hist c) ->
    agree c = true -> P_b c = true.
Proof. exact model_passes_check. Qed.
Print Assumptions C15_agreement_implies_check.

(* ------------------------------------------------------------------------------------------- *)
(* Histories on one controller and one scheduler (Model/C15_Hist.v): calls of
   scheduleSyncCommitteeMessages, refreshes of a period's duties after a reorganisation
   (refreshSyncCommitteeDutiesForEpochPeriod), slots firing, in any order.  [hstep p t o] is one
   operation on the table [t] of pending prepare jobs (slot -> the call whose duty the job holds),
   [hfinal p t ops] the table after a history.
   [in_period_window p e s]: s lies between the slot before the first slot of the period of e and
   the slot before its last (exact arithmetic).  [refresh_ok p e]: the period of e fits uint64 and
   does not begin at slot 0 (a refresh is asked for the period after the current one).
   [keeps p s o]: o is a call, a refresh of a period whose window does not hold s, or the firing
   of another slot. *)

(* C15_refresh_cancels_only_its_period.  On the wrapped arithmetic, the slots whose jobs a refresh
   cancels are exactly those of the message window of the refreshed period; the job of any other
   slot -- in particular of every remaining slot of the CURRENT period when the NEXT period is
   refreshed -- is still there afterwards, with the duty it was scheduled with. *)
Theorem C15_refresh_cancels_only_its_period :
  forall p e,
    chain_ok p -> refresh_ok p e ->
    (forall s, in_rangeb (fst (refresh_range p e)) (snd (refresh_range p e)) s = true <-> in_period_window p e s)
    /\ (forall t i s i0, ~ in_period_window p e s -> tab_get t s = Some i0 ->
          tab_get (fst (hstep p t (HRefresh e i))) s = Some i0)
    /\ (forall t i s, in_period_window p e s ->
          tab_get (fst (hstep p t (HRefresh e i))) s = if existsb (N.eqb s) (sched_slots p i) then Some i else None).
Proof.
  intros p e Hok Hrf. split; [|split].
  - intros s. exact (refresh_cancels_spec p e s Hok Hrf).
  - intros t i s i0 Hout H. exact (refresh_keeps p t e i s i0 Hok Hrf Hout H).
  - intros t i s Hin. exact (refresh_replaces p t e i s Hok Hrf Hin).
Qed.
Print Assumptions C15_refresh_cancels_only_its_period.

(* C15_history_message_every_slot.  Once a call i has scheduled slot s, then after ANY further
   history that leaves the slot alone (calls for this or other periods, refreshes of other periods,
   other slots firing; any length, any order) the slot's jobs do exactly what they do right after
   the call, [fire_scheduled p i f] -- to which C15_message_every_slot, the independence theorems
   and the contribution theorems apply -- and the slot's job is consumed. *)
Theorem C15_history_message_every_slot :
  forall p t i ops f,
    chain_ok p ->
    tab_get t (f_slot f) = None -> In (f_slot f) (sched_slots p i) ->
    Forall (keeps p (f_slot f)) ops ->
    let t' := hfinal p (fst (hstep p t (HSched i))) ops in
    snd (hstep p t' (HFire f)) = Some (fire_scheduled p i f)
    /\ tab_get (fst (hstep p t' (HFire f))) (f_slot f) = None.
Proof. exact history_message_every_slot. Qed.
Print Assumptions C15_history_message_every_slot.

(* ... and a slot of a refreshed period messages for the refreshed duties, whatever job it had. *)
Theorem C15_history_message_after_refresh :
  forall p t e i ops f,
    chain_ok p -> refresh_ok p e -> in_period_window p e (f_slot f) ->
    In (f_slot f) (sched_slots p i) ->
    Forall (keeps p (f_slot f)) ops ->
    let t' := hfinal p (fst (hstep p t (HRefresh e i))) ops in
    snd (hstep p t' (HFire f)) = Some (fire_scheduled p i f).
Proof. exact history_message_after_refresh. Qed.
Print Assumptions C15_history_message_after_refresh.

(* C15_check_predicate_sound_history.  What P_b accepts of a history: at every fired slot the
   observed outcome passes the per-slot predicate (of C15_check_predicate_sound) for the call under
   which the specification's table [spec_tab] (exact arithmetic) owes the slot, nothing is
   submitted for a slot that is not owed, and the observed job list after the operation is one
   prepare job, 1.5 slots early, per owed slot. *)
Theorem C15_check_predicate_sound_history :
  forall c ops1 f ops2,
    P_b c = true -> c_hist c = ops1 ++ HFire f :: ops2 ->
    let p := c_par c in
    exists jobs out, nth_error (c_hobs c) (length ops1) = Some (jobs, Some out)
      /\ (forall i, tab_get (spec_tab p ops1) (f_slot f) = Some i -> spec_fire_ok p i f out = true)
      /\ (tab_get (spec_tab p ops1) (f_slot f) = None -> opt_list (o_submitted out) = [])
      /\ (forall k s tm, In (k, s, tm) jobs <->
            k = JPrepare /\ tm = (Z.of_N s * slot_ns p - slot_ns p * 6 / 4)%Z
            /\ In s (map fst (spec_tab p (ops1 ++ [HFire f])))).
Proof.
  intros c ops1 f ops2 H Hh p. unfold P_b in H. apply andb_true_iff in H as [_ H]. rewrite Hh in H.
  exact (hist_check_sound p ops1 f ops2 (c_hobs c) H).
Qed.
Print Assumptions C15_check_predicate_sound_history.

(* ------------------------------------------------------------------------------------------- *)
(* Non-vacuity. *)

Definition ex_p : params :=
  {| spe := 4; epp := 2; fork := 0; slot_ns := 12000000000; msg_delay := 4000000000;
     agg_delay := 8000000000; csize := 32; subnets := 4; target := 2 |}.

(* the first period from epoch 0: slots 1..6 (0 is "now" and excluded), nothing before the repair *)
Example C15_window_example :
  chain_ok ex_p /\ in_range ex_p 0 0
  /\ window_slots true ex_p 0 0 true = [1; 2; 3; 4; 5; 6]
  /\ window_slots false ex_p 0 0 true = []
  /\ window_slots true ex_p 2 3 false = [7; 8; 9; 10; 11; 12; 13; 14].
Proof. unfold chain_ok, in_range. repeat split; try (vm_compute; reflexivity); try (vm_compute; discriminate). Qed.

(* why a period of one slot is excluded: lastSlot wraps and the loop would not end *)
Example C15_one_slot_period_wraps :
  let p := {| spe := 1; epp := 1; fork := 0; slot_ns := 1; msg_delay := 0; agg_delay := 0; csize := 1; subnets := 1; target := 1 |} in
  w_last (window_of true p 0 0) = two64 - 1.
Proof. vm_compute. reflexivity. Qed.

Definition ex_i : sched_in :=
  {| si_epoch := 0; si_cur := 0; si_notcur := true; si_indices := [5; 6; 7];
     si_duties := Some [(5, [9]); (6, [17; 3]); (7, [30])]; si_accts := Some [5; 7] |}.
Definition ex_f : fire_in :=
  {| f_slot := 6; f_root := Some 12; f_slot_root := None; f_sel_slow := true; f_sel_err := false; f_sel_zero := [];
     f_hash8 := [(5, 1, 0); (7, 3, 5)]; f_root_err := false; f_root_zero := [];
     f_submit_err := false; f_contrib_err := []; f_cp_err := false |}.

(* three members, 6 without account: 5 and 7 message in the last slot of the window; 5 aggregates *)
Example C15_message_example :
  ready ex_p ex_i /\ in_window ex_p ex_i 6
  /\ o_submitted (fire_scheduled ex_p ex_i ex_f) = Some [(6, 12, 5, SgRoot 5 1 12); (6, 12, 7, SgRoot 7 1 12)]
  /\ option_map (map (fun c => (cp_agg c, cp_subc c))) (o_contribs (fire_scheduled ex_p ex_i ex_f)) = Some [(5, 1)].
Proof.
  split; [|split; [|split]].
  - unfold ready. split; [discriminate|]. split; [vm_compute; discriminate|]. split; [cbn; eauto | discriminate].
  - unfold in_window. vm_compute. split; [split; discriminate | discriminate].
  - vm_compute. reflexivity.
  - vm_compute. reflexivity.
Qed.

(* independence instance: member 5 also loses its account and 7's signature ... stays: 7 still messages *)
Example C15_independence_example :
  let bad := fun v => v =? 5 in
  let acct := has_account ex_i in
  let acct' := fun v => acct v && negb (bad v) in
  fewer_accounts bad acct acct' /\ same_for_others bad ex_f ex_f
  /\ In (6, 12, 7, SgRoot 7 1 12) (opt_list (o_submitted (fire ex_p (members ex_i) acct' ex_f))).
Proof.
  split; [|split].
  - intros v. cbv beta zeta. destruct (v =? 5).
    + rewrite andb_false_r. split; discriminate.
    + rewrite andb_true_r. split; auto.
  - unfold same_for_others. repeat split; reflexivity.
  - vm_compute. auto.
Qed.

(* a history: start-up in the first epoch of period 1 (slots 8..15; clock at slot 8), then the
   refresh of period 2 after a reorganisation: slot 13 of the running period still has its job and
   messages for the start-up call's members; had every sync committee job been cancelled instead
   (cancellation by job-name prefix) the slot would have nothing to run *)
Definition ex_h1 : sched_in :=
  {| si_epoch := 2; si_cur := 8; si_notcur := true; si_indices := [5; 6; 7];
     si_duties := Some [(5, [9]); (6, [17; 3]); (7, [30])]; si_accts := Some [5; 7] |}.
Definition ex_h2 : sched_in :=
  {| si_epoch := 4; si_cur := 8; si_notcur := false; si_indices := [5; 7];
     si_duties := Some [(7, [2])]; si_accts := Some [5; 7] |}.
Definition ex_hf : fire_in :=
  {| f_slot := 13; f_root := Some 12; f_slot_root := None; f_sel_slow := false; f_sel_err := false; f_sel_zero := [];
     f_hash8 := []; f_root_err := false; f_root_zero := [];
     f_submit_err := false; f_contrib_err := []; f_cp_err := false |}.

Example C15_history_example :
  refresh_ok ex_p 4 /\ ~ in_period_window ex_p 4 13 /\ in_period_window ex_p 4 15
  /\ sched_slots ex_p ex_h1 = [9; 10; 11; 12; 13; 14]
  /\ sched_slots ex_p ex_h2 = [15; 16; 17; 18; 19; 20; 21; 22]
  /\ option_map o_submitted (snd (hstep ex_p (hfinal ex_p [] [HSched ex_h1; HRefresh 4 ex_h2]) (HFire ex_hf)))
     = Some (Some [(13, 12, 5, SgRoot 5 3 12); (13, 12, 7, SgRoot 7 3 12)])
  /\ snd (hstep ex_p (tab_del (hfinal ex_p [] [HSched ex_h1]) (fun _ => true)) (HFire ex_hf)) = Some no_fire.
Proof.
  split; [|split; [|split; [|split; [|split; [|split]]]]].
  - unfold refresh_ok, in_range. repeat split; vm_compute; reflexivity.
  - unfold in_period_window. vm_compute. intros [H _]. apply H. reflexivity.
  - unfold in_period_window. vm_compute. split; discriminate.
  - vm_compute. reflexivity.
  - vm_compute. reflexivity.
  - vm_compute. reflexivity.
  - vm_compute. reflexivity.
Qed.
