(* C15 — tie of the message window to the source by translation: the statements
   "period := ..." to "lastSlot := ..." of scheduleSyncCommitteeMessages and
   firstEpochOfSyncPeriod (services/controller/standard/synccommitteemessenger.go), with
   chaintime's FirstSlotOfEpoch, are transcribed by gotrans on every run; the hand-written
   window_of (guarded form), about which C15_window is proved, computes the same triple. *)
From Coq Require Import ZArith NArith.
From Verif Require Import Lib.Base Lib.GoInt Gen.Pure_C03 Gen.Pure_C15 Model.C15_Sync Proofs.TieLib Proofs.Tie_C15.
Local Open Scope Z_scope.

Theorem C15_tie_first_epoch_of_period : forall (p : params) (period : N),
  nu64 (fork p) ->
  Z.of_N (first_epoch_of_period p period) =
  controller_firstEpochOfSyncPeriod (Z.of_N (epp p)) (Z.of_N (fork p)) (Z.of_N period).
Proof. exact tie_first_epoch_of_period. Qed.
Print Assumptions C15_tie_first_epoch_of_period.

(* every uint64 input below 2^64; the current epoch is the epoch of the current slot *)
Theorem C15_tie_sync_window : forall (p : params) (epoch cur : N),
  nu64 (fork p) -> nu64 epoch -> nu64 cur ->
  let w := window_of true p epoch cur in
  controller_syncWindow (Z.of_N (epp p)) (Z.of_N (fork p)) (Z.of_N epoch)
                        (Z.of_N (epoch_of_slot p cur)) (Z.of_N (spe p)) (Z.of_N cur)
  = (Z.of_N (w_first_epoch w), Z.of_N (w_first w), Z.of_N (w_last w)).
Proof. exact tie_sync_window. Qed.
Print Assumptions C15_tie_sync_window.

(* subcommittee of a committee position (Prepare), selection modulo and selection test
   (getAggregatorsSignatureData; the first eight digest bytes as a little-endian value are an input) *)
Theorem C15_tie_subcommittee : forall (p : params) (pos : N),
  Z.of_N (subcommittee p pos) = syncmessenger_subcommittee (Z.of_N (csize p)) (Z.of_N (subnets p)) (Z.of_N pos).
Proof. exact tie_subcommittee. Qed.
Print Assumptions C15_tie_subcommittee.

Theorem C15_tie_selection_modulo : forall (p : params),
  Z.of_N (modulo p) = syncmessenger_selectionModulo (Z.of_N (csize p)) (Z.of_N (subnets p)) (Z.of_N (target p)).
Proof. exact tie_selection_modulo. Qed.
Print Assumptions C15_tie_selection_modulo.

Theorem C15_tie_is_aggregator : forall (p : params) (hash8 : N),
  is_aggregator p hash8 = syncmessenger_shouldInclude (Z.of_N (modulo p)) (Z.of_N hash8).
Proof. exact tie_sync_is_aggregator. Qed.
Print Assumptions C15_tie_is_aggregator.

(* sanity: period of 256 epochs of 32 slots, started in epoch 0 at slot 0: first slot 0 (no wrap),
   last slot 256*32-2 *)
Example C15_tie_example :
  controller_syncWindow 256 0 0 0 32 0 = (0, 0, 8190) /\
  controller_syncWindow 256 0 300 290 32 9300 = (290, 9300, 16382).
Proof. vm_compute. split; reflexivity. Qed.
