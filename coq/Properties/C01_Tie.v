(* C01 — tie of the attestation-data validation to the source by translation: gotrans regenerates
   the transcription of validateAttestationData (services/attester/standard/attest.go) on every run;
   the model's [valid_data], on which C01_signed_is_valid and C01_invalid_refused rest, decides
   exactly what the transcription decides (true = the Go function returns nil). *)
From Coq Require Import ZArith NArith.
From Verif Require Import Lib.Base Lib.GoInt Gen.Pure_C01 Model.C01_Attester Proofs.TieLib Proofs.Tie_C01.

Theorem C01_tie_valid_data : forall (spe : N) (d : duty) (a : adata),
  valid_data spe d a =
  attester_validateAttestationData (Z.of_N spe) (Z.of_N (a_slot a)) (Z.of_N (d_slot d)) (Z.of_N (a_src a)) (Z.of_N (a_tgt a)).
Proof. exact tie_valid_data. Qed.
Print Assumptions C01_tie_valid_data.

(* the transcription accepts exactly: data slot = duty slot, source <= target, target = epoch of the slot *)
Example C01_tie_example :
  attester_validateAttestationData 32 100 100 2 3 = true /\
  attester_validateAttestationData 32 100 100 2 2 = false /\   (* target below the duty epoch: the repaired defect *)
  attester_validateAttestationData 32 100 100 4 3 = false /\
  attester_validateAttestationData 32 101 100 2 3 = false.
Proof. vm_compute. repeat split. Qed.
