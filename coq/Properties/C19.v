(* C19 — hierarchical settings resolve to the most specific configured value.  Property theorems only.

   Vocabulary (Model/C19_Hierarchy.v):
   - [config]: the leaves of any configuration tree; [get c key]: what viper.Get returns for the
     component list [key] (a raw value, RNil when absent, RMap for an inner node);
   - [beacon_node_addresses], [timeout], [log_level def], [process_concurrency],
     [hierarchical_bool var]: the five Go functions, transcribed on the dotted path *string*
     (look up path+"."+setting; if it has a value return it; else cut the path at its last '.' and
     recurse; "" reads the top-level setting);
   - "has a value": [addr_has] non-empty list, [dur_has] non-zero duration, [str_nonempty]
     non-empty string (log level, process concurrency, hierarchical booleans);
   - [resolves has conv top setting c p v]:
        either some k in 1..|p| has a value at (first k components of p)+setting, no longer prefix of
        p has one, and v is the converted value found there;
        or no non-empty prefix of p has a value and v is the top-level reading [top c];
   - [proper_path s]: the string does not start with '.'; [path_of_string s]: its components
     ("" is the empty path); [wf_path p]: no component contains '.', the first is not "";
     [join_dots p] is the dotted string of p.  Every path vouch passes is proper.
   All theorems hold for every configuration (values present, absent, zero, empty, malformed at
   any level) and every such path. *)
From Verif Require Import Lib.Base Model.C19_Hierarchy Proofs.C19 Proofs.C19_History Check.C19 Proofs.C19_Check Proofs.C19_Levels.
Local Open Scope list_scope.

Notation len := List.length.

(* ---- the five settings: the value used is the one at the longest prefix that has a value ---- *)
(* For every configuration and every path string that does not start with '.' (including "", "a.",
   "a..b"): the Go function's result is related by [resolves] to the path the string denotes. *)

Theorem C19_longest_prefix_addresses :
  forall (c : config) (s : string), proper_path s ->
    resolves addr_has to_slice addr_top k_addresses c (path_of_string s) (beacon_node_addresses c s).
Proof.
  intros c s H. unfold beacon_node_addresses. rewrite lookup_s_proper by (reflexivity || exact H).
  apply lookup_resolves.
Qed.
Print Assumptions C19_longest_prefix_addresses.

Theorem C19_longest_prefix_timeout :
  forall (c : config) (s : string), proper_path s ->
    resolves dur_has to_duration dur_top k_timeout c (path_of_string s) (timeout c s).
Proof.
  intros c s H. unfold timeout. rewrite lookup_s_proper by (reflexivity || exact H).
  apply lookup_resolves.
Qed.
Print Assumptions C19_longest_prefix_timeout.

Theorem C19_longest_prefix_log_level :
  forall (def : Z) (c : config) (s : string), proper_path s ->
    resolves str_nonempty (level_of def) (level_top def) k_loglevel c (path_of_string s) (log_level def c s).
Proof.
  intros def c s H. unfold log_level. rewrite lookup_s_proper by (reflexivity || exact H).
  apply lookup_resolves.
Qed.
Print Assumptions C19_longest_prefix_log_level.

Theorem C19_longest_prefix_process_concurrency :
  forall (c : config) (s : string), proper_path s ->
    resolves str_nonempty to_int64 conc_top k_concurrency c (path_of_string s) (process_concurrency c s).
Proof.
  intros c s H. unfold process_concurrency. rewrite lookup_s_proper by (reflexivity || exact H).
  apply lookup_resolves.
Qed.
Print Assumptions C19_longest_prefix_process_concurrency.

Theorem C19_longest_prefix_hierarchical_bool :
  forall (var : comp) (c : config) (s : string), dot_free var = true -> proper_path s ->
    resolves str_nonempty to_bool (bool_top var) var c (path_of_string s) (hierarchical_bool var c s).
Proof.
  intros var c s Hv H. unfold hierarchical_bool. rewrite lookup_s_proper by assumption.
  apply lookup_resolves.
Qed.
Print Assumptions C19_longest_prefix_hierarchical_bool.

(* Proper strings and well-formed component paths are the same thing: every proper string is the
   dotted form of the well-formed path it denotes, and the dotted form of a well-formed path is a
   proper string denoting that path.  (The theorems below are stated on component paths.) *)
Theorem C19_proper_strings_are_wf_paths :
  (forall s, proper_path s -> wf_path (path_of_string s) /\ join_dots (path_of_string s) = s) /\
  (forall p, wf_path p -> proper_path (join_dots p) /\ path_of_string (join_dots p) = p).
Proof.
  split.
  - exact proper_path_wf.
  - intros p H. split; [apply wf_path_proper, H | apply path_of_string_join, H].
Qed.
Print Assumptions C19_proper_strings_are_wf_paths.

(* ---- the relation is tight, and is what the check evaluates ---- *)

(* [resolves] determines the value, and the executable reference [longest_prefix_value] (all
   prefixes, filtered by "has a value", the last one) computes it: for any test, conversion,
   top-level reading and setting. *)
Theorem C19_reference_characterised :
  forall (V : Type) (has : raw -> bool) (conv : raw -> V) (top : config -> V) (setting : comp)
         (c : config) (p : path) (v : V),
    resolves has conv top setting c p v <-> v = longest_prefix_value has conv top setting c p.
Proof. intros. apply resolves_iff_reference. Qed.
Print Assumptions C19_reference_characterised.

(* The Go recursion on the dotted string (cut at the last '.') is the recursion on components (drop
   the last one), which is the reference — any setting, any proper string. *)
Theorem C19_string_lookup_is_reference :
  forall (V : Type) (has : raw -> bool) (conv : raw -> V) (top : config -> V) (setting : comp)
         (c : config) (s : string),
    dot_free setting = true -> proper_path s ->
    lookup_s has conv top setting c s = longest_prefix_value has conv top setting c (path_of_string s).
Proof.
  intros V has conv top setting c s Hs Hp.
  rewrite lookup_s_proper by assumption. apply lookup_eq_reference.
Qed.
Print Assumptions C19_string_lookup_is_reference.

(* What the correspondence check's predicate P_b means: if it holds of a case, then every value the
   implementation returned is the one the property demands for the queried path (address lists are
   compared as lists: nil and empty are the same) in the configuration AS IT STOOD WHEN THE CALL WAS
   MADE: the first calls in the installed tree, the calls of every later phase in the tree reached by
   the changes made so far on the same viper instance ([later_ok], [apply_changes]); the calls made by
   several goroutines at the same time on the installed tree ([c_parallel]) are held to the same
   standard as the sequential ones. *)
Theorem C19_P_b_sound :
  forall cs : case, P_b cs = true ->
    Forall (query_ok (c_cfg cs) (c_deflevel cs)) (c_queries cs) /\
    Forall (Forall (query_ok (c_cfg cs) (c_deflevel cs))) (c_parallel cs) /\
    later_ok (c_cfg cs, c_deflevel cs) (c_later cs).
Proof. exact P_b_sound. Qed.
Print Assumptions C19_P_b_sound.

(* Concurrent callers.  The configuration standing still, the value used for a path does not depend on
   who else is resolving a path at the same moment: the relation [resolves] determines the value from
   the configuration and the path alone, so if P_b holds of a case, any two of its calls on the
   installed tree - sequential, or made by different goroutines at the same time, any number of times -
   with the same arguments returned the same value, and it is the longest-prefix one
   (C19_P_b_sound).  [c_parallel] lists every DISTINCT answer each goroutine saw. *)
Theorem C19_concurrent_callers_agree :
  forall cs : case, P_b cs = true ->
    forall q1 q2, In q1 (calls_on_installed cs) -> In q2 (calls_on_installed cs) -> same_answer q1 q2.
Proof. exact P_b_callers_agree. Qed.
Print Assumptions C19_concurrent_callers_agree.

(* ---- a configuration that changes between calls ---- *)
(* The functions keep nothing between calls; the property is about the tree as it stands. *)

(* A value set at level p (below the top level) is what every later lookup of a path through p
   returns, unless a deeper level of that path has a value of its own - whatever was looked up
   before the change. *)
Theorem C19_change_is_seen :
  forall (V : Type) (has : raw -> bool) (conv : raw -> V) (top : config -> V) (setting : comp)
         (c : config) (p q : path) (r : raw),
    dot_free setting = true -> wf_path (p ++ q) -> p <> [] -> has r = true ->
    (forall j, (1 <= j <= len q)%nat -> has (get c ((p ++ firstn j q) ++ [setting])) = false) ->
    lookup_s has conv top setting (set_leaf (p ++ [setting]) r c) (join_dots (p ++ q)) = conv r.
Proof.
  intros V has conv top setting c p q r Hs Hwf Hp Hr Hq.
  rewrite lookup_s_join by assumption.
  exact (lookup_change_seen has conv top setting c p q r Hp Hr Hq).
Qed.
Print Assumptions C19_change_is_seen.

(* A changed top-level setting is read at once by every path none of whose levels has a value. *)
Theorem C19_top_level_change_is_seen :
  forall (V : Type) (has : raw -> bool) (conv : raw -> V) (top : config -> V) (setting : comp)
         (c : config) (p : path) (r : raw),
    dot_free setting = true -> wf_path p ->
    (forall j, (1 <= j <= len p)%nat -> has (get c (firstn j p ++ [setting])) = false) ->
    lookup_s has conv top setting (set_leaf [setting] r c) (join_dots p) = top (set_leaf [setting] r c).
Proof.
  intros V has conv top setting c p r Hs Hwf Hno.
  rewrite lookup_s_join by assumption.
  exact (lookup_top_change_seen has conv top setting c p r Hno).
Qed.
Print Assumptions C19_top_level_change_is_seen.

(* A value that disappears from level p.x uncovers, for every path through p.x with nothing deeper,
   the result of p in the new tree.  (All three "has a value" tests reject an absent value and an
   inner node.) *)
Theorem C19_removal_is_seen :
  forall (V : Type) (has : raw -> bool) (conv : raw -> V) (top : config -> V) (setting : comp)
         (c : config) (p : path) (x : comp) (q : path),
    dot_free setting = true -> wf_path p -> wf_path ((p ++ [x]) ++ q) ->
    has RNil = false -> has RMap = false ->
    (forall j, (1 <= j <= len q)%nat -> has (get c (((p ++ [x]) ++ firstn j q) ++ [setting])) = false) ->
    lookup_s has conv top setting (del_leaf ((p ++ [x]) ++ [setting]) c) (join_dots ((p ++ [x]) ++ q)) =
    lookup_s has conv top setting (del_leaf ((p ++ [x]) ++ [setting]) c) (join_dots p).
Proof.
  intros V has conv top setting c p x q Hs Hp Hwf Hnil Hmap Hq.
  rewrite !lookup_s_join by assumption.
  exact (lookup_removal_seen has conv top setting c p x q Hnil Hmap Hq).
Qed.
Print Assumptions C19_removal_is_seen.

(* ---- consequences ---- *)

(* An explicit false at a deeper level wins over whatever (e.g. true) is configured above it. *)
Theorem C19_explicit_false_wins :
  forall (var : comp) (c : config) (p : path) (k : nat), dot_free var = true -> wf_path p ->
    (1 <= k <= len p)%nat ->
    (get c (firstn k p ++ [var]) = RBool false \/ get c (firstn k p ++ [var]) = RStr "false") ->
    (forall j, (k < j <= len p)%nat -> str_nonempty (get c (firstn j p ++ [var])) = false) ->
    hierarchical_bool var c (join_dots p) = false.
Proof.
  intros var c p k Hv Hp Hk Hget Hdeeper. unfold hierarchical_bool.
  rewrite lookup_s_join by assumption.
  rewrite (lookup_decided str_nonempty to_bool (bool_top var) var c p k Hk).
  - destruct Hget as [-> | ->]; reflexivity.
  - unfold valued. destruct Hget as [-> | ->]; reflexivity.
  - exact Hdeeper.
Qed.
Print Assumptions C19_explicit_false_wins.

(* A level whose value fails the "has a value" test is transparent: the result for path.x is the
   result for path.  In particular an explicit zero timeout, an empty address list and an empty
   log-level string at the deeper level fall through to the parent. *)
Theorem C19_level_without_value_is_skipped :
  forall (V : Type) (has : raw -> bool) (conv : raw -> V) (top : config -> V) (setting : comp)
         (c : config) (p : path) (x : comp),
    dot_free setting = true -> wf_path (p ++ [x]) ->
    has (get c ((p ++ [x]) ++ [setting])) = false ->
    lookup_s has conv top setting c (join_dots (p ++ [x])) = lookup_s has conv top setting c (join_dots p).
Proof.
  intros V has conv top setting c p x Hs Hwf Hno.
  destruct (wf_path_snoc p x Hwf) as [Hwfp _].
  rewrite !lookup_s_join by assumption. rewrite lookup_snoc. unfold valued. rewrite Hno. reflexivity.
Qed.
Print Assumptions C19_level_without_value_is_skipped.

(* A branch below a path none of whose levels has a value - in particular one that does not exist in
   the configuration at all - inherits the path's result. *)
Theorem C19_unconfigured_branch_inherits :
  forall (V : Type) (has : raw -> bool) (conv : raw -> V) (top : config -> V) (setting : comp)
         (c : config) (p q : path),
    dot_free setting = true -> wf_path p -> wf_path (p ++ q) ->
    (forall j, (1 <= j <= len q)%nat -> has (get c ((p ++ firstn j q) ++ [setting])) = false) ->
    lookup_s has conv top setting c (join_dots (p ++ q)) = lookup_s has conv top setting c (join_dots p).
Proof.
  intros V has conv top setting c p q Hs Hp Hpq Hno.
  rewrite !lookup_s_join by assumption.
  exact (lookup_app_unvalued has conv top setting c p q Hno).
Qed.
Print Assumptions C19_unconfigured_branch_inherits.

(* Monotonicity: if level k of the path has a value, the result depends only on the candidate keys
   of levels k..|p| ... *)
Theorem C19_depends_only_on_deeper_levels :
  forall (V : Type) (has : raw -> bool) (conv : raw -> V) (top : config -> V) (setting : comp)
         (c c' : config) (p : path) (k : nat),
    dot_free setting = true -> wf_path p -> (1 <= k <= len p)%nat ->
    has (get c (firstn k p ++ [setting])) = true ->
    (forall j, (k <= j <= len p)%nat -> get c' (firstn j p ++ [setting]) = get c (firstn j p ++ [setting])) ->
    lookup_s has conv top setting c' (join_dots p) = lookup_s has conv top setting c (join_dots p).
Proof.
  intros V has conv top setting c c' p k Hs Hp Hk Hv Hsame.
  rewrite !lookup_s_join by assumption.
  exact (lookup_depends_on_deep_levels has conv top setting c c' p k Hk Hv Hsame).
Qed.
Print Assumptions C19_depends_only_on_deeper_levels.

(* ... so adding or overriding any leaf whose key has at most k components (any setting at a prefix
   strictly shorter than k, the top level included) changes nothing. *)
Theorem C19_monotone :
  forall (V : Type) (has : raw -> bool) (conv : raw -> V) (top : config -> V) (setting : comp)
         (c : config) (p : path) (k : nat) (key : path) (r : raw),
    dot_free setting = true -> wf_path p -> (1 <= k <= len p)%nat ->
    has (get c (firstn k p ++ [setting])) = true ->
    (len key <= k)%nat ->
    lookup_s has conv top setting ((key, r) :: c) (join_dots p) = lookup_s has conv top setting c (join_dots p).
Proof.
  intros V has conv top setting c p k key r Hs Hp Hk Hv Hlen.
  rewrite !lookup_s_join by assumption.
  exact (lookup_add_shallow has conv top setting c p k key r Hk Hv Hlen).
Qed.
Print Assumptions C19_monotone.

(* ---- the levels of a path are its DOTTED prefixes and nothing else ---- *)
(* The result is a function of the raw values at the candidate keys - (first j components of p) ++
   [setting], j = 1..|p| - and of the top-level reading.  Whatever else the configuration holds,
   e.g. a value for a path that shares the text of a component up to a ':' , '/' , '-' or '_'
   ("eth2client.localhost" against the path "eth2client.localhost:5052"), is never consulted: the
   only separator of levels is '.'. *)
Theorem C19_only_dotted_prefixes_are_levels :
  forall (V : Type) (has : raw -> bool) (conv : raw -> V) (top : config -> V) (setting : comp)
         (c c' : config) (p : path),
    dot_free setting = true -> wf_path p ->
    (forall j, (1 <= j <= len p)%nat -> get c' (firstn j p ++ [setting]) = get c (firstn j p ++ [setting])) ->
    top c' = top c ->
    lookup_s has conv top setting c' (join_dots p) = lookup_s has conv top setting c (join_dots p).
Proof.
  intros V has conv top setting c c' p Hs Hp Hsame Htop.
  rewrite !lookup_s_join by assumption.
  exact (lookup_only_candidate_keys has conv top setting c c' p Hsame Htop).
Qed.
Print Assumptions C19_only_dotted_prefixes_are_levels.

(* ... so a leaf added at a key that no candidate key is a prefix of (neither a candidate key
   itself nor anything below one), and that leaves the top-level reading alone, changes nothing. *)
Theorem C19_value_at_other_key_is_ignored :
  forall (V : Type) (has : raw -> bool) (conv : raw -> V) (top : config -> V) (setting : comp)
         (c : config) (p : path) (key : path) (r : raw),
    dot_free setting = true -> wf_path p ->
    (forall j, (1 <= j <= len p)%nat -> prefixb (firstn j p ++ [setting]) key = false) ->
    top ((key, r) :: c) = top c ->
    lookup_s has conv top setting ((key, r) :: c) (join_dots p) = lookup_s has conv top setting c (join_dots p).
Proof.
  intros V has conv top setting c p key r Hs Hp Hno Htop.
  rewrite !lookup_s_join by assumption.
  exact (lookup_add_elsewhere has conv top setting c p key r Hno Htop).
Qed.
Print Assumptions C19_value_at_other_key_is_ignored.

(* The top level of the addresses: beacon-node-addresses unless it yields a nil slice, then
   beacon-node-address. *)
Theorem C19_addresses_top_level :
  forall c : config,
    beacon_node_addresses c "" =
      match to_slice (get c [k_addresses]) with
      | Some l => Some l
      | None => to_slice (get c [k_address])
      end.
Proof. reflexivity. Qed.
Print Assumptions C19_addresses_top_level.

(* ---- non-vacuity ---- *)

Local Open Scope string_scope.
Local Open Scope list_scope.

(* The tree of docs/configuration.md ("Hierarchical configuration"), with a timeout, a log level,
   a concurrency and a boolean added at two levels each. *)
Definition example_config : config :=
  [ (["beacon-node-addresses"], RList ["localhost:4000"; "localhost:5051"]);
    (["strategies"; "beacon-node-addresses"], RList ["localhost:5051"]);
    (["strategies"; "beaconblockproposal"; "style"], RStr "best");
    (["strategies"; "beaconblockproposal"; "beacon-node-addresses"], RList ["localhost:4000"]);
    (["submitter"; "style"], RStr "multinode");
    (["submitter"; "proposal"; "multinode"; "beacon-node-addresses"], RList ["localhost:4000"; "localhost:9000"]);
    (["timeout"], RStr "2s");
    (["strategies"; "timeout"], RStr "500ms");
    (["strategies"; "beaconblockproposal"; "timeout"], RInt 0);
    (["log-level"], RStr "info");
    (["strategies"; "attestationdata"; "log-level"], RStr "Trace");
    (["process-concurrency"], RInt 16);
    (["strategies"; "attestationdata"; "best"; "process-concurrency"], RStr "0");
    (["fast-track"], RBool true);
    (["strategies"; "attestationdata"; "fast-track"], RBool false) ].

Example C19_docs_example :
  beacon_node_addresses example_config "" = Some ["localhost:4000"; "localhost:5051"] /\
  beacon_node_addresses example_config "strategies.attestationdata.best" = Some ["localhost:5051"] /\
  beacon_node_addresses example_config "strategies.beaconblockproposal.best" = Some ["localhost:4000"] /\
  beacon_node_addresses example_config "submitter.proposal.multinode" = Some ["localhost:4000"; "localhost:9000"] /\
  beacon_node_addresses example_config "submitter.attestation.multinode" = Some ["localhost:4000"; "localhost:5051"] /\
  (* the explicit zero timeout below strategies is skipped; 500ms is used *)
  timeout example_config "strategies.beaconblockproposal.best" = 500000000%Z /\
  timeout example_config "submitter.multinode" = 2000000000%Z /\
  log_level 1%Z example_config "strategies.attestationdata.best" = lvl_trace /\
  log_level 1%Z example_config "strategies.beaconblockproposal" = lvl_info /\
  (* an explicit "0" concurrency and an explicit false win *)
  process_concurrency example_config "strategies.attestationdata.best" = 0%Z /\
  process_concurrency example_config "strategies.attestationdata.first" = 16%Z /\
  hierarchical_bool "fast-track" example_config "strategies.attestationdata.best" = false /\
  hierarchical_bool "fast-track" example_config "strategies.aggregateattestation" = true.
Proof. vm_compute. repeat split. Qed.

(* the hypotheses of the theorems are met by a real path and a real deciding level *)
Example C19_hypotheses_example :
  let p := ["strategies"; "attestationdata"; "best"] in
  wf_path p /\ join_dots p = "strategies.attestationdata.best" /\
  get example_config (firstn 2 p ++ ["fast-track"]) = RBool false /\
  (forall j, (2 < j <= len p)%nat -> str_nonempty (get example_config (firstn j p ++ ["fast-track"])) = false) /\
  resolves addr_has to_slice addr_top k_addresses example_config p (Some ["localhost:5051"]).
Proof.
  cbn zeta. split; [|split; [|split; [|split]]].
  - split; [repeat constructor | discriminate].
  - reflexivity.
  - reflexivity.
  - intros j Hj. assert (j = 3%nat) as -> by (cbn in Hj; lia). reflexivity.
  - apply C19_reference_characterised. reflexivity.
Qed.

(* a history on one tree: look up, set an intermediate level, look up again (the scenario a
   memoising LogLevel gets wrong), then change the top level, then remove the intermediate value *)
Example C19_history_example :
  let c0 := [ (["log-level"], RStr "info") ] in
  let c1 := fst (apply_changes (c0, 0%Z) [ChSet ["strategies"; "attestationdata"; "log-level"] (RStr "warn")]) in
  let c2 := fst (apply_changes (c1, 0%Z) [ChSet ["log-level"] (RStr "error")]) in
  let c3 := fst (apply_changes (c2, 0%Z) [ChDel ["strategies"; "attestationdata"; "log-level"]]) in
  log_level 0%Z c0 "strategies.attestationdata.best" = lvl_info /\
  log_level 0%Z c1 "strategies.attestationdata.best" = lvl_warn /\
  log_level 0%Z c1 "strategies.beaconblockproposal.best" = lvl_info /\
  log_level 0%Z c2 "strategies.attestationdata.best" = lvl_warn /\
  log_level 0%Z c2 "controller" = lvl_error /\
  log_level 0%Z c3 "strategies.attestationdata.best" = lvl_error /\
  (* the hypotheses of C19_change_is_seen are met *)
  str_nonempty (RStr "warn") = true /\
  wf_path (["strategies"; "attestationdata"] ++ ["best"]) /\
  (forall j, (1 <= j <= len ["best"])%nat ->
     str_nonempty (get c0 ((["strategies"; "attestationdata"] ++ firstn j ["best"]) ++ [k_loglevel])) = false).
Proof.
  cbn zeta. repeat (apply conj); try reflexivity; try discriminate.
  repeat constructor.
Qed.

(* a concurrent round: two goroutines ask the same deep path while a third asks its parent.  With
   every goroutine seeing the longest-prefix value P_b holds and the callers agree; if one goroutine
   also saw the top-level value once (a garbled key missed: what a key built in a shared buffer
   does), P_b fails. *)
Example C19_concurrent_example :
  let c := [ (["beacon-node-addresses"], RList ["top:5052"]);
             (["m1"; "beacon-node-addresses"], RList ["shallow:5052"]);
             (["m1"; "first"; "second"; "beacon-node-addresses"], RList ["full:5052"]) ] in
  let deep := QAddr "m1.first.second.third" (Some ["full:5052"]) in
  let mid := QAddr "m1.first" (Some ["shallow:5052"]) in
  let good := {| c_id := 0; c_cfg := c; c_deflevel := 0%Z; c_queries := [deep];
                 c_parallel := [[deep; mid]; [deep]; [mid]; [deep; mid]]; c_later := [] |} in
  let bad := {| c_id := 1; c_cfg := c; c_deflevel := 0%Z; c_queries := [deep];
                c_parallel := [[deep; mid; QAddr "m1.first.second.third" (Some ["top:5052"])]; [deep]; [mid];
                               [deep; mid]];
                c_later := [] |} in
  P_b good = true /\ agree good = true /\ len (calls_on_installed good) = 7%nat /\
  P_b bad = false /\ agree bad = false /\
  ~ same_answer deep (QAddr "m1.first.second.third" (Some ["top:5052"])).
Proof.
  cbn zeta. repeat split; try (vm_compute; reflexivity).
  cbn [same_answer slice_items]. intros H. specialize (H eq_refl). discriminate H.
Qed.

(* client addresses as path components (what clients.go passes): ':' and '/' are not separators.
   The values configured for the OTHER clients "localhost" and "http" are not levels of
   eth2client.localhost:5052 / eth2client.http://beacon:5052 (what a lop-off at the last '.' or ':'
   gets wrong); the hypotheses of C19_value_at_other_key_is_ignored are met. *)
Example C19_address_path_example :
  let rmu := "reduced-memory-usage" in
  let c0 := [ ([rmu], RBool false); (["eth2client"; "remote:5052"; rmu], RBool true) ] in
  let c := (["eth2client"; "http"; rmu], RBool true) :: (["eth2client"; "localhost"; rmu], RBool true) :: c0 in
  let p := ["eth2client"; "localhost:5052"] in
  path_of_string "eth2client.http://beacon:5052" = ["eth2client"; "http://beacon:5052"] /\
  wf_path p /\ join_dots p = "eth2client.localhost:5052" /\
  hierarchical_bool rmu c "eth2client.localhost:5052" = false /\
  hierarchical_bool rmu c "eth2client.http://beacon:5052" = false /\
  hierarchical_bool rmu c "eth2client.localhost" = true /\
  hierarchical_bool rmu c "eth2client.remote:5052" = true /\
  hierarchical_bool rmu c "eth2client.remote:5052.zz" = true /\
  (forall j, (1 <= j <= len p)%nat -> prefixb (firstn j p ++ [rmu]) ["eth2client"; "localhost"; rmu] = false) /\
  bool_top rmu ((["eth2client"; "localhost"; rmu], RBool true) :: c0) = bool_top rmu c0 /\
  P_b {| c_id := 0; c_cfg := c; c_deflevel := 0%Z; c_queries := [QBool rmu "eth2client.localhost:5052" false];
         c_parallel := []; c_later := [] |} = true /\
  P_b {| c_id := 1; c_cfg := c; c_deflevel := 0%Z; c_queries := [QBool rmu "eth2client.localhost:5052" true];
         c_parallel := []; c_later := [] |} = false.
Proof.
  cbn zeta. repeat split; try (vm_compute; reflexivity); try discriminate.
  - repeat constructor.
  - intros j Hj. cbn [len] in Hj.
    assert (j = 1%nat \/ j = 2%nat) as [-> | ->] by lia; vm_compute; reflexivity.
Qed.
