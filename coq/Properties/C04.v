(* C04 — each attestation carries exactly its validator's assignment and the agreed data.
   Property theorems only.  Model: the pure part of Model/C01_Attester.v (sign_args, attestations:
   the validator index -> array index map, the per-account committee index / position / size
   lookup, createAttestations), and its use by every call of Attest in every history.

   Quantification: every well-formed duty [wf_duty] (parallel arrays of equal length, positions
   inside their committee; validators may repeat), every list [claimed] of validators that passed
   the already-attested filter (any subset of the duty in any order), every answer [avail] of the
   accounts provider in every iteration order of the Go map, every attestation data [a], every
   set [unsigned] of validators the signer returns a zero signature for. *)
From Verif Require Import Lib.Base Model.C01_Attester Model.C04_Merge Proofs.C01 Proofs.C04 Proofs.C04_Merge Proofs.C04_Split.

(* Every attestation produced is for a validator v that passed the filter, has an account and a
   non-zero signature, and carries: committee index c, bitlist of length size(c) with exactly bit p
   set, where (v, c, p) is ONE row j of the duty's parallel arrays; the duty's slot; the root,
   source and target of the attestation data; and the signature v's account gave over exactly
   these values. *)
Theorem C04_assignment :
  forall (d : duty) (claimed avail : list vidx) (a : adata) (unsigned : list vidx) (x : att),
    wf_duty d -> incl claimed (d_vals d) ->
    In x (attestations d a (sign_args d claimed avail) unsigned) ->
    let v := fst (at_sig x) in
    In v claimed /\ In v avail /\ ~ In v unsigned /\
    exists j c p,
      nth_error (d_vals d) j = Some v /\ nth_error (d_comms d) j = Some c /\ nth_error (d_poss d) j = Some p /\
      at_len x = size_of d c /\ at_bits x = [p] /\
      at_vote x = {| vt_slot := d_slot d; vt_comm := c; vt_root := a_root a; vt_src := a_src a;
                     vt_src_root := a_src_root a; vt_tgt := a_tgt a; vt_tgt_root := a_tgt_root a |} /\
      at_sig x = (v, at_vote x).
Proof. exact assignment. Qed.
Print Assumptions C04_assignment.

(* Validators that were filtered out, have no account or got a zero signature yield no attestation
   (no well-formedness needed) ... *)
Theorem C04_unsigned_absent :
  forall (d : duty) (claimed avail : list vidx) (a : adata) (unsigned : list vidx) (x : att),
    In x (attestations d a (sign_args d claimed avail) unsigned) ->
    In (fst (at_sig x)) claimed /\ In (fst (at_sig x)) avail /\ ~ In (fst (at_sig x)) unsigned.
Proof. exact unsigned_absent. Qed.
Print Assumptions C04_unsigned_absent.

(* ... and the attestations are exactly one per remaining account, in the order of the accounts.
   "Remaining" also excludes an account whose committee, by the duty, has more members than
   MAX_VALIDATORS_PER_COMMITTEE (2048): createAttestations allocates no aggregation bits for such a
   duty.  For a duty within that bound (every beacon node answer) the second condition is void:
   [C04_one_per_signed_account_bounded]. *)
Theorem C04_one_per_signed_account :
  forall (d : duty) (claimed avail : list vidx) (a : adata) (unsigned : list vidx),
    map (fun x => fst (at_sig x)) (attestations d a (sign_args d claimed avail) unsigned) =
    filter (fun v => negb (memb N.eqb v unsigned) && (sa_size (arg_of d v) <=? max_committee))
           (accounts_for avail claimed).
Proof. exact sign_args_signers. Qed.
Print Assumptions C04_one_per_signed_account.

Theorem C04_one_per_signed_account_bounded :
  forall (d : duty) (claimed avail : list vidx) (a : adata) (unsigned : list vidx),
    (forall c, size_of d c <= max_committee) ->
    map (fun x => fst (at_sig x)) (attestations d a (sign_args d claimed avail) unsigned) =
    filter (fun v => negb (memb N.eqb v unsigned)) (accounts_for avail claimed).
Proof.
  intros d claimed avail a unsigned Hb. rewrite sign_args_signers. apply filter_ext.
  intro v. cbn [arg_of sa_size snd]. rewrite (proj2 (N.leb_le _ _) (Hb _)). apply andb_true_r.
Qed.
Print Assumptions C04_one_per_signed_account_bounded.

(* The signing request pairs every account with the committee index of that validator's own row,
   and the k-th attestation is built from the k-th (account, committee index) pair that got a
   signature (and whose committee is not larger than the maximum committee size). *)
Theorem C04_sign_args_aligned :
  forall (i : nat) (d : duty) (claimed avail : list vidx) (a : adata) (unsigned : list vidx),
    wf_duty d -> incl claimed (d_vals d) ->
    (forall v c, In (v, c) (sr_pairs (mk_signreq i d a (sign_args d claimed avail))) ->
       In v claimed /\ In v avail /\
       exists j, nth_error (d_vals d) j = Some v /\ nth_error (d_comms d) j = Some c) /\
    map (fun x => (fst (at_sig x), vt_comm (at_vote x))) (attestations d a (sign_args d claimed avail) unsigned) =
    filter (fun p => negb (memb N.eqb (fst p) unsigned) && (size_of d (snd p) <=? max_committee))
           (sr_pairs (mk_signreq i d a (sign_args d claimed avail))).
Proof.
  intros i d claimed avail a unsigned Hwf Hincl. split.
  - intros v c. exact (sign_args_aligned i d claimed avail a v c Hwf Hincl).
  - exact (signreq_matches_attestations i d claimed avail a unsigned).
Qed.
Print Assumptions C04_sign_args_aligned.

(* Lifted to the whole system: in every history of calls of Attest (any duties, any outcomes, any
   interleaving; no window condition), every attestation handed to the submitter by call i
   satisfies the above with respect to call i's duty and the data call i's beacon node returned. *)
Theorem C04_submitted_assignment :
  forall (spe : N) (rs : list run) (sch : list nat) (i : nat) (atts : list att),
    In (Submit i atts) (g_trace (exec spe rs sch init)) ->
    exists r a, nth_error rs i = Some r /\ s_fetch (r_script r) = Some a /\
      (wf_duty (r_duty r) ->
       forall x, In x atts ->
         In (fst (at_sig x)) (d_vals (r_duty r)) /\
         (forall avail, s_accounts (r_script r) = Some avail -> In (fst (at_sig x)) avail) /\
         (forall unsigned, s_sign (r_script r) = Some unsigned -> ~ In (fst (at_sig x)) unsigned) /\
         assignment_ok (r_duty r) a x).
Proof. exact submitted_assignment. Qed.
Print Assumptions C04_submitted_assignment.

(* Calls of Attest that overlap on the one service (the scheduler starts one job per slot, with no
   mutual exclusion; a call waiting for a slow signer is overtaken by the next slot's) do not enter one
   another's attestations: in every history, under every interleaving, what call i hands to the
   submitter is [attestations] of call i's OWN duty, of the data, accounts answer and zero signatures
   call i's own environment returned, and of a subset of that duty's validators -- a function of
   nothing else.  (With [C04_assignment] this gives [C04_submitted_assignment]; stated separately
   because it is the fact a working array shared between calls breaks.) *)
Theorem C04_submitted_own_duty :
  forall (spe : N) (rs : list run) (sch : list nat) (i : nat) (atts : list att),
    In (Submit i atts) (g_trace (exec spe rs sch init)) ->
    exists r a avail unsigned claimed,
      nth_error rs i = Some r /\ s_fetch (r_script r) = Some a /\ s_accounts (r_script r) = Some avail /\
      s_sign (r_script r) = Some unsigned /\ incl claimed (d_vals (r_duty r)) /\
      atts = attestations (r_duty r) a (sign_args (r_duty r) claimed avail) unsigned.
Proof. exact submitted_own_duty. Qed.
Print Assumptions C04_submitted_own_duty.

Theorem C04_signreq_assignment :
  forall (spe : N) (rs : list run) (sch : list nat) (q : signreq),
    In (SignReq q) (g_trace (exec spe rs sch init)) ->
    exists r a, nth_error rs (sr_run q) = Some r /\ s_fetch (r_script r) = Some a /\
      sr_slot q = d_slot (r_duty r) /\ sr_root q = a_root a /\
      sr_src q = a_src a /\ sr_src_root q = a_src_root a /\ sr_tgt q = a_tgt a /\ sr_tgt_root q = a_tgt_root a /\
      (wf_duty (r_duty r) ->
       forall v c, In (v, c) (sr_pairs q) ->
         exists j, nth_error (d_vals (r_duty r)) j = Some v /\ nth_error (d_comms (r_duty r)) j = Some c).
Proof. exact signreq_assignment. Qed.
Print Assumptions C04_signreq_assignment.

(* ---------------------------------------------------------------------------------------------
   The duties Attest is given are built by attester.MergeDuties from the beacon node's answer
   ([merge_duties], Model/C04_Merge.v).  [api_ok ds]: every position is inside its committee and a
   committee of a slot has one length (what a beacon node answers); validators, slots and committee
   indices are arbitrary, in any order -- in particular the same committee index may have different
   lengths at different slots. *)

(* A merged duty is well-formed, and each of its rows j is a row of the answer for that very slot:
   same validator, committee index and position, and the size the duty reports for that committee
   is the length of that committee AT THAT SLOT. *)
Theorem C04_merged_duty :
  forall (ds : list api_duty) (d : duty),
    api_ok ds -> In d (merge_duties ds) ->
    wf_duty d /\
    forall j v c p,
      nth_error (d_vals d) j = Some v -> nth_error (d_comms d) j = Some c -> nth_error (d_poss d) j = Some p ->
      exists r, In r ds /\ ad_slot r = d_slot d /\ ad_val r = v /\ ad_comm r = c /\ ad_pos r = p /\
                size_of d c = ad_len r.
Proof.
  intros ds d Hok Hin. split; [exact (merged_wf ds d Hok Hin)|].
  intros j v c p. exact (merged_row ds d j v c p Hok Hin).
Qed.
Print Assumptions C04_merged_duty.

(* Nothing is lost: every row of the answer is a row of the merged duty of its slot, and there is
   one duty per slot. *)
Theorem C04_merged_complete :
  forall (ds : list api_duty),
    NoDup (map d_slot (merge_duties ds)) /\
    forall r, In r ds ->
      exists d j, In d (merge_duties ds) /\ d_slot d = ad_slot r /\
        nth_error (d_vals d) j = Some (ad_val r) /\ nth_error (d_comms d) j = Some (ad_comm r) /\
        nth_error (d_poss d) j = Some (ad_pos r).
Proof. intro ds. split; [apply merge_duties_slots_nodup | exact (merged_complete ds)]. Qed.
Print Assumptions C04_merged_complete.

(* C04_assignment on the merged path: every attestation made from a merged duty carries what ONE
   row of the beacon node's answer assigns to that validator at that slot -- committee index,
   position bit, committee length -- with the data and the validator's signature over the same. *)
Theorem C04_merged_assignment :
  forall (ds : list api_duty) (d : duty) (claimed avail : list vidx) (a : adata) (unsigned : list vidx) (x : att),
    api_ok ds -> In d (merge_duties ds) -> incl claimed (d_vals d) ->
    In x (attestations d a (sign_args d claimed avail) unsigned) ->
    let v := fst (at_sig x) in
    In v claimed /\ In v avail /\ ~ In v unsigned /\
    exists r, In r ds /\ ad_slot r = d_slot d /\ ad_val r = v /\
      at_len x = ad_len r /\ at_bits x = [ad_pos r] /\
      at_vote x = {| vt_slot := d_slot d; vt_comm := ad_comm r; vt_root := a_root a; vt_src := a_src a;
                     vt_src_root := a_src_root a; vt_tgt := a_tgt a; vt_tgt_root := a_tgt_root a |} /\
      at_sig x = (v, at_vote x).
Proof. exact merged_assignment. Qed.
Print Assumptions C04_merged_assignment.

(* ... in every history: whenever call i of Attest was given a duty of [merge_duties ds], every
   attestation it hands to the submitter is [api_assignment_ok] (the conjunction above) for the
   answer [ds], the duty's slot and the data call i fetched. *)
Theorem C04_merged_submitted_assignment :
  forall (ds : list api_duty) (spe : N) (rs : list run) (sch : list nat) (i : nat) (atts : list att),
    api_ok ds ->
    In (Submit i atts) (g_trace (exec spe rs sch init)) ->
    exists r a, nth_error rs i = Some r /\ s_fetch (r_script r) = Some a /\
      (In (r_duty r) (merge_duties ds) ->
       forall x, In x atts -> api_assignment_ok ds (d_slot (r_duty r)) a x).
Proof.
  intros ds spe rs sch i atts Hok Hin.
  destruct (submitted_assignment spe rs sch i atts Hin) as [r [a [Hr [Hf H]]]].
  exists r, a. split; [exact Hr | split; [exact Hf|]].
  intros Hd x Hx. apply assignment_ok_api; [exact Hok | exact Hd|].
  exact (proj2 (proj2 (proj2 (H (merged_wf ds _ Hok Hd) x Hx)))).
Qed.
Print Assumptions C04_merged_submitted_assignment.

(* Non-vacuity: the duty of the property text, validators (1,2,3) in committees (0,1,2) at
   positions (1,2,3), validator 1 already attested, everybody has an account, 3 is left unsigned:
   exactly one attestation, for validator 2, with validator 2's committee, size and position. *)
Definition ex_duty : duty :=
  {| d_slot := 101; d_vals := [1; 2; 3]; d_comms := [0; 1; 2]; d_poss := [1; 2; 3]; d_sizes := [(0, 5); (1, 6); (2, 7)] |}.
Definition ex_data : adata := {| a_slot := 101; a_root := 21; a_src := 2; a_src_root := 22; a_tgt := 3; a_tgt_root := 23 |}.

Example C04_example :
  wf_duty ex_duty /\
  map (fun x => (fst (at_sig x), vt_comm (at_vote x), at_len x, at_bits x))
      (attestations ex_duty ex_data (sign_args ex_duty [2; 3] [3; 1; 2]) [3]) = [(2, 1, 6, [2])] /\
  sr_pairs (mk_signreq 0 ex_duty ex_data (sign_args ex_duty [2; 3] [3; 1; 2])) = [(3, 2); (2, 1)].
Proof.
  split; [|split; vm_compute; reflexivity].
  split; [reflexivity | split; [reflexivity|]].
  intros j c p Hc Hp. do 3 (destruct j as [|j]; [cbn in Hc, Hp; injection Hc as <-; injection Hp as <-; reflexivity|]).
  destruct j; discriminate.
Qed.

(* Non-vacuity of the merged path: committee 0 has 8 members at slot 100 and 7 at slot 101; the
   validator at the last position of slot 100's committee gets a bitlist of 8 with bit 7 set. *)
Definition ex_api : list api_duty :=
  [ {| ad_slot := 101; ad_val := 2; ad_comm := 0; ad_pos := 3; ad_len := 7; ad_cas := 1 |};
    {| ad_slot := 100; ad_val := 1; ad_comm := 0; ad_pos := 7; ad_len := 8; ad_cas := 1 |} ].

Example C04_merged_example :
  api_ok ex_api /\
  map (fun d => (d_slot d, d_vals d, d_comms d, d_poss d, size_of d 0)) (merge_duties ex_api) =
    [(100, [1], [0], [7], 8); (101, [2], [0], [3], 7)] /\
  map (fun d => map (fun x => (fst (at_sig x), at_len x, at_bits x))
                    (attestations d ex_data (sign_args d (d_vals d) [1; 2]) []))
      (merge_duties ex_api) = [[(1, 8, [7])]; [(2, 7, [3])]].
Proof.
  split; [|split; vm_compute; reflexivity].
  split.
  - intros r [<-|[<-|[]]]; reflexivity.
  - intros r r' [<-|[<-|[]]] [<-|[<-|[]]]; cbn; intros; try reflexivity; discriminate.
Qed.

(* Signatures obtained in several requests.  The pinned tree asks its signer once per call; a service
   configured with a process concurrency above 1 (as main.go configures it) could as well split its
   accounts into ranges and have them signed side by side.  Whatever the ranges, joining the answers
   in the order of the ranges gives the attestations of the single request, so every theorem above
   applies to it ... *)
Theorem C04_split_signing :
  forall (d : duty) (a : adata) (unsigned : list vidx) (rs : list (list sarg)),
    create_atts d a (concat rs) (sign_ranges (d_slot d) a unsigned rs) = attestations d a (concat rs) unsigned.
Proof. exact split_signing. Qed.
Print Assumptions C04_split_signing.

(* ... and the order is all there is: the signature standing at position k of the list handed to
   createAttestations is put onto the attestation with the k-th account's committee index, position
   bit and committee size, whatever it signs and whoever signed it.  (Joining the answers in the order
   in which the requests return -- seeded change C04-9 -- puts another validator's signature there:
   [C04_split_signing_example].) *)
Theorem C04_signature_goes_by_position :
  forall (d : duty) (a : adata) (args : list sarg) (sigs : list (option sigval)) (k : nat) (x : sarg) (s : sigval),
    nth_error args k = Some x -> nth_error sigs k = Some (Some s) -> (sa_size x <=? max_committee) = true ->
    In {| at_len := sa_size x; at_bits := if sa_pos x <? sa_size x then [sa_pos x] else [];
          at_vote := mkvote (d_slot d) (sa_comm x) a; at_sig := s |} (create_atts d a args sigs).
Proof. exact create_atts_position. Qed.
Print Assumptions C04_signature_goes_by_position.

(* validators 1 and 2 in committees 3 and 5 at positions 2 and 4, each signed in a request of its own:
   joined in the order of the ranges each attestation has its own validator's signature over its own
   committee; joined the other way round (the second request returned first) the attestation for
   committee 3, bit 2 carries validator 2's signature over committee 5 *)
Example C04_split_signing_example :
  let d := {| d_slot := 100; d_vals := [1; 2]; d_comms := [3; 5]; d_poss := [2; 4]; d_sizes := [(3, 8); (5, 9)] |} in
  let a := {| a_slot := 100; a_root := 11; a_src := 2; a_src_root := 12; a_tgt := 3; a_tgt_root := 13 |} in
  let args := sign_args d [1; 2] [1; 2] in
  let r1 := firstn 1 args in
  let r2 := skipn 1 args in
  let shape := map (fun x => (fst (at_sig x), vt_comm (snd (at_sig x)), vt_comm (at_vote x), at_len x, at_bits x)) in
  shape (create_atts d a (r1 ++ r2) (sign_ranges 100 a [] [r1; r2])) = [(1, 3, 3, 8, [2]); (2, 5, 5, 9, [4])] /\
  shape (create_atts d a (r1 ++ r2) (sign_ranges 100 a [] [r2; r1])) = [(2, 5, 3, 8, [2]); (1, 3, 5, 9, [4])].
Proof. vm_compute. split; reflexivity. Qed.

(* Non-vacuity of "any interleaving" in [C04_submitted_assignment]: two calls of Attest for two slots
   overlap on the one service (corpus/C04/overlapping-slots-slow-signer.json).  Call 0 (slot 100,
   validator 1, committee 3 of 8 members, position 2) has asked its signer and waits; call 1 (slot
   101, validator 2, committee 7 of 9 members, position 5) runs from start to end meanwhile; then
   call 0's signatures arrive.  Each call submits its own duty's committee index, committee size and
   position bit. *)
Definition ex_overlap_runs : list run :=
  [ {| r_duty := {| d_slot := 100; d_vals := [1]; d_comms := [3]; d_poss := [2]; d_sizes := [(3, 8)] |};
       r_script := {| s_fetch := Some {| a_slot := 100; a_root := 11; a_src := 2; a_src_root := 12; a_tgt := 3; a_tgt_root := 13 |};
                      s_accounts := Some [1; 2]; s_sign := Some []; s_submit := true |} |};
    {| r_duty := {| d_slot := 101; d_vals := [2]; d_comms := [7]; d_poss := [5]; d_sizes := [(7, 9)] |};
       r_script := {| s_fetch := Some {| a_slot := 101; a_root := 21; a_src := 2; a_src_root := 22; a_tgt := 3; a_tgt_root := 23 |};
                      s_accounts := Some [1; 2]; s_sign := Some []; s_submit := true |} |} ].

Example C04_overlap_example :
  map (fun ev => match ev with
                 | SignReq q => (sr_run q, sr_pairs q, [])
                 | Submit i atts => (i, [], map (fun x => (fst (at_sig x), vt_comm (at_vote x), at_len x, at_bits x)) atts)
                 end)
      (g_trace (exec 32 ex_overlap_runs [0; 0; 0; 0;  1; 1; 1; 1; 1; 1; 1;  0; 0; 0]%nat init)) =
  [ (0%nat, [(1, 3)], []); (1%nat, [(2, 7)], []); (1%nat, [], [(2, 7, 9, [5])]); (0%nat, [], [(1, 3, 8, [2])]) ].
Proof. vm_compute. reflexivity. Qed.
