(* C04 — each attestation carries exactly its validator's assignment and the agreed data.
   Property theorems only.  Model: the pure part of Model/C01_Attester.v (sign_args, attestations:
   the validator index -> array index map, the per-account committee index / position / size
   lookup, createAttestations), and its use by every call of Attest in every history.

   Quantification: every well-formed duty [wf_duty] (parallel arrays of equal length, positions
   inside their committee; validators may repeat), every list [claimed] of validators that passed
   the already-attested filter (any subset of the duty in any order), every answer [avail] of the
   accounts provider in every iteration order of the Go map, every attestation data [a], every
   set [unsigned] of validators the signer returns a zero signature for. *)
From Verif Require Import Lib.Base Model.C01_Attester Proofs.C01 Proofs.C04.

(* Every attestation produced is for a validator v that passed the filter, has an account and a
   non-zero signature, and carries: committee index c, bitlist of length size(c) with exactly bit p
   set, where (v, c, p) is ONE row j of the duty's parallel arrays; the duty's slot; the root,
   source and target of the attestation data; and the signature v's account gave over exactly
   these values. *)
Theorem C04_assignment :
  forall (d : duty) (claimed avail : list vidx) (a : adata) (unsigned : list vidx) (x : att),
    wf_duty d -> incl claimed (d_vals d) ->
    In x (attestations d a (sign_args d claimed avail) unsigned) ->
    let v := fst (at_sig x) in
    In v claimed /\ In v avail /\ ~ In v unsigned /\
    exists j c p,
      nth_error (d_vals d) j = Some v /\ nth_error (d_comms d) j = Some c /\ nth_error (d_poss d) j = Some p /\
      at_len x = size_of d c /\ at_bits x = [p] /\
      at_vote x = {| vt_slot := d_slot d; vt_comm := c; vt_root := a_root a; vt_src := a_src a;
                     vt_src_root := a_src_root a; vt_tgt := a_tgt a; vt_tgt_root := a_tgt_root a |} /\
      at_sig x = (v, at_vote x).
Proof. exact assignment. Qed.
Print Assumptions C04_assignment.

(* Validators that were filtered out, have no account or got a zero signature yield no attestation
   (no well-formedness needed) ... *)
Theorem C04_unsigned_absent :
  forall (d : duty) (claimed avail : list vidx) (a : adata) (unsigned : list vidx) (x : att),
    In x (attestations d a (sign_args d claimed avail) unsigned) ->
    In (fst (at_sig x)) claimed /\ In (fst (at_sig x)) avail /\ ~ In (fst (at_sig x)) unsigned.
Proof. exact unsigned_absent. Qed.
Print Assumptions C04_unsigned_absent.

(* ... and the attestations are exactly one per remaining account, in the order of the accounts. *)
Theorem C04_one_per_signed_account :
  forall (d : duty) (claimed avail : list vidx) (a : adata) (unsigned : list vidx),
    map (fun x => fst (at_sig x)) (attestations d a (sign_args d claimed avail) unsigned) =
    filter (fun v => negb (memb N.eqb v unsigned)) (accounts_for avail claimed).
Proof. intros. rewrite attestations_signers, sign_args_v. reflexivity. Qed.
Print Assumptions C04_one_per_signed_account.

(* The signing request pairs every account with the committee index of that validator's own row,
   and the k-th attestation is built from the k-th (account, committee index) pair that got a
   signature. *)
Theorem C04_sign_args_aligned :
  forall (i : nat) (d : duty) (claimed avail : list vidx) (a : adata) (unsigned : list vidx),
    wf_duty d -> incl claimed (d_vals d) ->
    (forall v c, In (v, c) (sr_pairs (mk_signreq i d a (sign_args d claimed avail))) ->
       In v claimed /\ In v avail /\
       exists j, nth_error (d_vals d) j = Some v /\ nth_error (d_comms d) j = Some c) /\
    map (fun x => (fst (at_sig x), vt_comm (at_vote x))) (attestations d a (sign_args d claimed avail) unsigned) =
    filter (fun p => negb (memb N.eqb (fst p) unsigned)) (sr_pairs (mk_signreq i d a (sign_args d claimed avail))).
Proof.
  intros i d claimed avail a unsigned Hwf Hincl. split.
  - intros v c. exact (sign_args_aligned i d claimed avail a v c Hwf Hincl).
  - exact (signreq_matches_attestations i d claimed avail a unsigned).
Qed.
Print Assumptions C04_sign_args_aligned.

(* Lifted to the whole system: in every history of calls of Attest (any duties, any outcomes, any
   interleaving; no window condition), every attestation handed to the submitter by call i
   satisfies the above with respect to call i's duty and the data call i's beacon node returned. *)
Theorem C04_submitted_assignment :
  forall (spe : N) (rs : list run) (sch : list nat) (i : nat) (atts : list att),
    In (Submit i atts) (g_trace (exec spe rs sch init)) ->
    exists r a, nth_error rs i = Some r /\ s_fetch (r_script r) = Some a /\
      (wf_duty (r_duty r) ->
       forall x, In x atts ->
         In (fst (at_sig x)) (d_vals (r_duty r)) /\
         (forall avail, s_accounts (r_script r) = Some avail -> In (fst (at_sig x)) avail) /\
         (forall unsigned, s_sign (r_script r) = Some unsigned -> ~ In (fst (at_sig x)) unsigned) /\
         assignment_ok (r_duty r) a x).
Proof. exact submitted_assignment. Qed.
Print Assumptions C04_submitted_assignment.

Theorem C04_signreq_assignment :
  forall (spe : N) (rs : list run) (sch : list nat) (q : signreq),
    In (SignReq q) (g_trace (exec spe rs sch init)) ->
    exists r a, nth_error rs (sr_run q) = Some r /\ s_fetch (r_script r) = Some a /\
      sr_slot q = d_slot (r_duty r) /\ sr_root q = a_root a /\
      sr_src q = a_src a /\ sr_src_root q = a_src_root a /\ sr_tgt q = a_tgt a /\ sr_tgt_root q = a_tgt_root a /\
      (wf_duty (r_duty r) ->
       forall v c, In (v, c) (sr_pairs q) ->
         exists j, nth_error (d_vals (r_duty r)) j = Some v /\ nth_error (d_comms (r_duty r)) j = Some c).
Proof. exact signreq_assignment. Qed.
Print Assumptions C04_signreq_assignment.

(* Non-vacuity: the duty of the property text, validators (1,2,3) in committees (0,1,2) at
   positions (1,2,3), validator 1 already attested, everybody has an account, 3 is left unsigned:
   exactly one attestation, for validator 2, with validator 2's committee, size and position. *)
Definition ex_duty : duty :=
  {| d_slot := 101; d_vals := [1; 2; 3]; d_comms := [0; 1; 2]; d_poss := [1; 2; 3]; d_sizes := [(0, 5); (1, 6); (2, 7)] |}.
Definition ex_data : adata := {| a_slot := 101; a_root := 21; a_src := 2; a_src_root := 22; a_tgt := 3; a_tgt_root := 23 |}.

Example C04_example :
  wf_duty ex_duty /\
  map (fun x => (fst (at_sig x), vt_comm (at_vote x), at_len x, at_bits x))
      (attestations ex_duty ex_data (sign_args ex_duty [2; 3] [3; 1; 2]) [3]) = [(2, 1, 6, [2])] /\
  sr_pairs (mk_signreq 0 ex_duty ex_data (sign_args ex_duty [2; 3] [3; 1; 2])) = [(3, 2); (2, 1)].
Proof.
  split; [|split; vm_compute; reflexivity].
  split; [reflexivity | split; [reflexivity|]].
  intros j c p Hc Hp. do 3 (destruct j as [|j]; [cbn in Hc, Hp; injection Hc as <-; injection Hp as <-; reflexivity|]).
  destruct j; discriminate.
Qed.
