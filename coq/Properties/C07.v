From Verif Require Import Lib.Base Model.C07_Strategies Proofs.C07.
Theorem C07_stub : True. Proof. exact I. Qed.
Print Assumptions C07_stub.
