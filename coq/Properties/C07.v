(* C07 — multi-node strategies return the right valid answer, in bounded time.
   Property theorems only; lemmas in Proofs/C07*.v; the model (what the code does) in
   Model/C07_Strategies.v, the declarative side (what it should amount to) in Model/C07_Spec.v.

   Reading guide.  An *event list* is the sequence of choices the collecting goroutine's [select]
   makes: [EResp p v] (node p's response passed the strategy's validity rules), [EErr p] (node p
   failed or its response was rejected), [ESoft] / [EHard] (the soft / hard timeout fired).
   [brun] is the loop pair of the best / latest strategies and of beaconblockroot/majority,
   [mrun] that of attestationdata/majority, [frun] the single select of the seven "first"
   strategies.  Parts A-D quantify over ALL event lists (every mixture and order of responses,
   errors, silence and timeouts).  Part E is about the *timed layer*: per node a behaviour
   (content / error / silence, latency, whether it honours its context); [outcomes st pr ps] is the
   set of (result, instant of return) over every order the clock allows for simultaneous events and
   every iteration order of the Go map; these theorems quantify over all strategies, parameters
   and node lists. *)
From Verif Require Import Lib.Base Model.C07_Strategies Model.C07_Spec
  Proofs.C07 Proofs.C07_Acc Proofs.C07_Timed Proofs.C07_Outcomes Proofs.C07_Majority Proofs.C07_Check Proofs.C07_Float
  Check.C07.
From Coq Require Import Permutation QArith.
Open Scope N_scope.

(* =========================================================================================== *)
(* A. The loops compute the declarative specification *)

(* [consumed stop es]: the shortest prefix of [es] on which [stop] holds, or all of [es]. *)
Theorem C07_consumed_is_shortest_stopping_prefix :
  forall (E : Type) (stop : list E -> bool) (es : list E),
    exists rest, es = consumed stop es ++ rest
      /\ (forall c1 c2, consumed stop es = c1 ++ c2 -> c2 <> [] -> stop c1 = false)
      /\ (stop (consumed stop es) = true \/ rest = []).
Proof. intros E stop es. exact (consumed_spec stop es). Qed.
Print Assumptions C07_consumed_is_shortest_stopping_prefix.

(* the soft-timeout clause of the stop condition, in words: the first soft-timeout event of the
   prefix has a response before it *)
Theorem C07_soft_timeout_clause_meaning :
  forall (V : Type) (es : list (event V)),
    soft_resp false es = true <->
    exists p1 p2, es = p1 ++ ESoft :: p2 /\ existsb is_soft p1 = false /\ existsb is_resp p1 = true.
Proof. intros V es. exact (soft_resp_spec es). Qed.
Print Assumptions C07_soft_timeout_clause_meaning.

(* best / latest / beaconblockroot-majority, any accumulator and early-exit test, any number of
   nodes, any event list: the loops consume exactly the shortest prefix on which
       every node has been heard of  \/  early exit  \/  hard timeout  \/  soft timeout with a response in hand
   holds, the accumulator is the fold over the responses of that prefix, and the loops have ended
   iff that prefix stops. *)
Theorem C07_best_loop_refines_spec :
  forall (V A : Type) (acc : A -> V -> A) (early : A -> bool) (requests : Z) (a0 : A) (es : list (event V)),
    (0 <= requests)%Z ->
    let c := consumed (b_stop acc early requests a0) es in
    b_acc (brun acc early requests a0 es) = accf acc a0 c
    /\ (b_phase (brun acc early requests a0 es) = Done <-> b_stop acc early requests a0 c = true).
Proof. intros V A acc early requests a0 es H. exact (b_refines acc early requests H a0 es). Qed.
Print Assumptions C07_best_loop_refines_spec.

(* attestationdata/majority: the same without the soft-timeout clause (its soft timeout only
   moves from loop 1 to loop 2, which has the same condition) *)
Theorem C07_majority_loop_refines_spec :
  forall (V A : Type) (acc : A -> V -> A) (early : A -> bool) (requests : Z) (a0 : A) (es : list (event V)),
    (0 <= requests)%Z ->
    let c := consumed (m_stop acc early requests a0) es in
    m_acc (mrun acc early requests a0 es) = accf acc a0 c
    /\ (m_phase (mrun acc early requests a0 es) = Done <-> m_stop acc early requests a0 c = true).
Proof. intros V A acc early requests a0 es H. exact (m_refines acc early requests H a0 es). Qed.
Print Assumptions C07_majority_loop_refines_spec.

(* non-vacuity: three nodes; a response, then the soft timeout ends the wait with that response,
   and the later, higher response is never looked at *)
Example C07_refines_example :
  let es := [EResp 0 5; ESoft; EResp 1 9; EHard] in
  consumed (b_stop (upd_best (fun x : N => x) N.ltb) no_early 3 None) es = [EResp 0 5; ESoft]
  /\ b_acc (brun (upd_best (fun x : N => x) (fun a b => b <? a)) no_early 3 None es) = Some 5
  /\ b_phase (brun (upd_best (fun x : N => x) (fun a b => b <? a)) no_early 3 None es) = Done.
Proof. vm_compute. auto. Qed.

(* =========================================================================================== *)
(* B. Bounded time on event lists: "the fold ends at or before the hard-timeout event" *)

Theorem C07_best_terminates_by_hard_timeout :
  forall (V A : Type) (acc : A -> V -> A) (early : A -> bool) (requests : Z) (a0 : A) (es1 es2 : list (event V)),
    (0 <= requests)%Z ->
    b_phase (brun acc early requests a0 (es1 ++ EHard :: es2)) = Done
    /\ brun acc early requests a0 (es1 ++ EHard :: es2) = brun acc early requests a0 (es1 ++ [EHard]).
Proof. intros V A acc early requests a0 es1 es2 H. exact (b_hard_done acc early requests H a0 es1 es2). Qed.
Print Assumptions C07_best_terminates_by_hard_timeout.

Theorem C07_majority_terminates_by_hard_timeout :
  forall (V A : Type) (acc : A -> V -> A) (early : A -> bool) (requests : Z) (a0 : A) (es1 es2 : list (event V)),
    (0 <= requests)%Z ->
    m_phase (mrun acc early requests a0 (es1 ++ EHard :: es2)) = Done
    /\ mrun acc early requests a0 (es1 ++ EHard :: es2) = mrun acc early requests a0 (es1 ++ [EHard]).
Proof. intros V A acc early requests a0 es1 es2 H. exact (m_hard_done acc early requests H a0 es1 es2). Qed.
Print Assumptions C07_majority_terminates_by_hard_timeout.

(* =========================================================================================== *)
(* C. best: arg-max of what was consumed; an error iff nothing came in time *)

(* strictly-greater replacement under ANY gt that is transitive and irreflexive on the scores that
   occur (float64 >, NaN included): the returned response was consumed and no consumed response
   strictly outscores it *)
Theorem C07_best_returns_argmax_of_consumed :
  forall (V S : Type) (sc : V -> S) (gt : S -> S -> bool) (requests : Z) (es : list (event V)) (b : V),
    (0 <= requests)%Z ->
    let vs := resps (consumed (b_stop (upd_best sc gt) no_early requests None) es) in
    (forall x y z, In x vs -> In y vs -> In z vs ->
                   gt (sc x) (sc y) = true -> gt (sc y) (sc z) = true -> gt (sc x) (sc z) = true) ->
    (forall x, In x vs -> gt (sc x) (sc x) = false) ->
    b_acc (brun (upd_best sc gt) no_early requests None es) = Some b ->
    unbeaten sc gt vs b.
Proof.
  intros V S sc gt requests es b Hr vs Htr Hir Hb.
  rewrite (proj1 (b_refines (upd_best sc gt) no_early requests Hr None es)) in Hb.
  exact (best_unbeaten sc gt vs b Htr Hir Hb).
Qed.
Print Assumptions C07_best_returns_argmax_of_consumed.

(* ... and when gt is a strict weak order on those scores (float64 > away from NaN) it is the
   FIRST maximal consumed response: it strictly outscores every earlier one *)
Theorem C07_best_returns_first_maximal :
  forall (V S : Type) (sc : V -> S) (gt : S -> S -> bool) (requests : Z) (es : list (event V)) (b : V),
    (0 <= requests)%Z ->
    let vs := resps (consumed (b_stop (upd_best sc gt) no_early requests None) es) in
    (forall x y z, In x vs -> In y vs -> In z vs ->
                   gt (sc x) (sc y) = true -> gt (sc y) (sc z) = true -> gt (sc x) (sc z) = true) ->
    (forall x y z, In x vs -> In y vs -> In z vs ->
                   gt (sc x) (sc y) = true -> gt (sc x) (sc z) = true \/ gt (sc z) (sc y) = true) ->
    b_acc (brun (upd_best sc gt) no_early requests None es) = Some b ->
    first_max sc gt vs b.
Proof.
  intros V S sc gt requests es b Hr vs Htr Hneg Hb.
  rewrite (proj1 (b_refines (upd_best sc gt) no_early requests Hr None es)) in Hb.
  exact (best_first_max sc gt vs b Htr Hneg Hb).
Qed.
Print Assumptions C07_best_returns_first_maximal.

(* the modelled float64 comparison meets those hypotheses *)
Theorem C07_float_gt_is_a_strict_order :
  (forall a b c, sgt a b = true -> sgt b c = true -> sgt a c = true)
  /\ (forall a, sgt a a = false)
  /\ (forall x y z, sgt (SFin x) (SFin y) = true -> sgt (SFin x) (SFin z) = true \/ sgt (SFin z) (SFin y) = true).
Proof.
  split; [exact sgt_trans|]. split; [exact sgt_irrefl|].
  intros x y z H. exact (sgt_negtrans x y (SFin z) H z eq_refl).
Qed.
Print Assumptions C07_float_gt_is_a_strict_order.

(* no result iff no response was consumed *)
Theorem C07_best_error_iff_none :
  forall (V S : Type) (sc : V -> S) (gt : S -> S -> bool) (requests : Z) (es : list (event V)),
    (0 <= requests)%Z ->
    (b_acc (brun (upd_best sc gt) no_early requests None es) = None
     <-> resps (consumed (b_stop (upd_best sc gt) no_early requests None) es) = []).
Proof.
  intros V S sc gt requests es Hr.
  rewrite (proj1 (b_refines (upd_best sc gt) no_early requests Hr None es)). unfold accf.
  apply best_none_iff.
Qed.
Print Assumptions C07_best_error_iff_none.

(* ... and, every node sending one message at most, that is: iff no response was delivered before
   the hard-timeout event.  (An edit that returns an error although a late valid answer exists,
   or that makes the soft timeout final, contradicts this.) *)
Theorem C07_best_error_iff_none_in_time :
  forall (V S : Type) (sc : V -> S) (gt : S -> S -> bool) (requests : Z) (es1 es2 : list (event V)),
    (0 <= requests)%Z -> existsb is_hard es1 = false -> (msgs es1 <= requests)%Z ->
    (b_acc (brun (upd_best sc gt) no_early requests None (es1 ++ EHard :: es2)) = None
     <-> existsb is_resp es1 = false).
Proof.
  intros V S sc gt requests es1 es2 Hr Hnh Hm.
  rewrite (proj1 (b_refines (upd_best sc gt) no_early requests Hr None (es1 ++ EHard :: es2))). unfold accf.
  rewrite best_none_iff, existsb_resp_resps.
  exact (best_consumed_resps (upd_best sc gt) requests None es1 es2 Hnh Hm).
Qed.
Print Assumptions C07_best_error_iff_none_in_time.

Example C07_best_example :
  b_acc (brun (upd_best (fun x : N => x) (fun a b => b <? a)) no_early 3 None
              [EErr 0; ESoft; EResp 1 4; EResp 2 9; EHard]) = Some 9
  /\ b_acc (brun (upd_best (fun x : N => x) (fun a b => b <? a)) no_early 3 None
              [EErr 0; ESoft; EHard; EResp 1 4]) = None.
Proof. vm_compute. auto. Qed.

(* =========================================================================================== *)
(* D. majority and first on response lists / event lists *)

(* The table built from the consumed responses [vs], read back in ANY iteration order of the Go
   map ([order] a permutation of it): the value used is the first response of a most frequently
   reported key, with at least [thr] (and at least one) votes, and among equally frequent keys
   one with the highest head slot; nothing is used iff no key has [thr] votes.
   [key] is the hash tree root of the content, so responses with equal keys have equal head slots. *)
Theorem C07_majority_returns_plurality :
  forall (V : Type) (key slot_of : V -> N) (vs : list V) (order : list (N * (V * Z))) (thr : Z),
    (forall x y, In x vs -> In y vs -> key x = key y -> slot_of x = slot_of y) ->
    Permutation order (fold_left (bump key) vs []) ->
    match maj_result slot_of thr order with
    | Some v => find (fun x => key x =? key v) vs = Some v
                /\ (thr <= votes key vs (key v))%Z /\ (1 <= votes key vs (key v))%Z
                /\ forall v', In v' vs ->
                     (votes key vs (key v') <= votes key vs (key v))%Z
                     /\ (votes key vs (key v') = votes key vs (key v) -> slot_of v' <= slot_of v)
    | None => forall v', In v' vs -> (votes key vs (key v') < thr)%Z
    end.
Proof. intros V key slot_of vs order thr. exact (maj_plurality key slot_of vs order thr). Qed.
Print Assumptions C07_majority_returns_plurality.

(* a value is used iff some reported value has at least the threshold of votes: "whenever at least
   the configured threshold of nodes reported it and never otherwise" *)
Theorem C07_majority_uses_iff_threshold :
  forall (V : Type) (key slot_of : V -> N) (vs : list V) (order : list (N * (V * Z))) (thr : Z),
    Permutation order (fold_left (bump key) vs []) ->
    (maj_result slot_of thr order <> None <-> exists v, In v vs /\ (thr <= votes key vs (key v))%Z).
Proof. intros V key slot_of vs order thr. exact (maj_uses_iff key slot_of vs order thr). Qed.
Print Assumptions C07_majority_uses_iff_threshold.

(* the early exit: once the largest count has reached max(requests/2+1, threshold) — which is what
   both majority strategies test — the value then used is the one that would be used after ANY
   further responses [vs'] of the remaining nodes, in any map order: it cannot be overtaken, and it
   is used *)
Theorem C07_majority_early_exit_sound :
  forall (V : Type) (key slot_of : V -> N) (vs vs' : list V) (requests thr : Z)
         (order order' : list (N * (V * Z))),
    (Z.of_nat (length (vs ++ vs')) <= requests)%Z ->
    (att_exit requests thr <= largest (fold_left (bump key) vs []))%Z ->
    Permutation order (fold_left (bump key) vs []) ->
    Permutation order' (fold_left (bump key) (vs ++ vs') []) ->
    maj_result slot_of thr order' = maj_result slot_of thr order
    /\ maj_result slot_of thr order <> None.
Proof.
  intros V key slot_of vs vs' requests thr order order' Hlen Hexit Hp Hp'.
  assert (Hr : (0 <= requests)%Z) by lia.
  unfold att_exit in Hexit.
  destruct (largest_tbl key vs) as [_ [H0|[v [Hin Hv]]]].
  - exfalso. pose proof (Z.div_pos requests 2 Hr ltac:(lia)). lia.
  - destruct (maj_early_exit key slot_of vs vs' requests thr order order' v Hlen Hin) as [E [v0 [H0 _]]];
      try assumption; try lia.
    split; [exact E | congruence].
Qed.
Print Assumptions C07_majority_early_exit_sound.

Example C07_majority_example :
  let t := fold_left (bump (fun x : N => x / 10)) [11; 25; 12; 31; 13] [] in
  maj_result (fun x : N => x) 3 t = Some 11 /\ maj_result (fun x : N => x) 4 t = None
  /\ largest t = 3%Z.
Proof. vm_compute. auto. Qed.

(* first: what is returned is the first response of the list, provided it comes before the
   hard-timeout event *)
Theorem C07_first_returns_a_given_response :
  forall (V : Type) (es : list (event V)) (v : V),
    frun es = FDone (Some v) <->
    exists es1 p es2, es = es1 ++ EResp p v :: es2
                      /\ existsb is_resp es1 = false /\ existsb is_hard es1 = false.
Proof. intros V es v. exact (frun_some_iff es v). Qed.
Print Assumptions C07_first_returns_a_given_response.

(* ... an error exactly when the hard-timeout event comes before every response; and it is still
   waiting exactly when neither has happened *)
Theorem C07_first_error_iff_none_in_time :
  forall (V : Type) (es : list (event V)),
    (frun es = FDone None <->
     exists es1 es2, es = es1 ++ EHard :: es2 /\ existsb is_resp es1 = false /\ existsb is_hard es1 = false)
    /\ (frun es = FWait <-> existsb is_resp es = false /\ existsb is_hard es = false).
Proof. intros V es. split; [exact (frun_none_iff es) | exact (frun_wait_iff es)]. Qed.
Print Assumptions C07_first_error_iff_none_in_time.

Example C07_first_example :
  frun [EErr 0; EResp 1 7%N; EResp 2 8%N; EHard] = FDone (Some 7%N)
  /\ frun [EErr 0; EHard; EResp 1 7%N] = FDone None.
Proof. vm_compute. auto. Qed.

(* =========================================================================================== *)
(* E. The timed layer: all strategies, all node behaviours, all orders of simultaneous events *)

(* every strategy returns within its configured timeout, and never hangs *)
Theorem C07_returns_within_timeout :
  forall st pr ps o, In o (outcomes st pr ps) -> snd o <= p_timeout pr /\ fst o <> RHang.
Proof. exact outcomes_within. Qed.
Print Assumptions C07_returns_within_timeout.

(* best / latest: the result is an acceptable answer some node gave no later than the return, which
   no acceptable answer given before the return outscores; or an error, and then no acceptable
   answer was given before the hard timeout *)
Theorem C07_best_timed :
  forall st pr ps r t,
    template_of st = TBest -> In (r, t) (outcomes st pr ps) ->
    t <= p_timeout pr /\
    ((exists p0 v, r = result_of (Some v) /\ In p0 ps /\ gives_ok st pr p0 v /\ pv_time p0 <= t
        /\ forall p1 v1, In p1 ps -> gives_ok st pr p1 v1 -> pv_time p1 < t ->
                         sgt (vscore st pr v1) (vscore st pr v) = false)
     \/ (r = RErr /\ forall p1 v1, In p1 ps -> gives_ok st pr p1 v1 -> p_timeout pr <= pv_time p1)).
Proof. exact best_outcome_spec. Qed.
Print Assumptions C07_best_timed.

(* first: the result is the answer of a node that answered at the very instant of the return, and
   no node answered earlier; or an error at the timeout, and then no node answered before it *)
Theorem C07_first_timed :
  forall st pr ps r t,
    template_of st = TFirst -> In (r, t) (outcomes st pr ps) ->
    t <= p_timeout pr /\
    ((exists p0 v, r = result_of (Some v) /\ In p0 ps /\ gives pr p0 v /\ pv_time p0 = t
        /\ forall p1 v1, In p1 ps -> gives pr p1 v1 -> t <= pv_time p1)
     \/ (r = RErr /\ t = p_timeout pr /\ forall p1 v1, In p1 ps -> gives pr p1 v1 -> p_timeout pr <= pv_time p1)).
Proof. exact first_outcome_spec. Qed.
Print Assumptions C07_first_timed.

(* majority (attestation data with its threshold, block root with threshold 0), the harness giving
   equal ids exactly to equal contents: the value used was given, acceptable, by a node no later
   than the return; counting the nodes that gave an acceptable answer with a given id, it has at
   least one and at least the threshold of votes by the return, no value had more votes before the
   return, and a value with as many has no higher head slot.  Moreover the choice is FINAL when it
   is made before the strategy's decision point ([maj_final]: attestation data always -- its soft
   timeout decides nothing; block root when it returns before the soft timeout): no OTHER value is
   given by more nodes before the hard timeout than the value used had by the return -- "the most
   frequently reported value", not the most frequent so far; the loops stop early only on a strict
   majority of all the nodes (and never below the threshold).  Nothing is used only if no value
   reached max(1, threshold) votes before the hard timeout: "used whenever at least the threshold of
   nodes reported it within the timeout and never otherwise". *)
Theorem C07_majority_timed :
  forall st pr ps r t,
    (template_of st = TMajAtt \/ template_of st = TMajRoot) -> ids_ok ps ->
    In (r, t) (outcomes st pr ps) ->
    t <= p_timeout pr /\
    ((exists p0 v, r = result_of (Some v) /\ In p0 ps /\ gives_ok st pr p0 v /\ pv_time p0 <= t
        /\ (1 <= cnt st pr ps (fun x => (x <=? t)%N) (v_id v))%Z
        /\ (maj_thr st pr <= cnt st pr ps (fun x => (x <=? t)%N) (v_id v))%Z
        /\ (forall p1 v1, In p1 ps -> gives_ok st pr p1 v1 ->
             (cnt st pr ps (fun x => (x <? t)%N) (v_id v1) <= cnt st pr ps (fun x => (x <=? t)%N) (v_id v))%Z
             /\ (cnt st pr ps (fun x => (x <? t)%N) (v_id v1) = cnt st pr ps (fun x => (x <=? t)%N) (v_id v)
                 -> vslot pr v1 <= vslot pr v))
        /\ (maj_final (template_of st) (p_timeout pr) t = true ->
            forall p1 v1, In p1 ps -> gives_ok st pr p1 v1 -> v_id v1 <> v_id v ->
             (cnt st pr ps (fun x => (x <? p_timeout pr)%N) (v_id v1) <= cnt st pr ps (fun x => (x <=? t)%N) (v_id v))%Z
             /\ (cnt st pr ps (fun x => (x <? p_timeout pr)%N) (v_id v1) = cnt st pr ps (fun x => (x <=? t)%N) (v_id v)
                 -> vslot pr v1 <= vslot pr v)))
     \/ (r = RErr /\ forall p1 v1, In p1 ps -> gives_ok st pr p1 v1 ->
           (cnt st pr ps (fun x => (x <? p_timeout pr)%N) (v_id v1) < Z.max 1 (maj_thr st pr))%Z)).
Proof. exact maj_outcome_spec. Qed.
Print Assumptions C07_majority_timed.

(* Responses that fail the strategy's validity rules are never returned: whatever any of the
   fourteen strategies returns other than an error is the content of an answer some node gave, no
   later than the return, and that answer passes the strategy's validity rules ... *)
Theorem C07_invalid_never_returned :
  forall st pr ps r t, In (r, t) (outcomes st pr ps) ->
    r = RErr \/ exists p0 v, r = result_of (Some v) /\ In p0 ps /\ gives_ok st pr p0 v /\ pv_time p0 <= t.
Proof. exact outcomes_valid. Qed.
Print Assumptions C07_invalid_never_returned.

(* ... which are the rules the property states: data and target present and target epoch = the
   slot's epoch (attestation data, best and majority); no execution payload before bellatrix,
   otherwise a known version with a fee recipient that is present and not zero (proposals); data
   present (aggregates, contributions).  They coincide with [spec_valid], the predicate the check
   evaluates on the implementation's observed output. *)
Theorem C07_validity_rules :
  forall st pr r,
    accepts st pr r = spec_valid st pr r
    /\ (accepts st pr r = true ->
        match st, r with
        | (AttBest | AttMajority), RAtt nil_data nil_target _ _ target _ =>
            nil_data = false /\ nil_target = false /\ target = p_slot pr / p_spe pr
        | PropBest, RProp ver fee _ _ => ver = 1 \/ ver = 2 \/ (3 <= ver <= 5 /\ fee = 1)
        | AggBest, RAgg nil_data _ _ => nil_data = false
        | ContribBest, RContrib nil_data _ => nil_data = false
        | _, _ => True
        end).
Proof.
  intros st pr r. split; [|exact (accepts_rules st pr r)].
  destruct st, r; try reflexivity.
Qed.
Print Assumptions C07_validity_rules.

Example C07_invalid_example :
  let pr := mk_params 2000 32 64 0 [] in
  (* the higher-scoring attestation data has the wrong target epoch: the lower one is returned *)
  outcomes AttBest pr [mk_prov 0 100 false (BRespond (mk_value 0 (RAtt false false 64 1 2 7)));
                       mk_prov 1 200 false (BRespond (mk_value 1 (RAtt false false 64 2 3 7)))] = [(RVal 0, 200)]
  /\ outcomes AttMajority (mk_params 2000 32 64 2 []) [mk_prov 0 100 false (BRespond (mk_value 0 (RAtt false false 64 1 2 7)));
                       mk_prov 1 200 false (BRespond (mk_value 0 (RAtt false false 64 1 2 7)));
                       mk_prov 2 300 false BError] = [(RVal 0, 200)]
  /\ outcomes AttMajority (mk_params 2000 32 64 3 []) [mk_prov 0 100 false (BRespond (mk_value 0 (RAtt false false 64 1 2 7)));
                       mk_prov 1 200 false (BRespond (mk_value 0 (RAtt false false 64 1 2 7)));
                       mk_prov 2 300 false BError] = [(RErr, 300)].
Proof. vm_compute. auto. Qed.

(* non-vacuity: two nodes, the slower one better; it is returned when it answers before the soft
   timeout, and not waited for when it does not *)
Example C07_timed_example :
  let pr := mk_params 2000 32 64 0 [] in
  let v1 := mk_value 0 (RContrib false 3) in let v2 := mk_value 1 (RContrib false 9) in
  outcomes ContribBest pr [mk_prov 0 100 false (BRespond v1); mk_prov 1 900 false (BRespond v2)] = [(RVal 1, 900)]
  /\ outcomes ContribBest pr [mk_prov 0 100 false (BRespond v1); mk_prov 1 1100 false (BRespond v2)] = [(RVal 0, 1000)]
  /\ outcomes ContribFirst pr [mk_prov 0 100 false (BRespond v1); mk_prov 1 900 false (BRespond v2)] = [(RVal 0, 100)].
Proof. vm_compute. auto. Qed.

(* best, latest and block-root majority: an acceptable answer given before the soft timeout
   (half the timeout) ends the wait at the soft timeout at the latest *)
Theorem C07_soft_timeout_ends_wait :
  forall st pr ps r t,
    (template_of st = TBest \/ template_of st = TMajRoot) -> In (r, t) (outcomes st pr ps) ->
    forall p1 v1, In p1 ps -> gives_ok st pr p1 v1 -> pv_time p1 < p_timeout pr / 2 ->
    t <= p_timeout pr / 2.
Proof. exact outcomes_soft_rule. Qed.
Print Assumptions C07_soft_timeout_ends_wait.

(* =========================================================================================== *)
(* F. The property predicate of the check holds of the model, for all inputs.

   [P_b c] (Check/C07.v) is the property evaluated on the OBSERVED output of the implementation,
   without consulting the model: returned in time; every node asked once; best: an acceptable
   answer given by the return that no acceptable answer given before the return outscores, the
   soft-timeout rule, an error only if nothing acceptable came before the hard timeout; majority:
   at least one and at least the threshold of votes, no value with more votes, ties by head slot,
   an error only if no value reached the threshold in time; first: an answer given at the instant
   of return with none earlier, an error only if none came in time.
   [agree c]: the observed (result, instant) is one of the model's outcomes, every node was called
   once (and the printed case is well formed).  Hence for EVERY strategy, parameters and node
   behaviours: whatever the model can do satisfies the property predicate; the predicate can only
   fail on the implementation where the implementation leaves the model. *)
Theorem C07_model_satisfies_property_predicate :
  forall c : case, agree c = true -> P_b c = true.
Proof. exact agree_implies_P_b. Qed.
Print Assumptions C07_model_satisfies_property_predicate.

(* The predicate means the property: [P c] (Check/C07.v) is the property written as a proposition
   over the nodes (who gave which acceptable answer when; votes counted over nodes).  Equal ids
   carrying equal contents, a case that passes [P_b] satisfies [P] ... *)
Theorem C07_property_predicate_is_sound :
  forall c : case, ids_ok (c_provs c) -> P_b c = true -> P c.
Proof. exact P_b_sound. Qed.
Print Assumptions C07_property_predicate_is_sound.

(* ... and so does every case on which the implementation's observed output is one of the model's
   outcomes: the model satisfies the property, for all strategies, parameters, node behaviours,
   orders of simultaneous events and Go map orders. *)
Theorem C07_model_satisfies_property :
  forall c : case, agree c = true -> P c.
Proof. exact agree_implies_P. Qed.
Print Assumptions C07_model_satisfies_property.

(* =========================================================================================== *)
(* G. The score of a block proposal, over the whole range of block values.

   Consensus and execution value are amounts of wei of any size (2^64 wei is about 18.45 ETH: a
   large MEV block does not fit 64 bits).  beaconblockproposal/best adds them exactly and converts
   the sum once; the model's score is [round53 (cv + ev)], the float64 nearest to the exact sum
   (ties to even), compared with Go's [>].  Theorems 7-8 and 18 then say "no consumed / acceptable
   answer outscores the returned one" for THIS score; the two theorems below say what that score
   is in terms of the exact values. *)

(* [round53] is the nearest-float64 rounding: exact below 2^53, monotone, and off by at most half
   the spacing 2^(log2 n - 52) of the float64 numbers at the magnitude of n. *)
Theorem C07_proposal_score_is_nearest_float64 :
  (forall n, n < 2 ^ 53 -> round53 n = n)
  /\ (forall a b, a <= b -> round53 a <= round53 b)
  /\ (forall n, 53 <= N.log2 n ->
        2 * round53 n <= 2 * n + 2 ^ (N.log2 n - 52) /\ 2 * n <= 2 * round53 n + 2 ^ (N.log2 n - 52)).
Proof.
  split; [exact round53_small|]. split; [exact round53_mono|]. exact round53_err.
Qed.
Print Assumptions C07_proposal_score_is_nearest_float64.

(* Hence, for any two proposals (any versions, fee recipients, values of any size): one that
   outscores the other is worth strictly more; one that is worth more by more than the float64
   spacing at its magnitude outscores the other; below 2^53 wei the score order IS the order of
   the exact values.  (Within the spacing two different values may share a score: then the first
   received stays, theorem 8.) *)
Theorem C07_proposal_score_order :
  forall pr v1 f1 c1 e1 v2 f2 c2 e2,
    let s1 := score_of PropBest pr (RProp v1 f1 c1 e1) in
    let s2 := score_of PropBest pr (RProp v2 f2 c2 e2) in
    (sgt s1 s2 = true -> c2 + e2 < c1 + e1)
    /\ (c2 + e2 + 2 ^ (N.log2 (c1 + e1) - 52) < c1 + e1 -> sgt s1 s2 = true)
    /\ (c1 + e1 < 2 ^ 53 -> c2 + e2 < 2 ^ 53 -> (sgt s1 s2 = true <-> c2 + e2 < c1 + e1)).
Proof.
  intros pr v1 f1 c1 e1 v2 f2 c2 e2 s1 s2. split; [|split].
  - exact (prop_score_gt_exact pr v1 f1 c1 e1 v2 f2 c2 e2).
  - exact (prop_score_separated pr v1 f1 c1 e1 v2 f2 c2 e2).
  - exact (prop_score_exact_below_2_53 pr v1 f1 c1 e1 v2 f2 c2 e2).
Qed.
Print Assumptions C07_proposal_score_order.

(* non-vacuity: a 19 ETH block (execution value above 2^64 wei) outscores a 1 ETH block; 2^64 and
   2^64 + 1 wei share a float64 (neither outscores the other); 2^64 + 4096 wei is the next one *)
Example C07_proposal_score_examples :
  let pr := mk_params 2000000000 32 3200 0 [] in
  let sc := fun cv ev => score_of PropBest pr (RProp 5 1 cv ev) in
  sgt (sc 50000000000000000 19000000000000000000) (sc 50000000000000000 1000000000000000000) = true
  /\ sgt (sc 0 18446744073709551617) (sc 0 18446744073709551616) = false
  /\ sgt (sc 0 18446744073709551616) (sc 0 18446744073709551617) = false
  /\ sgt (sc 9223372036854775808 9223372036854775808) (sc 9223372036854775813 1000) = true
  /\ round53 (2 ^ 64 + 2048) = 2 ^ 64 /\ round53 (2 ^ 64 + 2049) = 2 ^ 64 + 4096
  /\ round53 (2 ^ 64 + 6144) = 2 ^ 64 + 8192.
Proof. vm_compute. repeat split; reflexivity. Qed.
