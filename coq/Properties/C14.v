From Verif Require Import Lib.Base Model.C14_Subscriptions Proofs.C14.
Theorem C14_placeholder : to_submit 0 [] = [].
Proof. reflexivity. Qed.
Print Assumptions C14_placeholder.
