(* C14 -- future attester duties are all subscribed; every selected aggregator aggregates.
   Property theorems only; the lemmas are in Proofs/C14.v, the model in Model/C14_Subscriptions.v
   (what the code does, statement by statement) and the vocabulary of the statements in
   Model/C14_Spec.v.

   Reading guide.
   [subscription_info target sign_ok duties] is what beaconcommitteesubscriber.Subscribe returns
   (and the controller stores per epoch) for the beacon node's attester-duties answer [duties]:
   one entry per (slot, committee).  [sign_ok s = false] says that the signer failed for slot s.
   [to_submit cur info] is the payload of SubmitBeaconCommitteeSubscriptions when the current slot
   is [cur].  [attest_run pr info cur acct_ok jobs atts] is the scheduler's table of aggregation
   jobs after AttestAndScheduleAggregate has walked the attestations [atts] with the stored [info],
   starting from the table [jobs].  [run pr init ops] is a whole history of subscribe / attest
   operations of the controller.  A [duty] carries the 32 bytes of SHA-256 of its slot signature
   ([d_hash]); SHA-256 itself is not modelled (the harness supplies the digest computed by Go's
   crypto/sha256 on the bytes the signer returned).
   [duty_for sign_ok ds s c d]: d is one of the duties [ds], for slot s and committee c, and slot
   s could be signed.  [selected target d]: the consensus specification's is_aggregator on d's
   own committee length and digest.  [consistent_duties ds]: the beacon node's answer does not
   contradict itself on committees_at_slot / committee length.
   Every theorem quantifies over ALL duty lists (any slots before, at and after the current one,
   any number of committees and validators per committee, any order), all digests, sizes, targets. *)
From Verif Require Import Lib.Base Model.C14_Subscriptions Model.C14_Spec Proofs.C14 Check.C14 Proofs.C14_Check Proofs.C14_During Model.C14_Reorg Proofs.C14_Reorg.
From Coq Require Import Sorting.Permutation.

(* ------------------------------------------------------------------------------------------- *)
(* The selection rule.                                                                         *)

(* AggregatorsAndSignatures' arithmetic (binary.LittleEndian.Uint64(hash[:8]) % modulo == 0 with
   modulo = size / target, raised to 1 when 0) is the specification's
   bytes_to_uint64(hash[0:8]) % max(1, size // target) == 0, for every committee size, target and
   digest. *)
Theorem C14_is_aggregator_spec :
  forall len target hash, bytes hash -> (8 <= length hash)%nat ->
    is_aggregator len target hash = spec_is_aggregator len target hash.
Proof. exact is_aggregator_spec_lemma. Qed.
Print Assumptions C14_is_aggregator_spec.

(* hash8: the shifts-and-ors of LittleEndian.Uint64 are the little-endian value of the first eight
   bytes, and it fits a uint64 (no wrap hides in the model's unbounded N). *)
Theorem C14_hash8_little_endian :
  forall hash, bytes hash -> (8 <= length hash)%nat ->
    le64 hash = bytes_to_uint64 (firstn 8 hash) /\ le64 hash < two64.
Proof. intros hash Hb Hl. split; [apply le64_spec | apply le64_lt_two64]; assumption. Qed.
Print Assumptions C14_hash8_little_endian.

(* nothing but the first eight bytes of the digest is read, by the code or by the specification
   (which is why the harness prints only those). *)
Theorem C14_selection_reads_first_8_bytes :
  forall len target hash,
    is_aggregator len target (firstn 8 hash) = is_aggregator len target hash /\
    spec_is_aggregator len target (firstn 8 hash) = spec_is_aggregator len target hash.
Proof. intros. split; [apply is_aggregator_prefix | apply spec_is_aggregator_prefix]. Qed.
Print Assumptions C14_selection_reads_first_8_bytes.

(* a committee smaller than twice the target makes every member an aggregator *)
Theorem C14_small_committee_all_aggregate :
  forall len target hash, len < 2 * target -> is_aggregator len target hash = true.
Proof. exact small_committee_all_aggregate. Qed.
Print Assumptions C14_small_committee_all_aggregate.

(* ------------------------------------------------------------------------------------------- *)
(* Subscriptions.                                                                              *)

(* For ANY attester duties and ANY current slot: the submitted payload holds exactly one
   subscription per (slot, committee) that has a duty in a slot after the current one --
   whatever other duties lie at or before the current slot -- and every subscription names a
   validator that has that very duty, with the committees_at_slot merged for that slot and the
   aggregator flag computed for that validator. *)
Theorem C14_all_future_pairs_subscribed :
  forall target sign_ok duties cur,
    let payload := to_submit cur (subscription_info target sign_ok duties) in
    NoDup (map pkey payload) /\
    (forall s c, In (s, c) (map pkey payload) <-> cur < s /\ exists d, duty_for sign_ok duties s c d) /\
    (forall p, In p payload ->
       cur < p_slot p /\
       exists d, duty_for sign_ok duties (p_slot p) (p_comm p) d /\
                 p_val p = d_val d /\
                 p_cas p = cas_of (sort_duties duties) (p_slot p) /\
                 p_agg p = agg_of target (sort_duties duties) d).
Proof.
  intros target sign_ok duties cur payload. split; [apply submitted_nodup|].
  split; [apply submitted_pairs | apply submitted_entry].
Qed.
Print Assumptions C14_all_future_pairs_subscribed.

(* ... and when the beacon node's answer is self-consistent, those are the duty's own
   committees_at_slot and the specification's selection rule on the validator's slot signature. *)
Theorem C14_subscriptions_carry_duty_and_spec_flag :
  forall target sign_ok duties cur p,
    consistent_duties duties -> digests_ok duties ->
    In p (to_submit cur (subscription_info target sign_ok duties)) ->
    exists d, duty_for sign_ok duties (p_slot p) (p_comm p) d /\ p_val p = d_val d /\
              p_cas p = d_cas d /\ p_agg p = selected target d.
Proof. exact submitted_entry_consistent. Qed.
Print Assumptions C14_subscriptions_carry_duty_and_spec_flag.

(* "regardless of other duties of the same epoch lying in the past": the payload is, as a list,
   the one computed from the future duties alone ... *)
Theorem C14_future_subscriptions_independent_of_past :
  forall target sign_ok duties cur,
    to_submit cur (subscription_info target sign_ok duties) =
    to_submit cur (subscription_info target sign_ok (filter (fun d => cur <? d_slot d) duties)).
Proof. exact submitted_independent_of_past'. Qed.
Print Assumptions C14_future_subscriptions_independent_of_past.

(* ... so adding any duties that are not in the future changes nothing. *)
Theorem C14_past_duties_do_not_matter :
  forall target sign_ok past duties cur,
    (forall d, In d past -> d_slot d <= cur) ->
    to_submit cur (subscription_info target sign_ok (past ++ duties)) =
    to_submit cur (subscription_info target sign_ok duties).
Proof. exact past_duties_do_not_matter. Qed.
Print Assumptions C14_past_duties_do_not_matter.

(* The stored information (what the controller keeps for the epoch): exactly one entry per
   (slot, committee) with a duty, each made from one of that committee's duties. *)
Theorem C14_stored_info_one_entry_per_pair :
  forall target sign_ok duties,
    let info := subscription_info target sign_ok duties in
    NoDup (map skey info) /\
    (forall s c, In (s, c) (map skey info) <-> exists d, duty_for sign_ok duties s c d) /\
    (forall e, In e info ->
       exists d, duty_for sign_ok duties (s_slot e) (s_comm e) d /\ e = mk_sub target (sort_duties duties) d).
Proof.
  intros target sign_ok duties info. split; [apply info_nodup|]. split; [apply info_keys|].
  intros e He. destruct (info_entry_in _ _ _ _ He) as (d & Hd & Hm & _). exists d. auto.
Qed.
Print Assumptions C14_stored_info_one_entry_per_pair.

(* The closed form of every entry: the committee's validators in MergeDuties' order, the first
   aggregator among them if any, otherwise the last. *)
Theorem C14_stored_entry_closed_form :
  forall target sign_ok duties s c,
    find_sub s c (subscription_info target sign_ok duties) =
    choose target (sort_duties duties) (members sign_ok (sort_duties duties) s c).
Proof. exact info_entry. Qed.
Print Assumptions C14_stored_entry_closed_form.

(* The order of the beacon node's answer does not matter (nor what an unstable sort does with it),
   as long as no validator is listed twice for one slot and committee. *)
Theorem C14_info_independent_of_answer_order :
  forall target sign_ok duties duties',
    Permutation duties duties' -> NoDup (map dtriple duties) ->
    subscription_info target sign_ok duties = subscription_info target sign_ok duties'.
Proof. exact info_order_independent. Qed.
Print Assumptions C14_info_independent_of_answer_order.

(* calculateSubscriptionInfo runs one goroutine per slot, each walking its validators in order;
   the model walks MergeDuties' list [M] once.  Every schedule of the goroutines -- every
   interleaving [M'] that keeps each slot's own order -- records the same entry for every pair. *)
Theorem C14_info_independent_of_goroutine_schedule :
  forall target L M M' s c,
    (forall s, filter (same_slot s) M' = filter (same_slot s) M) ->
    find_sub s c (fold_left (add_member target L) M' []) = find_sub s c (fold_left (add_member target L) M []).
Proof. exact info_schedule_independent. Qed.
Print Assumptions C14_info_independent_of_goroutine_schedule.

(* A committee with at least one selected validator is recorded -- and, when in the future,
   subscribed -- with a selected validator and that validator's own slot signature. *)
Theorem C14_recorded_aggregator_if_any :
  forall target sign_ok duties s c d cur,
    consistent_duties duties -> digests_ok duties ->
    duty_for sign_ok duties s c d -> selected target d = true ->
    exists e d', find_sub s c (subscription_info target sign_ok duties) = Some e /\ s_agg e = true /\
      duty_for sign_ok duties s c d' /\ selected target d' = true /\
      s_val e = d_val d' /\ s_sig e = d_sig d' /\
      (cur < s -> In (to_subscription e) (to_submit cur (subscription_info target sign_ok duties))).
Proof. exact recorded_aggregator_spec. Qed.
Print Assumptions C14_recorded_aggregator_if_any.

(* The same without any assumption on the answer, in terms of the flag vouch computes; and the
   converse: the recorded flag is set only if some validator of the committee is selected. *)
Theorem C14_recorded_flag_iff_some_validator_selected :
  forall target sign_ok duties s c e,
    find_sub s c (subscription_info target sign_ok duties) = Some e ->
    exists d, duty_for sign_ok duties s c d /\ e = mk_sub target (sort_duties duties) d /\
      (s_agg e = true <->
       exists d', duty_for sign_ok duties s c d' /\ agg_of target (sort_duties duties) d' = true).
Proof. exact recorded_flag_sound. Qed.
Print Assumptions C14_recorded_flag_iff_some_validator_selected.

(* Which validator is named: the selected one with the lowest index; if none is selected, the one
   with the highest index (so the result does not depend on the order of the node's answer). *)
Theorem C14_recorded_validator_is_lowest_selected :
  forall target sign_ok duties s c e,
    find_sub s c (subscription_info target sign_ok duties) = Some e ->
    (s_agg e = true ->
       forall d', duty_for sign_ok duties s c d' -> agg_of target (sort_duties duties) d' = true ->
                  s_val e <= d_val d') /\
    (s_agg e = false -> forall d', duty_for sign_ok duties s c d' -> d_val d' <= s_val e).
Proof. exact recorded_which. Qed.
Print Assumptions C14_recorded_validator_is_lowest_selected.

(* ------------------------------------------------------------------------------------------- *)
(* Aggregation jobs.                                                                           *)

(* AttestAndScheduleAggregate over ANY stored information, ANY list of produced attestations and
   ANY job table with distinct names: no job is lost or changed; names stay distinct; every attested
   committee whose entry says aggregator (slot not in the past, account obtainable) has exactly
   one job afterwards, and when that job is new it runs at StartOfSlot + delay for the recorded
   validator with its slot signature and the data root of one of the committee's attestations;
   and no other job is created. *)
Theorem C14_attest_schedules_every_recorded_aggregator :
  forall pr info cur acct_ok jobs atts,
    NoDup (map jkey jobs) ->
    let jobs' := attest_run pr info cur acct_ok jobs atts in
    (exists new, jobs' = jobs ++ new) /\
    NoDup (map jkey jobs') /\
    (forall a e, In a atts -> find_sub (a_slot a) (a_comm a) info = Some e -> s_agg e = true ->
       cur <= a_slot a -> acct_ok (s_val e) = true ->
       exists j, In j jobs' /\ jkey j = akey a /\
         (forall j', In j' jobs' -> jkey j' = akey a -> j' = j) /\
         (~ In (akey a) (map jkey jobs) ->
            j_time j = a_slot a * slot_ms pr + delay_ms pr /\ j_dslot j = a_slot a /\
            j_val j = s_val e /\ j_sig j = s_sig e /\
            exists a', In a' atts /\ akey a' = akey a /\ j_root j = a_root a')) /\
    (forall j, In j jobs' -> ~ In j jobs ->
       exists a e, In a atts /\ find_sub (a_slot a) (a_comm a) info = Some e /\ s_agg e = true /\
         cur <= a_slot a /\ acct_ok (s_val e) = true /\ j = mk_job pr a e).
Proof. exact attest_run_main. Qed.
Print Assumptions C14_attest_schedules_every_recorded_aggregator.

(* From the duties to the jobs: for every committee of the slot with an attestation produced and
   a selected aggregator among vouch's validators there is exactly one aggregation job afterwards;
   a new one runs at StartOfSlot + aggregation delay for a selected validator of that committee
   with that validator's slot signature. *)
Theorem C14_every_selected_committee_gets_job :
  forall pr sign_ok duties cur acct_ok jobs atts a d,
    consistent_duties duties -> digests_ok duties -> NoDup (map jkey jobs) ->
    In a atts -> cur <= a_slot a ->
    duty_for sign_ok duties (a_slot a) (a_comm a) d -> selected (agg_target pr) d = true ->
    (forall d', duty_for sign_ok duties (a_slot a) (a_comm a) d' -> selected (agg_target pr) d' = true ->
                acct_ok (d_val d') = true) ->
    let jobs' := attest_run pr (subscription_info (agg_target pr) sign_ok duties) cur acct_ok jobs atts in
    exists j, In j jobs' /\ jkey j = akey a /\
      (forall j', In j' jobs' -> jkey j' = akey a -> j' = j) /\
      (~ In (akey a) (map jkey jobs) ->
         j_time j = a_slot a * slot_ms pr + delay_ms pr /\ j_dslot j = a_slot a /\
         (exists d', duty_for sign_ok duties (a_slot a) (a_comm a) d' /\ selected (agg_target pr) d' = true /\
                     j_val j = d_val d' /\ j_sig j = d_sig d') /\
         exists a', In a' atts /\ akey a' = akey a /\ j_root j = a_root a').
Proof. exact selected_committee_gets_job. Qed.
Print Assumptions C14_every_selected_committee_gets_job.

(* ------------------------------------------------------------------------------------------- *)
(* Histories of the controller.                                                                *)

(* the information used for an epoch is that of the epoch's last subscribe that got its duties *)
Theorem C14_history_stored_info :
  forall pr ops ep,
    get_info ep (st_infos (fst (run pr init ops))) = last_info pr ep ops None.
Proof. intros pr ops ep. apply (run_infos pr ops init ep). Qed.
Print Assumptions C14_history_stored_info.

(* along any history no job is ever lost, names stay distinct, and every job runs at
   StartOfSlot(its slot) + delay carrying a duty of its own slot *)
Theorem C14_history_jobs_invariant :
  forall pr ops1 ops2,
    let st1 := fst (run pr init ops1) in
    let st2 := fst (run pr st1 ops2) in
    (exists new, st_jobs st2 = st_jobs st1 ++ new) /\
    NoDup (map jkey (st_jobs st2)) /\
    Forall (fun j => j_time j = j_slot j * slot_ms pr + delay_ms pr /\ j_dslot j = j_slot j) (st_jobs st2).
Proof.
  intros pr ops1 ops2 st1 st2.
  destruct (run_jobs pr ops2 st1) as [P I]. split; [exact P|].
  apply I. apply (proj2 (run_jobs pr ops1 init)). apply init_inv.
Qed.
Print Assumptions C14_history_jobs_invariant.

(* A head event (HandleHeadEvent's housekeeping) never touches the jobs, and removes the
   information of an epoch exactly when it is a head of the current slot whose epoch is two or more
   epochs after it -- in plain arithmetic: during epochs 0 and 1 nothing goes.  ([ep] < 2^64-1:
   nobody subscribes for FAR_FUTURE_EPOCH, the one value where the code's uint64 sum wraps.) *)
Theorem C14_head_event_drops_only_old_epochs :
  forall pr st hslot cur ep, ep + 1 < two64 ->
    let st' := fst (step pr st (OHead hslot cur)) in
    st_jobs st' = st_jobs st /\
    get_info ep (st_infos st') =
      if (hslot =? cur) && (ep + 1 <? hslot / spe pr) then None else get_info ep (st_infos st).
Proof. exact step_head. Qed.
Print Assumptions C14_head_event_drops_only_old_epochs.

Theorem C14_head_event_in_epochs_0_and_1_drops_nothing :
  forall pr st hslot cur ep, ep + 1 < two64 -> hslot / spe pr <= 1 ->
    get_info ep (st_infos (fst (step pr st (OHead hslot cur)))) = get_info ep (st_infos st).
Proof. exact step_head_early. Qed.
Print Assumptions C14_head_event_in_epochs_0_and_1_drops_nothing.

(* The same housekeeping written with a subtraction (`subscriptionEpoch < epoch - 1`) is the same
   test from epoch 1 on, and refuted in epoch 0: every epoch's information would go. *)
Theorem C14_head_prune_by_subtraction_refuted :
  (forall ep, ep + 1 < two64 -> stale64_by_subtraction ep 0 = true /\ stale64 ep 0 = false) /\
  (forall ep hepoch, 1 <= hepoch -> ep + 1 < two64 -> stale64_by_subtraction ep hepoch = stale64 ep hepoch).
Proof.
  split; [|exact by_subtraction_later].
  intros ep B. split; [apply by_subtraction_epoch0; exact B|]. unfold stale64. apply N.ltb_ge, N.le_0_l.
Qed.
Print Assumptions C14_head_prune_by_subtraction_refuted.

(* The property over a whole history: whatever happened before, after a subscribe of the epoch and
   any operations that leave the epoch's information alone -- subscribes of other epochs, failed
   subscribes, attests, and head events of the epoch itself, of the next epoch, or not of the
   current slot ([keeps]) --, attesting a slot of the epoch leaves exactly one aggregation job
   for every attested committee with a selected validator of ours. *)
Theorem C14_history_every_selected_committee_gets_job :
  forall pr ops1 ep cur1 sign_fail duties ops2 dslot cur no_acct atts a d,
    ep + 1 < two64 -> Forall (keeps pr ep) ops2 -> dslot / spe pr = ep ->
    consistent_duties duties -> digests_ok duties ->
    In a atts -> cur <= a_slot a ->
    duty_for (sign_ok_of sign_fail) duties (a_slot a) (a_comm a) d -> selected (agg_target pr) d = true ->
    (forall d', duty_for (sign_ok_of sign_fail) duties (a_slot a) (a_comm a) d' ->
                selected (agg_target pr) d' = true -> acct_ok_of no_acct (d_val d') = true) ->
    let st := fst (run pr init (ops1 ++ OSub ep cur1 false false sign_fail duties :: ops2)) in
    let r := step pr st (OAtt dslot cur false no_acct atts) in
    snd r = OutAtt (st_jobs (fst r)) /\
    (forall j, In j (st_jobs st) -> In j (st_jobs (fst r))) /\
    exists j, In j (st_jobs (fst r)) /\ jkey j = akey a /\
      (forall j', In j' (st_jobs (fst r)) -> jkey j' = akey a -> j' = j) /\
      j_time j = a_slot a * slot_ms pr + delay_ms pr /\ j_dslot j = a_slot a /\
      (~ In (akey a) (map jkey (st_jobs st)) ->
         (exists d', duty_for (sign_ok_of sign_fail) duties (a_slot a) (a_comm a) d' /\
                     selected (agg_target pr) d' = true /\ j_val j = d_val d' /\ j_sig j = d_sig d') /\
         exists a', In a' atts /\ akey a' = akey a /\ j_root j = a_root a').
Proof. exact history_selected_committee_gets_job. Qed.
Print Assumptions C14_history_every_selected_committee_gets_job.

(* ------------------------------------------------------------------------------------------- *)
(* The property predicate of the correspondence check (Check/C14.v), evaluated on what the REAL
   implementation was observed to do, never through the model.                                 *)

(* P_sub true on an observed submission (all calls of one subscribe) implies the property of that
   submission: exactly the pairs with a duty after the current slot, once each; each naming a
   validator with that duty, its committees_at_slot and the specification's flag; aggregator if
   any validator of the committee is selected. *)
Theorem C14_P_sub_sound :
  forall tgt cur sign_fail duties calls,
    P_sub tgt cur false false sign_fail duties calls = true ->
    let entries := concat calls in
    NoDup (map pkey entries) /\
    (forall s c, In (s, c) (map pkey entries) <->
                 cur < s /\ exists d, duty_for (sign_ok_of sign_fail) duties s c d) /\
    (forall p, In p entries ->
       exists d, duty_for (sign_ok_of sign_fail) duties (p_slot p) (p_comm p) d /\ cur < p_slot p /\
         p_val p = d_val d /\
         (consistent_duties duties -> p_cas p = d_cas d /\ p_agg p = selected tgt d)) /\
    (consistent_duties duties ->
       forall p d, In p entries -> duty_for (sign_ok_of sign_fail) duties (p_slot p) (p_comm p) d ->
                   cur < p_slot p -> selected tgt d = true -> p_agg p = true).
Proof. exact P_sub_sound. Qed.
Print Assumptions C14_P_sub_sound.

(* ... and the model's submission always satisfies it: P_sub cannot fire on an implementation that
   agrees with the model (no false alarm from the predicate itself). *)
Theorem C14_model_satisfies_P_sub :
  forall tgt cur sign_fail duties,
    digests_ok duties ->
    P_sub tgt cur false false sign_fail duties
          [to_submit cur (subscription_info tgt (sign_ok_of sign_fail) duties)] = true.
Proof. exact model_satisfies_P_sub. Qed.
Print Assumptions C14_model_satisfies_P_sub.

(* P_att true on an observed attest step ([prev]: the jobs observed before it, [kn_all]: the latest
   subscribe inputs per epoch, [kn]: those that no head event since was entitled to drop) implies: nothing scheduled is lost; names are distinct; the real
   Aggregate requested and submitted what the job carries; every new job is for an attested
   committee, not in the past, at StartOfSlot + delay, for one of our validators with that duty
   and its own slot signature (a selected one, when the answer was self-consistent); and every
   attested committee with a selected validator has a job. *)
Theorem C14_P_att_sound :
  forall pr kn_all kn prev dslot cur no_acct atts jobs,
    P_att pr kn_all kn prev dslot cur false no_acct atts jobs = true ->
    let js := map fst jobs in
    (forall j, In j prev -> In j js) /\
    NoDup (map jkey js) /\
    (forall j o, In (j, o) jobs -> o = Some (j_dslot j, j_root j, j_val j, j_sig j)) /\
    (forall j, In j js -> ~ In (jkey j) (map jkey prev) ->
       exists sf ds, known_get (dslot / spe pr) kn_all = Some (sf, ds) /\
         (exists a, In a atts /\ akey a = jkey j /\ a_root a = j_root j) /\
         cur <= j_slot j /\ j_time j = j_slot j * slot_ms pr + delay_ms pr /\ j_dslot j = j_slot j /\
         acct_ok_of no_acct (j_val j) = true /\
         exists d, duty_for (sign_ok_of sf) ds (j_slot j) (j_comm j) d /\ d_val d = j_val j /\
                   d_sig d = j_sig j /\ (consistent_duties ds -> selected (agg_target pr) d = true)) /\
    (forall sf ds, known_get (dslot / spe pr) kn = Some (sf, ds) -> consistent_duties ds ->
       forall a d, In a atts -> cur <= a_slot a ->
         duty_for (sign_ok_of sf) ds (a_slot a) (a_comm a) d -> selected (agg_target pr) d = true ->
         (forall d', In d' ds -> dkey d' = akey a -> selected (agg_target pr) d' = true ->
                     acct_ok_of no_acct (d_val d') = true) ->
         In (akey a) (map jkey js)).
Proof. exact P_att_sound. Qed.
Print Assumptions C14_P_att_sound.

(* P_head true on what was observed after a head event: the information of every epoch subscribed
   so far ([kn]) that the head may not drop -- the head's epoch, the one before, later ones; all of
   them when the head is not of the current slot -- is still held. *)
Theorem C14_P_head_sound :
  forall pr kn hslot cur infos,
    P_head pr kn hslot cur infos = true ->
    forall ep v, In (ep, v) kn -> (hslot <> cur \/ hslot / spe pr <= ep + 1) -> In ep (map fst infos).
Proof. exact P_head_sound. Qed.
Print Assumptions C14_P_head_sound.

(* The whole predicate over a whole history: whenever the implementation's observed outputs agree
   with the model's (the correspondence test [agree] of the check), P_b holds on them -- for every
   history of subscribe / attest / head-event operations with proper digests and subscribed
   epochs below 2^64-1.  So a VIOLATION can only arise
   where the implementation departs from the model, and the model satisfies the property by the
   theorems above: the predicate itself cannot raise a false alarm. *)
Theorem C14_P_b_holds_wherever_model_agrees :
  forall c : case, case_digests_ok c -> agree c = true -> P_b c = true.
Proof. exact agree_implies_P_b. Qed.
Print Assumptions C14_P_b_holds_wherever_model_agrees.

(* ------------------------------------------------------------------------------------------- *)
(* The pinned tree (before the two `fix:` commits), kept as refutations with their witnesses.  *)

(* `return` instead of `continue` in Subscribe's goroutine: ONE duty that is not in the future
   suppressed the whole submission, for every duty list. *)
Theorem C14_pinned_subscribe_refuted :
  forall target sign_ok duties cur d,
    In d duties -> sign_ok (d_slot d) = true -> d_slot d <= cur ->
    to_submit_pinned cur (subscription_info target sign_ok duties) = None.
Proof. exact pinned_drops_everything. Qed.
Print Assumptions C14_pinned_subscribe_refuted.

Definition h_sel : list N := [0; 0; 0; 0; 0; 0; 0; 0].     (* hash8 = 0: selected for every size *)
Definition h_not : list N := [1; 0; 0; 0; 0; 0; 0; 0].     (* hash8 = 1: selected iff size/target <= 1 *)

(* corpus/C14/past-duty-must-not-drop-future-subscriptions.json in miniature *)
Definition ex_duties : list duty :=
  [ mkDuty 31 5 0 64 2 7 1001 h_sel;    (* future, selected *)
    mkDuty 34 3 0 64 2 4 1002 h_not;    (* past *)
    mkDuty 32 4 1 64 2 2 1003 h_not;    (* at the current slot *)
    mkDuty 33 5 1 64 2 9 1004 h_not;    (* future, another committee *)
    mkDuty 30 5 0 64 2 1 1005 h_not ].  (* future, same committee as 31, not selected *)

Example C14_pinned_subscribe_witness :
  to_submit_pinned 4 (subscription_info 16 (fun _ => true) ex_duties) = None /\
  to_submit 4 (subscription_info 16 (fun _ => true) ex_duties) =
    [ mkSubscription 31 5 0 2 true; mkSubscription 33 5 1 2 false ].
Proof. split; vm_compute; reflexivity. Qed.

(* `return` after the first scheduled job in AttestAndScheduleAggregate: the slot's other
   aggregating committees got no job. *)
Definition ex_pr : params := mkParams 12000 8000 8 16.
Definition ex_duties2 : list duty :=
  [ mkDuty 40 72 0 64 3 1 2001 h_sel; mkDuty 41 72 1 64 3 2 2002 h_sel; mkDuty 42 72 2 64 3 3 2003 h_not ].
Definition ex_atts : list att := [ mkAtt 72 0 9000; mkAtt 72 1 9001; mkAtt 72 2 9002 ].

Theorem C14_pinned_aggregate_refuted :
  exists pr info cur acct_ok atts a e,
    In a atts /\ find_sub (a_slot a) (a_comm a) info = Some e /\ s_agg e = true /\ cur <= a_slot a /\
    acct_ok (s_val e) = true /\
    ~ In (akey a) (map jkey (attest_run_pinned pr info cur acct_ok [] atts)).
Proof.
  exists ex_pr, (subscription_info 16 (fun _ => true) ex_duties2), 72, (fun _ => true), ex_atts,
         (mkAtt 72 1 9001), (mkSub 41 72 1 64 3 2 true 2002).
  split; [right; left; reflexivity|]. split; [vm_compute; reflexivity|].
  split; [reflexivity|]. split; [vm_compute; discriminate|]. split; [reflexivity|].
  vm_compute. intros [H|[]]. discriminate.
Qed.
Print Assumptions C14_pinned_aggregate_refuted.

(* ------------------------------------------------------------------------------------------- *)
(* Operations that complete while the attest is waiting for attester.Attest (added after seeded
   change C14-5).  AttestAndScheduleAggregate calls Attest and only then looks the epoch's
   information up; a subscribe of the epoch that completes meanwhile (start-up part-way through a
   slot; the re-subscribe of a reorganisation) is therefore the one that decides.  A history is a
   list of [hop]s: [HDuring mid o] says that the operations [mid] completed while [o] was waiting
   for its outside call; [linearise] puts them where they take effect.                           *)

(* The state in which the waiting attest schedules its jobs is the state after everything that
   completed during Attest. *)
Theorem C14_attest_schedules_in_state_after_attest_returns :
  forall pr hs mid o,
    fst (run pr init (linearise (hs ++ [HDuring mid o]))) =
    fst (step pr (fst (run pr init (linearise hs ++ mid))) o).
Proof. exact during_attest_state. Qed.
Print Assumptions C14_attest_schedules_in_state_after_attest_returns.

(* The property for that shape: whatever happened before ([hs]) and whatever else completes while
   Attest is in flight ([mid1] before, [mid2] after -- the latter leaving the epoch's information
   alone), a subscribe of the epoch that completes during Attest makes every attested committee
   with a selected validator of ours get exactly one aggregation job. *)
Theorem C14_subscribe_during_attest_every_selected_committee_gets_job :
  forall pr hs mid1 ep cur1 sign_fail duties mid2 dslot cur no_acct atts a d,
    ep + 1 < two64 -> Forall (keeps pr ep) mid2 -> dslot / spe pr = ep ->
    consistent_duties duties -> digests_ok duties ->
    In a atts -> cur <= a_slot a ->
    duty_for (sign_ok_of sign_fail) duties (a_slot a) (a_comm a) d -> selected (agg_target pr) d = true ->
    (forall d', duty_for (sign_ok_of sign_fail) duties (a_slot a) (a_comm a) d' ->
                selected (agg_target pr) d' = true -> acct_ok_of no_acct (d_val d') = true) ->
    let returned := fst (run pr init (linearise hs ++ mid1 ++ OSub ep cur1 false false sign_fail duties :: mid2)) in
    let final := fst (run pr init (linearise (hs ++
                   [HDuring (mid1 ++ OSub ep cur1 false false sign_fail duties :: mid2)
                            (OAtt dslot cur false no_acct atts)]))) in
    (forall j, In j (st_jobs returned) -> In j (st_jobs final)) /\
    exists j, In j (st_jobs final) /\ jkey j = akey a /\
      (forall j', In j' (st_jobs final) -> jkey j' = akey a -> j' = j) /\
      j_time j = a_slot a * slot_ms pr + delay_ms pr /\ j_dslot j = a_slot a /\
      (~ In (akey a) (map jkey (st_jobs returned)) ->
         (exists d', duty_for (sign_ok_of sign_fail) duties (a_slot a) (a_comm a) d' /\
                     selected (agg_target pr) d' = true /\ j_val j = d_val d' /\ j_sig j = d_sig d') /\
         exists a', In a' atts /\ akey a' = akey a /\ j_root j = a_root a').
Proof.
  intros pr hs mid1 ep cur1 sign_fail duties mid2 dslot cur no_acct atts a d B K E C G Ha Hc Hd Hs Hacct returned final.
  assert (F : final = fst (step pr returned (OAtt dslot cur false no_acct atts))).
  { unfold final, returned. apply during_attest_state. }
  assert (R : returned = fst (run pr init ((linearise hs ++ mid1) ++ OSub ep cur1 false false sign_fail duties :: mid2))).
  { unfold returned. rewrite <- app_assoc. reflexivity. }
  rewrite F, R.
  destruct (C14_history_every_selected_committee_gets_job pr (linearise hs ++ mid1) ep cur1 sign_fail duties mid2
              dslot cur no_acct atts a d B K E C G Ha Hc Hd Hs Hacct) as (_ & P & Q).
  split; [exact P|exact Q].
Qed.
Print Assumptions C14_subscribe_during_attest_every_selected_committee_gets_job.

(* The other order -- the information looked up BEFORE calling Attest, i.e. the waiting attest
   placed before what completes meanwhile ([linearise_snapshot]) -- is refuted: whenever nothing is
   held for the epoch when the attestation job starts, it schedules nothing, whatever is stored
   while Attest is in flight; witness: validator 7 is the selected aggregator of committee 1 of
   slot 5, the subscribe of epoch 0 completes during Attest, the code's order makes the job. *)
Theorem C14_lookup_before_attest_refuted :
  (forall pr hs mid dslot cur attest_fail no_acct atts,
     Forall (fun o => match o with OAtt _ _ _ _ _ => False | _ => True end) mid ->
     get_info (dslot / spe pr) (st_infos (fst (run pr init (linearise_snapshot hs)))) = None ->
     st_jobs (fst (run pr init (linearise_snapshot (hs ++ [HDuring mid (OAtt dslot cur attest_fail no_acct atts)])))) =
     st_jobs (fst (run pr init (linearise_snapshot hs)))) /\
  (let pr := mkParams 12000 8000 32 16 in
   let d := mkDuty 7 5 1 1 1 0 9 [0; 0; 0; 0; 0; 0; 0; 0] in
   let hs := [HDuring [OSub 0 5 false false [] [d]] (OAtt 5 5 false [] [mkAtt 5 1 3])] in
   selected 16 d = true /\
   st_jobs (fst (run pr init (linearise hs))) = [mkJob 5 1 68000 5 3 7 9] /\
   st_jobs (fst (run pr init (linearise_snapshot hs))) = []).
Proof.
  split.
  - intros pr hs mid dslot cur af no_acct atts NA H.
    rewrite during_snapshot_state, run_app_fst, run_cons, attest_without_info by exact H.
    apply run_no_att_jobs. exact NA.
  - vm_compute. repeat split; reflexivity.
Qed.
Print Assumptions C14_lookup_before_attest_refuted.

(* ------------------------------------------------------------------------------------------- *)
(* Non-vacuity: the hypotheses of the theorems above are satisfiable by non-trivial inputs.    *)

Ltac in_cases H := repeat (destruct H as [<-|H]; [|]); [..|destruct H].

Example C14_example_duties_wellformed : consistent_duties ex_duties /\ digests_ok ex_duties.
Proof.
  split.
  - intros a b Ha Hb. cbn in Ha, Hb. in_cases Ha; in_cases Hb; cbn; intro; split; try reflexivity; try lia; intro; try reflexivity; lia.
  - intros d Hd. cbn in Hd. in_cases Hd; (split; [repeat constructor|cbn; lia]).
Qed.

Example C14_example_selection :
  selected 16 (mkDuty 31 5 0 64 2 7 1001 h_sel) = true /\
  selected 16 (mkDuty 30 5 0 64 2 1 1005 h_not) = false /\
  is_aggregator 31 16 h_not = true /\ is_aggregator 32 16 h_not = false /\
  le64 [1; 2; 0; 0; 0; 0; 0; 128; 77] = 9223372036854776321.
Proof. vm_compute. repeat split; reflexivity. Qed.

(* the committee (5, 0) has validators 30 (not selected) and 31 (selected): 31 is recorded; the
   past and current duties are stored but not submitted *)
Example C14_example_info :
  map (fun e => (s_val e, s_slot e, s_comm e, s_agg e)) (subscription_info 16 (fun _ => true) ex_duties) =
  [ (34, 3, 0, false); (32, 4, 1, false); (31, 5, 0, true); (33, 5, 1, false) ].
Proof. vm_compute. reflexivity. Qed.

Example C14_example_duties2_wellformed : consistent_duties ex_duties2 /\ digests_ok ex_duties2.
Proof.
  split.
  - intros a b Ha Hb. cbn in Ha, Hb. in_cases Ha; in_cases Hb; cbn; intro; split; try reflexivity; try lia; intro; try reflexivity; lia.
  - intros d Hd. cbn in Hd. in_cases Hd; (split; [repeat constructor|cbn; lia]).
Qed.

(* a history: subscribe epoch 9 at slot 70, attest slot 72 at slot 72: two committees with a
   selected validator, two jobs at 72 * 12 s + 8 s; the pinned loop made one *)
Example C14_example_history :
  snd (run ex_pr init [ OSub 9 70 false false [] ex_duties2; OAtt 72 72 false [] ex_atts ]) =
  [ OutSub [[ mkSubscription 40 72 0 3 true; mkSubscription 41 72 1 3 true; mkSubscription 42 72 2 3 false ]]
           (Some (subscription_info 16 (fun _ => true) ex_duties2));
    OutAtt [ mkJob 72 0 872000 72 9000 40 2001; mkJob 72 1 872000 72 9001 41 2002 ] ] /\
  attest_run_pinned ex_pr (subscription_info 16 (fun _ => true) ex_duties2) 72 (fun _ => true) [] ex_atts =
  [ mkJob 72 0 872000 72 9000 40 2001 ].
Proof. split; vm_compute; reflexivity. Qed.

(* head events: subscribe epochs 0 and 1 during epoch 0, a head of slot 3 at slot 3 (epoch 0) and
   one of slot 9 (epoch 1) drop nothing; the head of slot 16 (epoch 2) drops epoch 0 only; a head
   of slot 40 while the current slot is 16 is ignored; the by-subtraction variant would have
   dropped both in epoch 0 *)
Example C14_example_heads :
  let infos ops := map fst (st_infos (fst (run ex_pr init ops))) in
  let subs := [ OSub 0 2 false false [] []; OSub 1 2 false false [] [] ] in
  infos (subs ++ [OHead 3 3]) = [0; 1] /\ infos (subs ++ [OHead 9 9]) = [0; 1] /\
  infos (subs ++ [OHead 16 16]) = [1] /\ infos (subs ++ [OHead 40 16]) = [0; 1] /\
  filter (fun ep => negb (stale64_by_subtraction ep 0)) [0; 1] = [].
Proof. vm_compute. repeat split; reflexivity. Qed.

(* a subscribe of epoch 9 completing while the attest of slot 72 waits for Attest: the same two
   jobs as when it had completed before; looked up before Attest there would have been none *)
Example C14_example_during :
  let hs := [ HDuring [OSub 9 72 false false [] ex_duties2] (OAtt 72 72 false [] ex_atts) ] in
  linearise hs = [ OSub 9 72 false false [] ex_duties2; OAtt 72 72 false [] ex_atts ] /\
  st_jobs (fst (run ex_pr init (linearise hs))) =
    [ mkJob 72 0 872000 72 9000 40 2001; mkJob 72 1 872000 72 9001 41 2002 ] /\
  st_jobs (fst (run ex_pr init (linearise_snapshot hs))) = [].
Proof. vm_compute. repeat split; reflexivity. Qed.

(* ------------------------------------------------------------------------------------------- *)
(* Head events whose duty dependent roots change: the reorganisation path (added after seeded
   changes C14-9 and C14-10; Model/C14_Reorg.v).  A history is now a list of [ev]s: plain
   operations ([EOp]) and head events that carry roots of their own with the answers the rest of the
   world gives afterwards ([EHead ... views]); [expand] is the controller's history of [op]s they
   amount to, to which every theorem above applies.                                             *)

(* checkEventForReorg, as a statement: the CURRENT duty dependent root is compared only within an
   epoch (a recorded epoch that is not 0, a head of the same epoch, a recorded root that is not the
   zero root and differs); the PREVIOUS one within an epoch against the recorded previous root and,
   on a change of epoch, against the recorded current root. *)
Theorem C14_reorg_decision :
  forall rs hepoch prev curr,
    (snd (reorg_decide rs hepoch prev curr) = true <->
       r_epoch rs <> 0 /\ hepoch <= r_epoch rs /\ r_cur rs <> 0 /\ r_cur rs <> curr) /\
    (fst (reorg_decide rs hepoch prev curr) = true <->
       r_epoch rs <> 0 /\ r_prev rs <> 0 /\
       (if r_epoch rs <? hepoch then r_cur rs <> prev else r_prev rs <> prev)).
Proof. intros. split; [apply decide_current|apply decide_previous]. Qed.
Print Assumptions C14_reorg_decision.

(* The current duty dependent root governs the attester duties of the NEXT epoch: when it changes,
   the head event is followed by what completes while the re-subscription waits for the beacon node
   and then by the subscribe of the NEXT epoch with the duties the node answers with now -- to which
   theorems 5-15 (every future pair subscribed, the specification's flag) and 18/20 (that
   information decides from then on) apply. *)
Theorem C14_current_root_change_resubscribes_next_epoch :
  forall pr rs hslot prev curr views v evs,
    reorg_decide rs (hslot / spe pr) prev curr = (false, true) ->
    find_view (wrap64 (hslot / spe pr + 1)) views = Some v -> usable v ->
    exists rs',
      expand pr rs (EHead hslot hslot prev curr views :: evs) =
      OHead hslot hslot :: v_mid v ++
        OSub (wrap64 (hslot / spe pr + 1)) hslot false (v_duties_fail v) (v_sign_fail v) (v_duties v) ::
        expand pr rs' evs.
Proof. exact head_current_root_changed. Qed.
Print Assumptions C14_current_root_change_resubscribes_next_epoch.

(* ... and the previous duty dependent root those of the CURRENT epoch. *)
Theorem C14_previous_root_change_resubscribes_current_epoch :
  forall pr rs hslot prev curr views v evs,
    reorg_decide rs (hslot / spe pr) prev curr = (true, false) ->
    find_view (hslot / spe pr) views = Some v -> usable v ->
    exists rs',
      expand pr rs (EHead hslot hslot prev curr views :: evs) =
      OHead hslot hslot :: v_mid v ++
        OSub (hslot / spe pr) hslot false (v_duties_fail v) (v_sign_fail v) (v_duties v) :: expand pr rs' evs.
Proof. exact head_previous_root_changed. Qed.
Print Assumptions C14_previous_root_change_resubscribes_current_epoch.

(* a head event that is not of the current slot, or whose roots continue the recorded ones, is the
   housekeeping alone *)
Theorem C14_head_without_root_change_resubscribes_nothing :
  (forall pr rs hslot cur prev curr views evs, hslot <> cur ->
     expand pr rs (EHead hslot cur prev curr views :: evs) = OHead hslot cur :: expand pr rs evs) /\
  (forall pr rs hslot prev curr views evs,
     reorg_decide rs (hslot / spe pr) prev curr = (false, false) ->
     expand pr rs (EHead hslot hslot prev curr views :: evs) =
     OHead hslot hslot :: expand pr (mkR (hslot / spe pr) prev curr) evs).
Proof. split; [exact expand_head_ignored|exact head_no_root_changed]. Qed.
Print Assumptions C14_head_without_root_change_resubscribes_nothing.

(* While a refresh is in flight the epoch is never without its information: after the head event
   (of the epoch itself or of the one before) and whatever completes before the re-subscription
   stores its result -- attests, head events, subscribes of other epochs -- the information held
   before is still held. *)
Theorem C14_info_held_while_refresh_in_flight :
  forall pr st ep hslot cur mid info,
    ep + 1 < two64 -> hslot / spe pr <= ep + 1 -> Forall (keeps pr ep) mid ->
    get_info ep (st_infos st) = Some info ->
    get_info ep (st_infos (fst (run pr st (OHead hslot cur :: mid)))) = Some info.
Proof.
  intros pr st ep hslot cur mid info B H K G. apply info_held_through; [exact B| |exact G].
  constructor; [apply head_keeps; exact H|exact K].
Qed.
Print Assumptions C14_info_held_while_refresh_in_flight.

(* Hence the property for that shape: an attestation of the epoch that completes while the refresh
   is in flight (after the head event [OHead hslot hslot] and anything else [mid1] that leaves the
   epoch's information alone, before the re-subscription has returned) sets up exactly one
   aggregation job for every attested committee with a selected validator of ours, from the duties
   of the last subscribe. *)
Theorem C14_attest_while_refresh_in_flight_every_selected_committee_gets_job :
  forall pr ops1 ep cur1 sign_fail duties ops2 hslot mid1 dslot cur no_acct atts a d,
    ep + 1 < two64 -> Forall (keeps pr ep) ops2 -> hslot / spe pr <= ep + 1 -> Forall (keeps pr ep) mid1 ->
    dslot / spe pr = ep -> consistent_duties duties -> digests_ok duties ->
    In a atts -> cur <= a_slot a ->
    duty_for (sign_ok_of sign_fail) duties (a_slot a) (a_comm a) d -> selected (agg_target pr) d = true ->
    (forall d', duty_for (sign_ok_of sign_fail) duties (a_slot a) (a_comm a) d' ->
                selected (agg_target pr) d' = true -> acct_ok_of no_acct (d_val d') = true) ->
    let st := fst (run pr init (ops1 ++ OSub ep cur1 false false sign_fail duties :: ops2 ++ OHead hslot hslot :: mid1)) in
    let r := step pr st (OAtt dslot cur false no_acct atts) in
    (forall j, In j (st_jobs st) -> In j (st_jobs (fst r))) /\
    exists j, In j (st_jobs (fst r)) /\ jkey j = akey a /\
      (forall j', In j' (st_jobs (fst r)) -> jkey j' = akey a -> j' = j) /\
      j_time j = a_slot a * slot_ms pr + delay_ms pr /\ j_dslot j = a_slot a.
Proof.
  intros pr ops1 ep cur1 sign_fail duties ops2 hslot mid1 dslot cur no_acct atts a d B K2 H K1 E C G Ha Hc Hd Hs Hacct st r.
  assert (K : Forall (keeps pr ep) (ops2 ++ OHead hslot hslot :: mid1)).
  { apply Forall_app. split; [exact K2|]. constructor; [apply head_keeps; exact H|exact K1]. }
  destruct (C14_history_every_selected_committee_gets_job pr ops1 ep cur1 sign_fail duties
              (ops2 ++ OHead hslot hslot :: mid1) dslot cur no_acct atts a d B K E C G Ha Hc Hd Hs Hacct)
    as (_ & P & j & J1 & J2 & J3 & J4 & J5 & _).
  split; [exact P|]. exists j. repeat split; assumption.
Qed.
Print Assumptions C14_attest_while_refresh_in_flight_every_selected_committee_gets_job.

(* The seeded shapes, refuted.  (a) The epoch's information deleted when the refresh starts
   ([drop_info]): an attest of the epoch that completes before the re-subscription has returned
   schedules nothing, whatever was held; witness: validator 7 is the selected aggregator of
   committee 3 of slot 10, the previous dependent root changes at slot 10, the attestation of slot
   10 completes while epoch 1 is being re-subscribed -- the code's history makes the job.
   (b) The current dependent root refreshing the current epoch ([refresh_epochs_same]): the next
   epoch, whose duties changed, is never among the refreshed ones. *)
Theorem C14_refresh_dropping_info_refuted :
  (forall pr st dslot cur attest_fail no_acct atts,
     fst (step pr (drop_info (dslot / spe pr) st) (OAtt dslot cur attest_fail no_acct atts)) =
     drop_info (dslot / spe pr) st) /\
  (let pr := mkParams 12000 8000 8 16 in
   let d := mkDuty 7 10 3 1 1 0 9 [0; 0; 0; 0; 0; 0; 0; 0] in
   let d' := mkDuty 8 12 2 1 1 0 11 [0; 0; 0; 0; 0; 0; 0; 0] in
   let att := OAtt 10 10 false [] [mkAtt 10 3 4] in
   let evs := [EOp (HOp (OSub 1 8 false false [] [d])); EHead 9 9 5 6 [];
               EHead 10 10 77 6 [mkView 1 false false false false [] [d'] [att]]] in
   selected 16 d = true /\
   expand pr rinit evs = [OSub 1 8 false false [] [d]; OHead 9 9; OHead 10 10; att; OSub 1 10 false false [] [d']] /\
   st_jobs (fst (run pr init (expand pr rinit evs))) = [mkJob 10 3 128000 10 4 7 9] /\
   st_jobs (fst (step pr (drop_info 1 (fst (run pr init [OSub 1 8 false false [] [d]; OHead 9 9; OHead 10 10]))) att)) = []).
Proof.
  split; [exact dropped_info_schedules_nothing|].
  vm_compute. repeat split; reflexivity.
Qed.
Print Assumptions C14_refresh_dropping_info_refuted.

Theorem C14_current_root_refreshing_current_epoch_refuted :
  forall pr cur, cur / spe pr + 1 < two64 ->
    refresh_epochs pr cur (false, true) = [cur / spe pr + 1] /\
    refresh_epochs_same pr cur (false, true) = [cur / spe pr] /\
    ~ In (cur / spe pr + 1) (refresh_epochs_same pr cur (false, true)).
Proof.
  intros pr cur B. unfold refresh_epochs, refresh_epochs_same, wrap64. cbn [fst snd app].
  rewrite N.mod_small by exact B. repeat split.
  intros [H|[]]. rewrite N.add_1_r in H. exact (N.neq_succ_diag_r _ H).
Qed.
Print Assumptions C14_current_root_refreshing_current_epoch_refuted.

(* non-vacuity: a current-root change in the second half of epoch 1 re-subscribes epoch 2 with the
   new duties (the pair of slot 17 is submitted, the information of epoch 2 replaced), a head event
   of the next epoch whose previous root does not continue the old current root re-subscribes that
   epoch, and nothing is compared during epoch 0 *)
Example C14_example_reorg :
  let pr := mkParams 12000 8000 8 16 in
  let d_old := mkDuty 7 16 0 1 1 0 9 [0; 0; 0; 0; 0; 0; 0; 0] in
  let d_new := mkDuty 7 17 2 1 1 0 11 [0; 0; 0; 0; 0; 0; 0; 0] in
  let v := mkView 2 false false false false [] [d_new] [] in
  reorg_decide (mkR 1 5 6) 1 5 77 = (false, true) /\
  reorg_decide (mkR 1 5 6) 2 9 88 = (true, false) /\
  reorg_decide (mkR 0 5 6) 0 9 88 = (false, false) /\
  expand pr rinit [EOp (HOp (OSub 2 12 false false [] [d_old])); EHead 12 12 5 6 []; EHead 13 13 5 77 [v]] =
    [OSub 2 12 false false [] [d_old]; OHead 12 12; OHead 13 13; OSub 2 13 false false [] [d_new]] /\
  snd (run pr init (expand pr rinit [EOp (HOp (OSub 2 12 false false [] [d_old])); EHead 12 12 5 6 []; EHead 13 13 5 77 [v]])) =
    [OutSub [[mkSubscription 7 16 0 1 true]] (Some [mkSub 7 16 0 1 1 0 true 9]); OutHead [(2, [mkSub 7 16 0 1 1 0 true 9])];
     OutHead [(2, [mkSub 7 16 0 1 1 0 true 9])];
     OutSub [[mkSubscription 7 17 2 1 true]] (Some [mkSub 7 17 2 1 1 0 true 11])].
Proof. vm_compute. repeat split; reflexivity. Qed.

(* Process start (added after seeded change C14-11; Model/C14_Start.v).  The constructor subscribes
   the start-up epoch and the next one, each with the validators validating in THAT epoch: the
   history of a start is the subscribe of the current epoch with the current epoch's duties followed
   by the subscribe of the next epoch with the next epoch's duties (so theorems 5-15 give every
   future pair of the next epoch's validators -- those activated in it included -- its subscription
   and theorems 18/20 their aggregation jobs).  The seeded shape -- both epochs subscribed with the
   start-up epoch's validators ([start_ops_same_accounts]) -- is refuted by a witness: validator 3,
   activated in epoch 2, selected aggregator of committee 0 of slot 17, start at slot 13: the code's
   history makes its job, the other one neither asks for its duty nor makes the job. *)

Theorem C14_start_up_subscribes_each_epoch_with_its_own_validators :
  forall pr cur views vE vN evs,
    find_view (cur / spe pr) views = Some vE -> find_view (cur / spe pr + 1) views = Some vN ->
    v_mid vE = [] -> v_mid vN = [] ->
    expand pr rinit (start_events pr cur views ++ evs) =
    OSub (cur / spe pr) cur (v_no_accounts vE) (v_duties_fail vE) (v_sign_fail vE) (v_duties vE) ::
    OSub (cur / spe pr + 1) cur (v_no_accounts vN) (v_duties_fail vN) (v_sign_fail vN) (v_duties vN) ::
    expand pr rinit evs.
Proof.
  intros pr cur views vE vN evs HE HN ME MN.
  unfold start_events, start_ops, start_epochs. cbn [flat_map].
  rewrite HE, HN. unfold start_sub. rewrite ME, MN. cbn. reflexivity.
Qed.
Print Assumptions C14_start_up_subscribes_each_epoch_with_its_own_validators.

Theorem C14_start_up_with_start_epoch_accounts_refuted :
  let pr := mkParams 12000 8000 8 16 in
  let z := [0; 0; 0; 0; 0; 0; 0; 0] in
  let d3 := mkDuty 3 17 0 10 2 5 1703 z in
  let vE := mkView 1 false false false false [] [mkDuty 1 14 0 10 2 3 1401 z; mkDuty 2 15 1 10 2 4 1502 z] [] in
  let vN := mkView 2 false false false false [] [mkDuty 1 18 1 10 2 3 1801 z; mkDuty 2 19 0 10 2 4 1902 z; d3] [] in
  let att := OAtt 17 17 false [] [mkAtt 17 0 1700] in
  selected 16 d3 = true /\
  st_jobs (fst (run pr init (expand pr rinit (start_events pr 13 [vE; vN] ++ [EOp (HOp att)])))) =
    [mkJob 17 0 212000 17 1700 3 1703] /\
  st_jobs (fst (run pr init (start_ops_same_accounts pr 13 [vE; vN] ++ [att]))) = [] /\
  (forall o, In o (start_ops_same_accounts pr 13 [vE; vN]) ->
     match o with OSub _ _ _ _ _ ds => ~ In d3 ds | _ => True end).
Proof.
  vm_compute. repeat split; try reflexivity.
  intros o [H|[H|[]]]; subst o; intros [H|[H|[]]]; discriminate H.
Qed.
Print Assumptions C14_start_up_with_start_epoch_accounts_refuted.
